import PdeVerif.Props.C05
import PdeVerif.Props.C02
import Mathlib.Tactic.Positivity
import Mathlib.Tactic.NormNum
import Mathlib.Tactic.Linarith
import Mathlib.Algebra.Order.Field.Basic
/-
C05, second part - the zero-sum theorems for every number of axes with *per-axis* conserving ghost cells
(zero-flux or periodic, mixed freely between the axes), the Cartesian divergence in 2-d and 3-d, the
cylindrical Laplacian with periodic `z`, and the composition with the C02 ghost-cell model: corollaries whose
hypothesis is "the ghost cells were written by `BC.setGhostAll` with zero-flux / periodic / vanishing-normal
faces" and whose radii are the cell centres `Stencil.centre r_min dr` of the grid - i.e. exactly the term the
driver `Drv/C05.lean` evaluates (`int… (setGhostAll faces a) …` with `r = centre lo dr`).

The ghost-cell hypotheses of the n-d theorems here are *bounded* (`1 ≤ j ≤ m` on the other axes): a face never
writes edges and corners, so the unbounded hypotheses of `cart2_laplace_integral_zero_neumann` &c. in
`Props/C05.lean` are not what `setGhostAll` delivers; the theorems of this file are.
-/
namespace PdeVerif.Conserve
open PdeVerif PdeVerif.Stencil PdeVerif.BC

section axes
variable {K : Type} [Field K] [CharZero K]

/-! ### one axis: what "conserving ghost cells" means for a line of cells `f 0, f 1 … f n, f (n+1)` -/

/-- scalar (Laplacian): zero flux at both ends, or periodic -/
def LapAxisOK (f : Int → K) (n : Nat) : Prop :=
  (f 0 = f 1 ∧ f ((n:Int) + 1) = f n) ∨ (f 0 = f n ∧ f ((n:Int) + 1) = f 1)

/-- normal vector component (divergence): vanishing at both walls (only the central difference conserves
then, see `onesided_divergence_not_conservative_under_dirichlet`), or periodic (every variant) -/
def DivAxisOK (mth : Method) (f : Int → K) (n : Nat) : Prop :=
  (mth = .central ∧ f 0 = -(f 1) ∧ f ((n:Int) + 1) = -(f n)) ∨ (f 0 = f n ∧ f ((n:Int) + 1) = f 1)

theorem d2_fun_sum_zero (dx : K) (hdx : dx ≠ 0) (f : Int → K) (n : Nat) (h : LapAxisOK f n) :
    sumTo (fun i => dx * ((f ((i:Int) + 1) - 2 * f (i:Int) + f ((i:Int) - 1)) / (dx * dx))) n = 0 := by
  rw [d2_fun_sum dx hdx]
  rcases h with ⟨h0, h1⟩ | ⟨h0, h1⟩
  · rw [h0, h1]; simp
  · rw [h0, h1]; ring

/-- the first difference of the model (`Stencil.d1`) along a line, as a function on the integers -/
def d1Fun (mth : Method) (dx : K) (f : Int → K) (i : Int) : K :=
  match mth with
  | .central => (f (i + 1) - f (i - 1)) / (2 * dx)
  | .forward => (f (i + 1) - f i) / dx
  | .backward => (f i - f (i - 1)) / dx

/-- telescoping of a first difference: only face values remain -/
theorem d1_fun_sum (mth : Method) (dx : K) (hdx : dx ≠ 0) (f : Int → K) (n : Nat) :
    sumTo (fun i => dx * d1Fun mth dx f (i:Int)) n =
      match mth with
      | .central => (f ((n:Int) + 1) + f n) / 2 - (f 1 + f 0) / 2
      | .forward => f ((n:Int) + 1) - f 1
      | .backward => f n - f 0 := by
  cases mth with
  | central =>
    have := sumTo_telescope (fun i => dx * d1Fun .central dx f (i:Int))
      (fun i => (f ((i:Int) + 1) + f (i:Int)) / 2) (by
        intro i
        simp only [d1Fun]
        push_cast
        have e1 : ((i:Int) + 1 - 1) = (i:Int) := by ring
        rw [e1]
        field_simp
        ring) n
    rw [this]; simp
  | forward =>
    have := sumTo_telescope (fun i => dx * d1Fun .forward dx f (i:Int))
      (fun i => f ((i:Int) + 1)) (by
        intro i
        simp only [d1Fun]
        push_cast
        field_simp) n
    rw [this]; simp
  | backward =>
    have := sumTo_telescope (fun i => dx * d1Fun .backward dx f (i:Int))
      (fun i => f (i:Int)) (by
        intro i
        simp only [d1Fun]
        push_cast
        have e1 : ((i:Int) + 1 - 1) = (i:Int) := by ring
        rw [e1]
        field_simp) n
    rw [this]; simp

theorem d1_fun_sum_zero (mth : Method) (dx : K) (hdx : dx ≠ 0) (f : Int → K) (n : Nat)
    (h : DivAxisOK mth f n) : sumTo (fun i => dx * d1Fun mth dx f (i:Int)) n = 0 := by
  rw [d1_fun_sum mth dx hdx]
  rcases h with ⟨hm, h0, h1⟩ | ⟨h0, h1⟩
  · subst hm; simp only; rw [h0, h1]; ring
  · cases mth <;> simp only [h0, h1] <;> ring

theorem sumTo_eq_zero (f : Nat → K) (n : Nat) (h : ∀ i, 1 ≤ i → i ≤ n → f i = 0) : sumTo f n = 0 := by
  rw [sumTo_congr f (fun _ => (0:K)) n h, sumTo_zero]

/-! ### Cartesian Laplacian, 2-d and 3-d, every axis zero-flux or periodic independently -/

theorem cart2_laplace_integral_zero (dx dy : K) (hdx : dx ≠ 0) (hdy : dy ≠ 0) (a : Arr K) (n m : Nat)
    (hx : ∀ j : Nat, 1 ≤ j → j ≤ m → LapAxisOK (fun i => a [i, (j:Int)]) n)
    (hy : ∀ i : Nat, 1 ≤ i → i ≤ n → LapAxisOK (fun j => a [(i:Int), j]) m) :
    intCart2Laplace dx dy a n m = 0 := by
  unfold intCart2Laplace
  have split : ∀ i j : Nat, dx * dy * cartLaplace [dx, dy] a [] [(i:Int), (j:Int)] =
      dy * (dx * ((a [(i:Int) + 1, (j:Int)] - 2 * a [(i:Int), (j:Int)] + a [(i:Int) - 1, (j:Int)]) / (dx * dx)))
      + dx * (dy * ((a [(i:Int), (j:Int) + 1] - 2 * a [(i:Int), (j:Int)] + a [(i:Int), (j:Int) - 1]) / (dy * dy))) := by
    intro i j; rw [cartLaplace_2d]; ring
  simp only [split, sumTo_add]
  have hX : sumTo (fun i => sumTo (fun j => dy * (dx * ((a [(i:Int) + 1, (j:Int)] - 2 * a [(i:Int), (j:Int)]
      + a [(i:Int) - 1, (j:Int)]) / (dx * dx)))) m) n = 0 := by
    rw [sumTo_comm]
    apply sumTo_eq_zero
    intro j h1 h2
    rw [sumTo_mul_left, d2_fun_sum_zero dx hdx (fun i => a [i, (j:Int)]) n (hx j h1 h2)]; simp
  have hY : sumTo (fun i => sumTo (fun j => dx * (dy * ((a [(i:Int), (j:Int) + 1] - 2 * a [(i:Int), (j:Int)]
      + a [(i:Int), (j:Int) - 1]) / (dy * dy)))) m) n = 0 := by
    apply sumTo_eq_zero
    intro i h1 h2
    rw [sumTo_mul_left, d2_fun_sum_zero dy hdy (fun j => a [(i:Int), j]) m (hy i h1 h2)]; simp
  rw [hX, hY]; simp

theorem cart3_laplace_integral_zero (dx dy dz : K) (hdx : dx ≠ 0) (hdy : dy ≠ 0) (hdz : dz ≠ 0)
    (a : Arr K) (n m l : Nat)
    (hx : ∀ j k : Nat, 1 ≤ j → j ≤ m → 1 ≤ k → k ≤ l → LapAxisOK (fun i => a [i, (j:Int), (k:Int)]) n)
    (hy : ∀ i k : Nat, 1 ≤ i → i ≤ n → 1 ≤ k → k ≤ l → LapAxisOK (fun j => a [(i:Int), j, (k:Int)]) m)
    (hz : ∀ i j : Nat, 1 ≤ i → i ≤ n → 1 ≤ j → j ≤ m → LapAxisOK (fun k => a [(i:Int), (j:Int), k]) l) :
    intCart3Laplace dx dy dz a n m l = 0 := by
  unfold intCart3Laplace
  have split : ∀ i j k : Nat, dx * dy * dz * cartLaplace [dx, dy, dz] a [] [(i:Int), (j:Int), (k:Int)] =
      dy * dz * (dx * ((a [(i:Int) + 1, (j:Int), (k:Int)] - 2 * a [(i:Int), (j:Int), (k:Int)]
          + a [(i:Int) - 1, (j:Int), (k:Int)]) / (dx * dx)))
      + dx * dz * (dy * ((a [(i:Int), (j:Int) + 1, (k:Int)] - 2 * a [(i:Int), (j:Int), (k:Int)]
          + a [(i:Int), (j:Int) - 1, (k:Int)]) / (dy * dy)))
      + dx * dy * (dz * ((a [(i:Int), (j:Int), (k:Int) + 1] - 2 * a [(i:Int), (j:Int), (k:Int)]
          + a [(i:Int), (j:Int), (k:Int) - 1]) / (dz * dz))) := by
    intro i j k; rw [cartLaplace_3d]; ring
  simp only [split, sumTo_add]
  have hX : sumTo (fun i => sumTo (fun j => sumTo (fun k => dy * dz * (dx * ((a [(i:Int) + 1, (j:Int), (k:Int)]
      - 2 * a [(i:Int), (j:Int), (k:Int)] + a [(i:Int) - 1, (j:Int), (k:Int)]) / (dx * dx)))) l) m) n = 0 := by
    rw [sumTo_comm]
    apply sumTo_eq_zero
    intro j hj1 hj2
    rw [sumTo_comm]
    apply sumTo_eq_zero
    intro k hk1 hk2
    rw [sumTo_mul_left, d2_fun_sum_zero dx hdx (fun i => a [i, (j:Int), (k:Int)]) n (hx j k hj1 hj2 hk1 hk2)]; simp
  have hY : sumTo (fun i => sumTo (fun j => sumTo (fun k => dx * dz * (dy * ((a [(i:Int), (j:Int) + 1, (k:Int)]
      - 2 * a [(i:Int), (j:Int), (k:Int)] + a [(i:Int), (j:Int) - 1, (k:Int)]) / (dy * dy)))) l) m) n = 0 := by
    apply sumTo_eq_zero
    intro i hi1 hi2
    rw [sumTo_comm]
    apply sumTo_eq_zero
    intro k hk1 hk2
    rw [sumTo_mul_left, d2_fun_sum_zero dy hdy (fun j => a [(i:Int), j, (k:Int)]) m (hy i k hi1 hi2 hk1 hk2)]; simp
  have hZ : sumTo (fun i => sumTo (fun j => sumTo (fun k => dx * dy * (dz * ((a [(i:Int), (j:Int), (k:Int) + 1]
      - 2 * a [(i:Int), (j:Int), (k:Int)] + a [(i:Int), (j:Int), (k:Int) - 1]) / (dz * dz)))) l) m) n = 0 := by
    apply sumTo_eq_zero
    intro i hi1 hi2
    apply sumTo_eq_zero
    intro j hj1 hj2
    rw [sumTo_mul_left, d2_fun_sum_zero dz hdz (fun k => a [(i:Int), (j:Int), k]) l (hz i j hi1 hi2 hj1 hj2)]; simp
  rw [hX, hY, hZ]; simp

/-- all six faces periodic (instance of the theorem above) -/
theorem cart3_laplace_integral_zero_periodic (dx dy dz : K) (hdx : dx ≠ 0) (hdy : dy ≠ 0) (hdz : dz ≠ 0)
    (a : Arr K) (n m l : Nat)
    (hx0 : ∀ j k : Nat, 1 ≤ j → j ≤ m → 1 ≤ k → k ≤ l → a [0, (j:Int), (k:Int)] = a [(n:Int), (j:Int), (k:Int)])
    (hx1 : ∀ j k : Nat, 1 ≤ j → j ≤ m → 1 ≤ k → k ≤ l → a [(n:Int) + 1, (j:Int), (k:Int)] = a [1, (j:Int), (k:Int)])
    (hy0 : ∀ i k : Nat, 1 ≤ i → i ≤ n → 1 ≤ k → k ≤ l → a [(i:Int), 0, (k:Int)] = a [(i:Int), (m:Int), (k:Int)])
    (hy1 : ∀ i k : Nat, 1 ≤ i → i ≤ n → 1 ≤ k → k ≤ l → a [(i:Int), (m:Int) + 1, (k:Int)] = a [(i:Int), 1, (k:Int)])
    (hz0 : ∀ i j : Nat, 1 ≤ i → i ≤ n → 1 ≤ j → j ≤ m → a [(i:Int), (j:Int), 0] = a [(i:Int), (j:Int), (l:Int)])
    (hz1 : ∀ i j : Nat, 1 ≤ i → i ≤ n → 1 ≤ j → j ≤ m → a [(i:Int), (j:Int), (l:Int) + 1] = a [(i:Int), (j:Int), 1]) :
    intCart3Laplace dx dy dz a n m l = 0 :=
  cart3_laplace_integral_zero dx dy dz hdx hdy hdz a n m l
    (fun j k a1 a2 a3 a4 => Or.inr ⟨hx0 j k a1 a2 a3 a4, hx1 j k a1 a2 a3 a4⟩)
    (fun i k a1 a2 a3 a4 => Or.inr ⟨hy0 i k a1 a2 a3 a4, hy1 i k a1 a2 a3 a4⟩)
    (fun i j a1 a2 a3 a4 => Or.inr ⟨hz0 i j a1 a2 a3 a4, hz1 i j a1 a2 a3 a4⟩)

/-! ### cylindrical Laplacian: zero-flux or periodic `z`, any inner radius -/

theorem cyl_laplace_integral_zero_axes (r : Int → K) (dr dz : K) (hdr : dr ≠ 0) (hdz : dz ≠ 0) (a : Arr K) (n m : Nat)
    (hlat : ∀ i : Int, r (i + 1) = r i + dr) (hr : ∀ i : Nat, 1 ≤ i → r i ≠ 0)
    (hinner : r 0 + dr / 2 = 0 ∨ ∀ j : Nat, 1 ≤ j → j ≤ m → a [0, (j:Int)] = a [1, (j:Int)])
    (houter : ∀ j : Nat, 1 ≤ j → j ≤ m → a [(n:Int) + 1, (j:Int)] = a [(n:Int), (j:Int)])
    (hz : ∀ i : Nat, 1 ≤ i → i ≤ n → LapAxisOK (fun j => a [(i:Int), j]) m) :
    intCylLaplace r dr dz a n m = 0 := by
  rw [cyl_laplace_sum r dr dz hdr hdz a n m hlat hr]
  have h1 : sumTo (fun j : Nat => dz * (2 * (r n + dr / 2) * (a [(n:Int) + 1, (j:Int)] - a [(n:Int), (j:Int)]) / dr
      - 2 * (r 0 + dr / 2) * (a [1, (j:Int)] - a [0, (j:Int)]) / dr)) m = 0 := by
    apply sumTo_eq_zero
    intro j hj1 hj2
    rw [houter j hj1 hj2]
    rcases hinner with h | h
    · rw [h]; simp
    · rw [h j hj1 hj2]; simp
  have h2 : sumTo (fun i : Nat => 2 * dr * r (i:Int) * ((a [(i:Int), (m:Int) + 1] - a [(i:Int), (m:Int)]) / dz
      - (a [(i:Int), 1] - a [(i:Int), 0]) / dz)) n = 0 := by
    apply sumTo_eq_zero
    intro i hi1 hi2
    rcases hz i hi1 hi2 with ⟨h0, h1⟩ | ⟨h0, h1⟩
    · simp only at h0 h1; rw [h0, h1]; simp
    · simp only at h0 h1; rw [h0, h1]; ring
  rw [h1, h2]; simp

/-- periodic `z` (the case the review found without a theorem) -/
theorem cyl_laplace_integral_zero_periodic_z (r : Int → K) (dr dz : K) (hdr : dr ≠ 0) (hdz : dz ≠ 0) (a : Arr K)
    (n m : Nat) (hlat : ∀ i : Int, r (i + 1) = r i + dr) (hr : ∀ i : Nat, 1 ≤ i → r i ≠ 0)
    (hinner : r 0 + dr / 2 = 0 ∨ ∀ j : Nat, 1 ≤ j → j ≤ m → a [0, (j:Int)] = a [1, (j:Int)])
    (houter : ∀ j : Nat, 1 ≤ j → j ≤ m → a [(n:Int) + 1, (j:Int)] = a [(n:Int), (j:Int)])
    (hz0 : ∀ i : Nat, 1 ≤ i → i ≤ n → a [(i:Int), 0] = a [(i:Int), (m:Int)])
    (hz1 : ∀ i : Nat, 1 ≤ i → i ≤ n → a [(i:Int), (m:Int) + 1] = a [(i:Int), 1]) :
    intCylLaplace r dr dz a n m = 0 :=
  cyl_laplace_integral_zero_axes r dr dz hdr hdz a n m hlat hr hinner houter
    (fun i h1 h2 => Or.inr ⟨hz0 i h1 h2, hz1 i h1 h2⟩)

/-! ### Cartesian divergence in 1-d, 2-d and 3-d

Every axis independently: vanishing normal component at both walls (central differences only) or periodic
(central, forward and backward).  One-sided differences with walls do *not* conserve
(`onesided_divergence_not_conservative_under_dirichlet`, `backward_divergence_not_conservative_under_dirichlet`). -/

theorem cartDivergence_1d_fun (mth : Method) (dx : K) (a : Arr K) (i : Int) :
    cartDivergence mth [dx] a [] [i] = d1Fun mth dx (fun i' => a [0, i']) i := by
  cases mth <;> simp [cartDivergence, lsum, d1, d1Fun, shift] <;> rfl

theorem cartDivergence_2d (mth : Method) (dx dy : K) (a : Arr K) (i j : Int) :
    cartDivergence mth [dx, dy] a [] [i, j] =
      d1Fun mth dx (fun i' => a [0, i', j]) i + d1Fun mth dy (fun j' => a [1, i, j']) j := by
  cases mth <;> simp [cartDivergence, lsum, d1, d1Fun, shift, List.range_succ] <;> rfl

theorem cartDivergence_3d (mth : Method) (dx dy dz : K) (a : Arr K) (i j k : Int) :
    cartDivergence mth [dx, dy, dz] a [] [i, j, k] =
      d1Fun mth dx (fun i' => a [0, i', j, k]) i + d1Fun mth dy (fun j' => a [1, i, j', k]) j
        + d1Fun mth dz (fun k' => a [2, i, j, k']) k := by
  cases mth <;> simp [cartDivergence, lsum, d1, d1Fun, shift, List.range_succ] <;> ring_nf

/-- 1-d, any variant of the difference -/
theorem cart1_divergence_integral_zero_axes (mth : Method) (dx : K) (hdx : dx ≠ 0) (a : Arr K) (n : Nat)
    (hx : DivAxisOK mth (fun i => a [0, i]) n) : intCart1Divergence mth dx a n = 0 := by
  unfold intCart1Divergence
  simp only [cartDivergence_1d_fun]
  exact d1_fun_sum_zero mth dx hdx _ n hx

theorem cart2_divergence_integral_zero (mth : Method) (dx dy : K) (hdx : dx ≠ 0) (hdy : dy ≠ 0) (a : Arr K) (n m : Nat)
    (hx : ∀ j : Nat, 1 ≤ j → j ≤ m → DivAxisOK mth (fun i => a [0, i, (j:Int)]) n)
    (hy : ∀ i : Nat, 1 ≤ i → i ≤ n → DivAxisOK mth (fun j => a [1, (i:Int), j]) m) :
    intCart2Divergence mth dx dy a n m = 0 := by
  unfold intCart2Divergence
  have split : ∀ i j : Nat, dx * dy * cartDivergence mth [dx, dy] a [] [(i:Int), (j:Int)] =
      dy * (dx * d1Fun mth dx (fun i' => a [0, i', (j:Int)]) (i:Int))
      + dx * (dy * d1Fun mth dy (fun j' => a [1, (i:Int), j']) (j:Int)) := by
    intro i j; rw [cartDivergence_2d]; ring
  simp only [split, sumTo_add]
  have hX : sumTo (fun i => sumTo (fun j => dy * (dx * d1Fun mth dx (fun i' => a [0, i', (j:Int)]) (i:Int))) m) n = 0 := by
    rw [sumTo_comm]
    apply sumTo_eq_zero
    intro j h1 h2
    rw [sumTo_mul_left, d1_fun_sum_zero mth dx hdx (fun i => a [0, i, (j:Int)]) n (hx j h1 h2)]; simp
  have hY : sumTo (fun i => sumTo (fun j => dx * (dy * d1Fun mth dy (fun j' => a [1, (i:Int), j']) (j:Int))) m) n = 0 := by
    apply sumTo_eq_zero
    intro i h1 h2
    rw [sumTo_mul_left, d1_fun_sum_zero mth dy hdy (fun j => a [1, (i:Int), j]) m (hy i h1 h2)]; simp
  rw [hX, hY]; simp

theorem cart3_divergence_integral_zero (mth : Method) (dx dy dz : K) (hdx : dx ≠ 0) (hdy : dy ≠ 0) (hdz : dz ≠ 0)
    (a : Arr K) (n m l : Nat)
    (hx : ∀ j k : Nat, 1 ≤ j → j ≤ m → 1 ≤ k → k ≤ l → DivAxisOK mth (fun i => a [0, i, (j:Int), (k:Int)]) n)
    (hy : ∀ i k : Nat, 1 ≤ i → i ≤ n → 1 ≤ k → k ≤ l → DivAxisOK mth (fun j => a [1, (i:Int), j, (k:Int)]) m)
    (hz : ∀ i j : Nat, 1 ≤ i → i ≤ n → 1 ≤ j → j ≤ m → DivAxisOK mth (fun k => a [2, (i:Int), (j:Int), k]) l) :
    intCart3Divergence mth dx dy dz a n m l = 0 := by
  unfold intCart3Divergence
  have split : ∀ i j k : Nat, dx * dy * dz * cartDivergence mth [dx, dy, dz] a [] [(i:Int), (j:Int), (k:Int)] =
      dy * dz * (dx * d1Fun mth dx (fun i' => a [0, i', (j:Int), (k:Int)]) (i:Int))
      + dx * dz * (dy * d1Fun mth dy (fun j' => a [1, (i:Int), j', (k:Int)]) (j:Int))
      + dx * dy * (dz * d1Fun mth dz (fun k' => a [2, (i:Int), (j:Int), k']) (k:Int)) := by
    intro i j k; rw [cartDivergence_3d]; ring
  simp only [split, sumTo_add]
  have hX : sumTo (fun i => sumTo (fun j => sumTo (fun k =>
      dy * dz * (dx * d1Fun mth dx (fun i' => a [0, i', (j:Int), (k:Int)]) (i:Int))) l) m) n = 0 := by
    rw [sumTo_comm]
    apply sumTo_eq_zero
    intro j hj1 hj2
    rw [sumTo_comm]
    apply sumTo_eq_zero
    intro k hk1 hk2
    rw [sumTo_mul_left, d1_fun_sum_zero mth dx hdx (fun i => a [0, i, (j:Int), (k:Int)]) n (hx j k hj1 hj2 hk1 hk2)]; simp
  have hY : sumTo (fun i => sumTo (fun j => sumTo (fun k =>
      dx * dz * (dy * d1Fun mth dy (fun j' => a [1, (i:Int), j', (k:Int)]) (j:Int))) l) m) n = 0 := by
    apply sumTo_eq_zero
    intro i hi1 hi2
    rw [sumTo_comm]
    apply sumTo_eq_zero
    intro k hk1 hk2
    rw [sumTo_mul_left, d1_fun_sum_zero mth dy hdy (fun j => a [1, (i:Int), j, (k:Int)]) m (hy i k hi1 hi2 hk1 hk2)]; simp
  have hZ : sumTo (fun i => sumTo (fun j => sumTo (fun k =>
      dx * dy * (dz * d1Fun mth dz (fun k' => a [2, (i:Int), (j:Int), k']) (k:Int))) l) m) n = 0 := by
    apply sumTo_eq_zero
    intro i hi1 hi2
    apply sumTo_eq_zero
    intro j hj1 hj2
    rw [sumTo_mul_left, d1_fun_sum_zero mth dz hdz (fun k => a [2, (i:Int), (j:Int), k]) l (hz i j hi1 hi2 hj1 hj2)]; simp
  rw [hX, hY, hZ]; simp

/-- the backward difference under a vanishing normal component does not conserve either: witness -/
theorem backward_divergence_not_conservative_under_dirichlet :
    ∃ (a : Arr Rat), a [0, 0] = -a [0, 1] ∧ a [0, 3] = -a [0, 2] ∧
      intCart1Divergence .backward (1:Rat) a 2 ≠ 0 := by
  refine ⟨fun idx => if idx = [0, 1] then 1 else if idx = [0, 0] then -1 else if idx = [0, 2] then 2
    else if idx = [0, 3] then -2 else 0, by decide, by decide, ?_⟩
  decide +kernel

end axes
section ghosts
variable {K : Type} [Field K] [CharZero K]

/-! ## composition with the C02 ghost-cell model -/

/-- the cell a face reads is written by no face of a compatible set -/
theorem setGhostAll_at_valid (faces : List (Face × K × Cond K)) (hc : Compatible faces) (a : Arr K)
    (idx : List Int) (fc : Face × K × Cond K) (hfc : fc ∈ faces) (hw : fc.1.writes idx = true)
    (c : Int) (h1 : 1 ≤ c) (h2 : c ≤ fc.1.N) :
    setGhostAll faces a (fc.1.at idx c) = a (fc.1.at idx c) := by
  apply setGhostAll_frame
  intro gc hgc
  obtain ⟨hs, hr⟩ := hc.same gc hgc fc hfc
  exact Face.not_writes_at_other gc.1 fc.1 idx c hs hr (hc.wf gc hgc) (hc.wf fc hfc) hw ⟨h1, h2⟩

/-- zero-flux face: after `set_ghost_cells` of all faces the ghost cell equals the adjacent cell -/
theorem setGhostAll_neumann0 (faces : List (Face × K × Cond K)) (hc : Compatible faces) (a : Arr K)
    (idx : List Int) (f : Face) (dx : K) (hfc : (f, dx, Cond.neumann (fun _ => ((0:Nat):K))) ∈ faces)
    (hw : f.writes idx = true) :
    setGhostAll faces a idx = setGhostAll faces a (f.at idx (nearIdx f.N f.side)) := by
  have hv := nearIdx_valid f.N f.side (hc.wf _ hfc).2
  rw [setGhostAll_written faces hc a idx _ hfc hw, setGhostAll_at_valid faces hc a idx _ hfc hw _ hv.1 hv.2]
  simp [ghostValue, ghost1, vpNeumann]

/-- face with vanishing (normal) value: the ghost cell is minus the adjacent cell -/
theorem setGhostAll_dirichlet0 (faces : List (Face × K × Cond K)) (hc : Compatible faces) (a : Arr K)
    (idx : List Int) (f : Face) (dx : K) (hfc : (f, dx, Cond.dirichlet (fun _ => ((0:Nat):K))) ∈ faces)
    (hw : f.writes idx = true) :
    setGhostAll faces a idx = -setGhostAll faces a (f.at idx (nearIdx f.N f.side)) := by
  have hv := nearIdx_valid f.N f.side (hc.wf _ hfc).2
  rw [setGhostAll_written faces hc a idx _ hfc hw, setGhostAll_at_valid faces hc a idx _ hfc hw _ hv.1 hv.2]
  simp [ghostValue, ghost1, vpDirichlet]

/-- periodic face: the ghost cell equals the cell at the opposite end -/
theorem setGhostAll_periodic (faces : List (Face × K × Cond K)) (hc : Compatible faces) (a : Arr K)
    (idx : List Int) (f : Face) (dx : K) (hfc : (f, dx, Cond.periodic false) ∈ faces)
    (hw : f.writes idx = true) :
    setGhostAll faces a idx = setGhostAll faces a (f.at idx (oppIdx f.N f.side)) := by
  have hv := oppIdx_valid f.N f.side (hc.wf _ hfc).2
  rw [setGhostAll_written faces hc a idx _ hfc hw, setGhostAll_at_valid faces hc a idx _ hfc hw _ hv.1 hv.2]
  simp [ghostValue, ghost1, vpPeriodic]

/-- the padded index `idx` lies on a line of cells along axis `ax` that a face of that axis serves: right
length, valid coordinates on all other axes, and (normal-only condition) last component index = axis -/
def OnLine (shape : List Nat) (rank ax : Nat) (normal : Bool) (idx : List Int) : Prop :=
  idx.length = rank + shape.length ∧
  (∀ j, j < shape.length → j ≠ ax →
    1 ≤ (idx.drop rank).getD j 0 ∧ (idx.drop rank).getD j 0 ≤ (shape.getD j 0 : Int)) ∧
  (normal = true → 1 ≤ rank ∧ (idx.take rank).getD (rank - 1) 0 = (ax : Int))

theorem face_writes_at_ghost (f : Face) (hax : f.axis < f.shape.length) (idx : List Int)
    (h : OnLine f.shape f.rank f.axis f.normal idx) : f.writes (f.at idx (ghostIdx f.N f.side)) = true := by
  obtain ⟨hlen, hoth, hnrm⟩ := h
  have hr : f.rank ≤ idx.length := by omega
  unfold Face.writes
  simp only [Bool.and_eq_true, beq_iff_eq, List.all_eq_true, List.mem_range, Bool.or_eq_true,
    decide_eq_true_eq, Bool.not_eq_true', ge_iff_le]
  rw [f.length_at, f.drop_at idx _ hr, f.take_at idx _ hr]
  have hl : f.axis < (idx.drop f.rank).length := by simp; omega
  refine ⟨⟨⟨hlen, getD_setAt_same _ _ _ hl⟩, ?_⟩, ?_⟩
  · intro j hj
    by_cases hja : j = f.axis
    · exact Or.inl hja
    · right
      rw [getD_setAt_other _ _ _ _ (Ne.symm hja)]
      exact hoth j hj hja
  · cases hn : f.normal with
    | false => exact Or.inl rfl
    | true => exact Or.inr (hnrm hn)

theorem face_at_at (f : Face) (idx : List Int) (c d : Int) (hr : f.rank ≤ idx.length) :
    f.at (f.at idx c) d = f.at idx d := by
  have e : f.at (f.at idx c) d = (f.at idx c).take f.rank ++ setAt ((f.at idx c).drop f.rank) f.axis d := rfl
  rw [e, f.take_at idx c hr, f.drop_at idx c hr]
  unfold Face.at setAt
  rw [List.set_set]

theorem mem_gridFaces (shape : List Nat) (rank : Nat) (dx : Nat → K) (cu cl : Nat → Cond K) (nu nl : Nat → Bool)
    (fc : Face × K × Cond K) :
    fc ∈ gridFaces shape rank dx cu cl nu nl ↔ ∃ ax, ax < shape.length ∧
      (fc = (⟨shape, rank, ax, .upper, nu ax⟩, dx ax, cu ax) ∨ fc = (⟨shape, rank, ax, .lower, nl ax⟩, dx ax, cl ax)) := by
  simp [gridFaces, List.mem_flatMap]

theorem gridFaces_compatible (shape : List Nat) (rank : Nat) (dx : Nat → K) (cu cl : Nat → Cond K) (nu nl : Nat → Bool)
    (hshape : ∀ ax, ax < shape.length → 1 ≤ shape.getD ax 0)
    (hcurv : ∀ ax, ax < shape.length → ∀ k, (cu ax = .curvature k ∨ cl ax = .curvature k) → 2 ≤ shape.getD ax 0) :
    Compatible (gridFaces shape rank dx cu cl nu nl) := by
  refine ⟨?_, ?_, ?_, ?_⟩
  · intro fc hfc gc hgc
    obtain ⟨ax, _, h | h⟩ := (mem_gridFaces ..).mp hfc <;> obtain ⟨bx, _, g | g⟩ := (mem_gridFaces ..).mp hgc <;>
      subst h <;> subst g <;> exact ⟨rfl, rfl⟩
  · intro fc hfc
    obtain ⟨ax, hax, h | h⟩ := (mem_gridFaces ..).mp hfc <;> subst h <;> exact ⟨hax, hshape ax hax⟩
  · unfold gridFaces
    rw [List.pairwise_flatMap]
    refine ⟨?_, ?_⟩
    · intro ax _
      simp
    · apply List.Pairwise.imp _ (List.pairwise_lt_range (n := shape.length))
      intro ax bx hlt fc hfc gc hgc
      simp only [List.mem_cons, List.not_mem_nil, or_false] at hfc hgc
      rcases hfc with h | h <;> rcases hgc with g | g <;> subst h <;> subst g <;> simp <;> omega
  · intro fc hfc k hk
    obtain ⟨ax, hax, h | h⟩ := (mem_gridFaces ..).mp hfc <;> subst h
    · exact hcurv ax hax k (Or.inl hk)
    · exact hcurv ax hax k (Or.inr hk)


/-! ### conserving conditions on every face, and what they give along a line of cells -/

/-- the line of padded indices through `idx` along grid axis `ax` (`Face.at`) -/
def lineAt (rank ax : Nat) (idx : List Int) (c : Int) : List Int := idx.take rank ++ setAt (idx.drop rank) ax c

theorem Face.at_eq_lineAt (f : Face) (idx : List Int) (c : Int) : f.at idx c = lineAt f.rank f.axis idx c := rfl

theorem line_neumann0 (faces : List (Face × K × Cond K)) (hc : Compatible faces) (a : Arr K) (f : Face) (dx : K)
    (hfc : (f, dx, Cond.neumann (fun _ => ((0:Nat):K))) ∈ faces) (idx : List Int)
    (hon : OnLine f.shape f.rank f.axis f.normal idx) :
    setGhostAll faces a (lineAt f.rank f.axis idx (ghostIdx f.N f.side))
      = setGhostAll faces a (lineAt f.rank f.axis idx (nearIdx f.N f.side)) := by
  have hw := face_writes_at_ghost f (hc.wf _ hfc).1 idx hon
  have := setGhostAll_neumann0 faces hc a _ f dx hfc hw
  rw [face_at_at f idx _ _ (by have := hon.1; omega)] at this
  exact this

theorem line_dirichlet0 (faces : List (Face × K × Cond K)) (hc : Compatible faces) (a : Arr K) (f : Face) (dx : K)
    (hfc : (f, dx, Cond.dirichlet (fun _ => ((0:Nat):K))) ∈ faces) (idx : List Int)
    (hon : OnLine f.shape f.rank f.axis f.normal idx) :
    setGhostAll faces a (lineAt f.rank f.axis idx (ghostIdx f.N f.side))
      = -setGhostAll faces a (lineAt f.rank f.axis idx (nearIdx f.N f.side)) := by
  have hw := face_writes_at_ghost f (hc.wf _ hfc).1 idx hon
  have := setGhostAll_dirichlet0 faces hc a _ f dx hfc hw
  rw [face_at_at f idx _ _ (by have := hon.1; omega)] at this
  exact this

theorem line_periodic (faces : List (Face × K × Cond K)) (hc : Compatible faces) (a : Arr K) (f : Face) (dx : K)
    (hfc : (f, dx, Cond.periodic false) ∈ faces) (idx : List Int)
    (hon : OnLine f.shape f.rank f.axis f.normal idx) :
    setGhostAll faces a (lineAt f.rank f.axis idx (ghostIdx f.N f.side))
      = setGhostAll faces a (lineAt f.rank f.axis idx (oppIdx f.N f.side)) := by
  have hw := face_writes_at_ghost f (hc.wf _ hfc).1 idx hon
  have := setGhostAll_periodic faces hc a _ f dx hfc hw
  rw [face_at_at f idx _ _ (by have := hon.1; omega)] at this
  exact this

theorem consCond_not_curvature (vector per : Bool) (k : List Int → K) : (consCond vector per : Cond K) ≠ .curvature k := by
  unfold consCond; cases per <;> cases vector <;> simp

theorem consFaces_compatible (shape : List Nat) (vector : Bool) (dxs : List K) (pers : List Bool)
    (hshape : ∀ ax, ax < shape.length → 1 ≤ shape.getD ax 0) : Compatible (consFaces shape vector dxs pers) := by
  apply gridFaces_compatible _ _ _ _ _ _ _ hshape
  intro ax _ k h
  rcases h with h | h <;> exact absurd h (consCond_not_curvature _ _ _)

/-- **scalar field**: along every line of cells of an axis whose two faces carry the conserving condition,
the ghost cells written by `setGhostAll` are conserving for the Laplacian (whatever the other faces carry) -/
theorem gridFaces_scalar_line (shape : List Nat) (dx : Nat → K) (cu cl : Nat → Cond K) (nu nl : Nat → Bool)
    (hc : Compatible (gridFaces shape 0 dx cu cl nu nl)) (a : Arr K) (ax : Nat) (hax : ax < shape.length) (per : Bool)
    (hu : cu ax = consCond false per) (hl : cl ax = consCond false per) (hnu : nu ax = false) (hnl : nl ax = false)
    (idx : List Int) (hon : OnLine shape 0 ax false idx) :
    LapAxisOK (fun c => setGhostAll (gridFaces shape 0 dx cu cl nu nl) a (lineAt 0 ax idx c)) (shape.getD ax 0) := by
  cases per with
  | false =>
    left
    have mu : ((⟨shape, 0, ax, .upper, false⟩ : Face), dx ax, Cond.neumann (fun _ => ((0:Nat):K)))
        ∈ gridFaces shape 0 dx cu cl nu nl :=
      (mem_gridFaces ..).mpr ⟨ax, hax, Or.inl (by rw [hu, hnu]; rfl)⟩
    have ml : ((⟨shape, 0, ax, .lower, false⟩ : Face), dx ax, Cond.neumann (fun _ => ((0:Nat):K)))
        ∈ gridFaces shape 0 dx cu cl nu nl :=
      (mem_gridFaces ..).mpr ⟨ax, hax, Or.inr (by rw [hl, hnl]; rfl)⟩
    exact ⟨line_neumann0 _ hc a _ _ ml idx hon, line_neumann0 _ hc a _ _ mu idx hon⟩
  | true =>
    right
    have mu : ((⟨shape, 0, ax, .upper, false⟩ : Face), dx ax, Cond.periodic false)
        ∈ gridFaces shape 0 dx cu cl nu nl :=
      (mem_gridFaces ..).mpr ⟨ax, hax, Or.inl (by rw [hu, hnu]; rfl)⟩
    have ml : ((⟨shape, 0, ax, .lower, false⟩ : Face), dx ax, Cond.periodic false)
        ∈ gridFaces shape 0 dx cu cl nu nl :=
      (mem_gridFaces ..).mpr ⟨ax, hax, Or.inr (by rw [hl, hnl]; rfl)⟩
    exact ⟨line_periodic _ hc a _ _ ml idx hon, line_periodic _ hc a _ _ mu idx hon⟩

/-- **vector field**: along every line of the normal component the ghost cells written by conserving faces
are conserving for the divergence (walls: central differences only; periodic: every variant) -/
theorem gridFaces_vector_line (mth : Method) (shape : List Nat) (dx : Nat → K) (cu cl : Nat → Cond K) (nu nl : Nat → Bool)
    (hc : Compatible (gridFaces shape 1 dx cu cl nu nl)) (a : Arr K) (ax : Nat) (hax : ax < shape.length) (per : Bool)
    (hu : cu ax = consCond true per) (hl : cl ax = consCond true per) (hnu : nu ax = !per) (hnl : nl ax = !per)
    (hm : mth = .central ∨ per = true) (idx : List Int) (hon : OnLine shape 1 ax true idx) :
    DivAxisOK mth (fun c => setGhostAll (gridFaces shape 1 dx cu cl nu nl) a (lineAt 1 ax idx c)) (shape.getD ax 0) := by
  cases per with
  | false =>
    left
    have hmc : mth = .central := by
      rcases hm with h | h
      · exact h
      · cases h
    have mu : ((⟨shape, 1, ax, .upper, true⟩ : Face), dx ax, Cond.dirichlet (fun _ => ((0:Nat):K)))
        ∈ gridFaces shape 1 dx cu cl nu nl :=
      (mem_gridFaces ..).mpr ⟨ax, hax, Or.inl (by rw [hu, hnu]; rfl)⟩
    have ml : ((⟨shape, 1, ax, .lower, true⟩ : Face), dx ax, Cond.dirichlet (fun _ => ((0:Nat):K)))
        ∈ gridFaces shape 1 dx cu cl nu nl :=
      (mem_gridFaces ..).mpr ⟨ax, hax, Or.inr (by rw [hl, hnl]; rfl)⟩
    exact ⟨hmc, line_dirichlet0 _ hc a _ _ ml idx hon, line_dirichlet0 _ hc a _ _ mu idx hon⟩
  | true =>
    right
    have hon' : OnLine shape 1 ax false idx := ⟨hon.1, hon.2.1, fun h => by cases h⟩
    have mu : ((⟨shape, 1, ax, .upper, false⟩ : Face), dx ax, Cond.periodic false)
        ∈ gridFaces shape 1 dx cu cl nu nl :=
      (mem_gridFaces ..).mpr ⟨ax, hax, Or.inl (by rw [hu, hnu]; rfl)⟩
    have ml : ((⟨shape, 1, ax, .lower, false⟩ : Face), dx ax, Cond.periodic false)
        ∈ gridFaces shape 1 dx cu cl nu nl :=
      (mem_gridFaces ..).mpr ⟨ax, hax, Or.inr (by rw [hl, hnl]; rfl)⟩
    exact ⟨line_periodic _ hc a _ _ ml idx hon', line_periodic _ hc a _ _ mu idx hon'⟩

theorem consFaces_scalar_line (shape : List Nat) (dxs : List K) (pers : List Bool)
    (hshape : ∀ ax, ax < shape.length → 1 ≤ shape.getD ax 0) (a : Arr K) (ax : Nat) (hax : ax < shape.length)
    (idx : List Int) (hon : OnLine shape 0 ax false idx) :
    LapAxisOK (fun c => setGhostAll (consFaces shape false dxs pers) a (lineAt 0 ax idx c)) (shape.getD ax 0) :=
  gridFaces_scalar_line shape _ _ _ _ _ (consFaces_compatible shape false dxs pers hshape) a ax hax
    (pers.getD ax false) rfl rfl rfl rfl idx hon

theorem consFaces_vector_line (mth : Method) (shape : List Nat) (dxs : List K) (pers : List Bool)
    (hshape : ∀ ax, ax < shape.length → 1 ≤ shape.getD ax 0) (a : Arr K) (ax : Nat) (hax : ax < shape.length)
    (hm : mth = .central ∨ pers.getD ax false = true)
    (idx : List Int) (hon : OnLine shape 1 ax true idx) :
    DivAxisOK mth (fun c => setGhostAll (consFaces shape true dxs pers) a (lineAt 1 ax idx c)) (shape.getD ax 0) :=
  gridFaces_vector_line mth shape _ _ _ _ _ (consFaces_compatible shape true dxs pers hshape) a ax hax
    (pers.getD ax false) rfl rfl rfl rfl hm idx hon

/-! ### the composition the driver evaluates: ghost cells by `setGhostAll`, then the volume-weighted sum -/

theorem cart1_laplace_integral_zero_ghost (dx : K) (hdx : dx ≠ 0) (a : Arr K) (n : Nat) (hn : 1 ≤ n) (px : Bool) :
    intCart1Laplace dx (setGhostAll (consFaces [n] false [dx] [px]) a) n = 0 := by
  have hshape : ∀ ax, ax < [n].length → 1 ≤ [n].getD ax 0 := by
    intro ax h; have : ax = 0 := by simpa using h
    subst this; simpa using hn
  have h := consFaces_scalar_line [n] [dx] [px] hshape a 0 (by simp) [0] ⟨rfl, by intro j h1 h2; simp at h1; omega, by simp⟩
  rw [cart1_laplace_sum dx hdx]
  rcases h with ⟨h0, h1⟩ | ⟨h0, h1⟩
  · have h0' : setGhostAll (consFaces [n] false [dx] [px]) a [0] = setGhostAll (consFaces [n] false [dx] [px]) a [1] := h0
    have h1' : setGhostAll (consFaces [n] false [dx] [px]) a [(n:Int) + 1] = setGhostAll (consFaces [n] false [dx] [px]) a [(n:Int)] := h1
    rw [h0', h1']; simp
  · have h0' : setGhostAll (consFaces [n] false [dx] [px]) a [0] = setGhostAll (consFaces [n] false [dx] [px]) a [(n:Int)] := h0
    have h1' : setGhostAll (consFaces [n] false [dx] [px]) a [(n:Int) + 1] = setGhostAll (consFaces [n] false [dx] [px]) a [1] := h1
    rw [h0', h1']; ring

theorem cart2_laplace_integral_zero_ghost (dx dy : K) (hdx : dx ≠ 0) (hdy : dy ≠ 0) (a : Arr K) (n m : Nat)
    (hn : 1 ≤ n) (hm : 1 ≤ m) (px py : Bool) :
    intCart2Laplace dx dy (setGhostAll (consFaces [n, m] false [dx, dy] [px, py]) a) n m = 0 := by
  have hshape : ∀ ax, ax < [n, m].length → 1 ≤ [n, m].getD ax 0 := by
    intro ax h
    have : ax = 0 ∨ ax = 1 := by simp at h; omega
    rcases this with rfl | rfl <;> simpa
  apply cart2_laplace_integral_zero dx dy hdx hdy
  · intro j h1 h2
    exact consFaces_scalar_line [n, m] [dx, dy] [px, py] hshape a 0 (by simp) [0, (j:Int)]
      ⟨rfl, by
        intro j' hj' hne
        have : j' = 1 := by simp at hj'; omega
        subst this; simp; omega, by simp⟩
  · intro i h1 h2
    exact consFaces_scalar_line [n, m] [dx, dy] [px, py] hshape a 1 (by simp) [(i:Int), 0]
      ⟨rfl, by
        intro j' hj' hne
        have : j' = 0 := by simp at hj'; omega
        subst this; simp; omega, by simp⟩

/-- closes `OnLine shape rank ax normal idx` for concrete 1-3 axes lists whose off-axis coordinates are
natural numbers with bounds in the context -/
macro "online" : tactic => `(tactic| (
  refine ⟨rfl, ?_, by simp⟩
  intro j' hj' hne
  have hcases : j' = 0 ∨ j' = 1 ∨ j' = 2 := by simp at hj'; omega
  rcases hcases with hc | hc | hc <;> subst hc <;> first | exact absurd rfl hne | (simp at hj'; done) | (simp; omega)))

theorem shape1_ok (n : Nat) (hn : 1 ≤ n) : ∀ ax, ax < [n].length → 1 ≤ [n].getD ax 0 := by
  intro ax h
  have : ax = 0 := by simpa using h
  subst this; simpa using hn

theorem shape2_ok (n m : Nat) (hn : 1 ≤ n) (hm : 1 ≤ m) : ∀ ax, ax < [n, m].length → 1 ≤ [n, m].getD ax 0 := by
  intro ax h
  have : ax = 0 ∨ ax = 1 := by simp at h; omega
  rcases this with rfl | rfl <;> simpa

theorem shape3_ok (n m l : Nat) (hn : 1 ≤ n) (hm : 1 ≤ m) (hl : 1 ≤ l) :
    ∀ ax, ax < [n, m, l].length → 1 ≤ [n, m, l].getD ax 0 := by
  intro ax h
  have : ax = 0 ∨ ax = 1 ∨ ax = 2 := by simp at h; omega
  rcases this with rfl | rfl | rfl <;> simpa

theorem cart3_laplace_integral_zero_ghost (dx dy dz : K) (hdx : dx ≠ 0) (hdy : dy ≠ 0) (hdz : dz ≠ 0) (a : Arr K)
    (n m l : Nat) (hn : 1 ≤ n) (hm : 1 ≤ m) (hl : 1 ≤ l) (px py pz : Bool) :
    intCart3Laplace dx dy dz (setGhostAll (consFaces [n, m, l] false [dx, dy, dz] [px, py, pz]) a) n m l = 0 := by
  have hshape := shape3_ok n m l hn hm hl
  apply cart3_laplace_integral_zero dx dy dz hdx hdy hdz
  · intro j k _ _ _ _
    exact consFaces_scalar_line [n, m, l] [dx, dy, dz] [px, py, pz] hshape a 0 (by simp) [0, (j:Int), (k:Int)] (by online)
  · intro i k _ _ _ _
    exact consFaces_scalar_line [n, m, l] [dx, dy, dz] [px, py, pz] hshape a 1 (by simp) [(i:Int), 0, (k:Int)] (by online)
  · intro i j _ _ _ _
    exact consFaces_scalar_line [n, m, l] [dx, dy, dz] [px, py, pz] hshape a 2 (by simp) [(i:Int), (j:Int), 0] (by online)

/-- 1-d divergence: walls need the central difference, a periodic axis conserves with every variant -/
theorem cart1_divergence_integral_zero_ghost (mth : Method) (dx : K) (hdx : dx ≠ 0) (a : Arr K) (n : Nat) (hn : 1 ≤ n)
    (px : Bool) (hm : mth = .central ∨ px = true) :
    intCart1Divergence mth dx (setGhostAll (consFaces [n] true [dx] [px]) a) n = 0 := by
  apply cart1_divergence_integral_zero_axes mth dx hdx
  exact consFaces_vector_line mth [n] [dx] [px] (shape1_ok n hn) a 0 (by simp) hm [0, 0] (by online)

theorem cart2_divergence_integral_zero_ghost (mth : Method) (dx dy : K) (hdx : dx ≠ 0) (hdy : dy ≠ 0) (a : Arr K)
    (n m : Nat) (hn : 1 ≤ n) (hm : 1 ≤ m) (px py : Bool) (hmth : mth = .central ∨ (px = true ∧ py = true)) :
    intCart2Divergence mth dx dy (setGhostAll (consFaces [n, m] true [dx, dy] [px, py]) a) n m = 0 := by
  have hshape := shape2_ok n m hn hm
  apply cart2_divergence_integral_zero mth dx dy hdx hdy
  · intro j _ _
    exact consFaces_vector_line mth [n, m] [dx, dy] [px, py] hshape a 0 (by simp)
      (hmth.imp id (fun h => h.1)) [0, 0, (j:Int)] (by online)
  · intro i _ _
    exact consFaces_vector_line mth [n, m] [dx, dy] [px, py] hshape a 1 (by simp)
      (hmth.imp id (fun h => h.2)) [1, (i:Int), 0] (by online)

theorem cart3_divergence_integral_zero_ghost (mth : Method) (dx dy dz : K) (hdx : dx ≠ 0) (hdy : dy ≠ 0) (hdz : dz ≠ 0)
    (a : Arr K) (n m l : Nat) (hn : 1 ≤ n) (hm : 1 ≤ m) (hl : 1 ≤ l) (px py pz : Bool)
    (hmth : mth = .central ∨ (px = true ∧ py = true ∧ pz = true)) :
    intCart3Divergence mth dx dy dz (setGhostAll (consFaces [n, m, l] true [dx, dy, dz] [px, py, pz]) a) n m l = 0 := by
  have hshape := shape3_ok n m l hn hm hl
  apply cart3_divergence_integral_zero mth dx dy dz hdx hdy hdz
  · intro j k _ _ _ _
    exact consFaces_vector_line mth [n, m, l] [dx, dy, dz] [px, py, pz] hshape a 0 (by simp)
      (hmth.imp id (fun h => h.1)) [0, 0, (j:Int), (k:Int)] (by online)
  · intro i k _ _ _ _
    exact consFaces_vector_line mth [n, m, l] [dx, dy, dz] [px, py, pz] hshape a 1 (by simp)
      (hmth.imp id (fun h => h.2.1)) [1, (i:Int), 0, (k:Int)] (by online)
  · intro i j _ _ _ _
    exact consFaces_vector_line mth [n, m, l] [dx, dy, dz] [px, py, pz] hshape a 2 (by simp)
      (hmth.imp id (fun h => h.2.2)) [2, (i:Int), (j:Int), 0] (by online)


end ghosts

section grids
variable {K : Type} [Field K] [LinearOrder K] [IsStrictOrderedRing K]

/-! ## radially symmetric grids: the cell centres `centre r_min dr` satisfy the lattice hypotheses -/

theorem centre_lattice (rmin dr : K) (i : Int) : centre rmin dr (i + 1) = centre rmin dr i + dr := by
  unfold centre; push_cast; ring

/-- the lower face of the first cell is the inner radius -/
theorem centre_inner_face (rmin dr : K) : centre rmin dr 0 + dr / 2 = rmin := by
  unfold centre; push_cast; ring

theorem centre_pos (rmin dr : K) (h0 : 0 ≤ rmin) (hdr : 0 < dr) (i : Nat) (hi : 1 ≤ i) :
    0 < centre rmin dr (i:Int) := by
  unfold centre
  push_cast
  have h1 : (1:K) ≤ (i:K) := by exact_mod_cast hi
  have : 0 < ((i:K) - 1 / 2) * dr := mul_pos (by linarith) hdr
  linarith

theorem centre_ne_zero (rmin dr : K) (h0 : 0 ≤ rmin) (hdr : 0 < dr) (i : Nat) (hi : 1 ≤ i) :
    centre rmin dr (i:Int) ≠ 0 := (centre_pos rmin dr h0 hdr i hi).ne'

theorem centre_shell_ne (rmin dr : K) (hdr : dr ≠ 0) (i : Nat) : dr ^ 2 + 12 * (centre rmin dr (i:Int)) ^ 2 ≠ 0 := by
  have : 0 < dr ^ 2 := by positivity
  have : 0 ≤ 12 * (centre rmin dr (i:Int)) ^ 2 := by positivity
  exact (by linarith : 0 < dr ^ 2 + 12 * (centre rmin dr (i:Int)) ^ 2).ne'

theorem radialFaces_compatible (shape : List Nat) (vector : Bool) (dxs : List K) (pers : List Bool) (cin : Cond K)
    (nin : Bool) (hshape : ∀ ax, ax < shape.length → 1 ≤ shape.getD ax 0)
    (hcurv : ∀ k, cin = .curvature k → 2 ≤ shape.getD 0 0) :
    Compatible (radialFaces shape vector dxs pers cin nin) := by
  apply gridFaces_compatible _ _ _ _ _ _ _ hshape
  intro ax _ k h
  rcases h with h | h
  · exact absurd h (consCond_not_curvature _ _ _)
  · by_cases h0 : ax = 0
    · subst h0; exact hcurv k (by simpa using h)
    · simp only [h0, if_false] at h; exact absurd h (consCond_not_curvature _ _ _)

/-- what is required of the inner face: nothing on a full disk/ball/cylinder (`r_min = 0`), the conserving
condition if there is a hole -/
def InnerOK (vector : Bool) (rmin : K) (cin : Cond K) (nin : Bool) : Prop :=
  rmin = 0 ∨ (cin = consCond vector false ∧ nin = vector)

/-- polar grid, Laplacian: outer face zero-flux; inner face zero-flux, or anything if `r_min = 0` -/
theorem polar_laplace_integral_zero_grid (rmin dr : K) (h0 : 0 ≤ rmin) (hdr : 0 < dr) (a : Arr K) (n : Nat) (hn : 1 ≤ n)
    (cin : Cond K) (nin : Bool) (hin : InnerOK false rmin cin nin) (hcurv : ∀ k, cin = .curvature k → 2 ≤ n) :
    intPolarLaplace (centre rmin dr) dr (setGhostAll (radialFaces [n] false [dr] [false] cin nin) a) n = 0 := by
  have hc := radialFaces_compatible [n] false [dr] [false] cin nin (shape1_ok n hn) (by simpa using hcurv)
  have hon : OnLine [n] 0 0 false [0] := by online
  have mu : ((⟨[n], 0, 0, .upper, false⟩ : Face), dr, Cond.neumann (fun _ => ((0:Nat):K)))
      ∈ radialFaces [n] false [dr] [false] cin nin := (mem_gridFaces ..).mpr ⟨0, by simp, Or.inl rfl⟩
  have hout := line_neumann0 _ hc a _ _ mu [0] hon
  apply polar_laplace_integral_zero (centre rmin dr) dr _ n hdr.ne' (centre_lattice rmin dr)
    (fun i hi => centre_ne_zero rmin dr h0 hdr i hi)
  · rw [centre_inner_face]
    rcases hin with h | ⟨h1, h2⟩
    · exact Or.inl h
    · right
      subst h1; subst h2
      have ml : ((⟨[n], 0, 0, .lower, false⟩ : Face), dr, Cond.neumann (fun _ => ((0:Nat):K)))
          ∈ radialFaces [n] false [dr] [false] (consCond false false) false := (mem_gridFaces ..).mpr ⟨0, by simp, Or.inr rfl⟩
      rw [neumann0_ghost]
      exact line_neumann0 _ hc a _ _ ml [0] hon
  · rw [neumann0_ghost]
    exact hout

/-- spherical grid, conservative Laplacian -/
theorem sph_laplace_conservative_integral_zero_grid (rmin dr : K) (hdr : 0 < dr) (a : Arr K) (n : Nat) (hn : 1 ≤ n)
    (cin : Cond K) (nin : Bool) (hin : InnerOK false rmin cin nin) (hcurv : ∀ k, cin = .curvature k → 2 ≤ n) :
    intSphLaplace true (centre rmin dr) dr (setGhostAll (radialFaces [n] false [dr] [false] cin nin) a) n = 0 := by
  have hc := radialFaces_compatible [n] false [dr] [false] cin nin (shape1_ok n hn) (by simpa using hcurv)
  have hon : OnLine [n] 0 0 false [0] := by online
  have mu : ((⟨[n], 0, 0, .upper, false⟩ : Face), dr, Cond.neumann (fun _ => ((0:Nat):K)))
      ∈ radialFaces [n] false [dr] [false] cin nin := (mem_gridFaces ..).mpr ⟨0, by simp, Or.inl rfl⟩
  have hout := line_neumann0 _ hc a _ _ mu [0] hon
  apply sph_laplace_conservative_integral_zero (centre rmin dr) dr _ n hdr.ne' (centre_lattice rmin dr)
    (fun i => centre_shell_ne rmin dr hdr.ne' i)
  · rw [centre_inner_face]
    rcases hin with h | ⟨h1, h2⟩
    · exact Or.inl h
    · right
      subst h1; subst h2
      have ml : ((⟨[n], 0, 0, .lower, false⟩ : Face), dr, Cond.neumann (fun _ => ((0:Nat):K)))
          ∈ radialFaces [n] false [dr] [false] (consCond false false) false := (mem_gridFaces ..).mpr ⟨0, by simp, Or.inr rfl⟩
      rw [neumann0_ghost]
      exact line_neumann0 _ hc a _ _ ml [0] hon
  · rw [neumann0_ghost]
    exact hout

/-- spherical grid, conservative (central) divergence of a vector field with vanishing normal component -/
theorem sph_divergence_conservative_integral_zero_grid (rmin dr : K) (hdr : 0 < dr) (a : Arr K) (n : Nat) (hn : 1 ≤ n)
    (cin : Cond K) (nin : Bool) (hin : InnerOK true rmin cin nin) (hcurv : ∀ k, cin = .curvature k → 2 ≤ n) :
    intSphDivergence true .central (centre rmin dr) dr (setGhostAll (radialFaces [n] true [dr] [false] cin nin) a) n = 0 := by
  have hc := radialFaces_compatible [n] true [dr] [false] cin nin (shape1_ok n hn) (by simpa using hcurv)
  have hon : OnLine [n] 1 0 true [0, 0] := by online
  have mu : ((⟨[n], 1, 0, .upper, true⟩ : Face), dr, Cond.dirichlet (fun _ => ((0:Nat):K)))
      ∈ radialFaces [n] true [dr] [false] cin nin := (mem_gridFaces ..).mpr ⟨0, by simp, Or.inl rfl⟩
  have hout := line_dirichlet0 _ hc a _ _ mu [0, 0] hon
  apply sph_divergence_conservative_integral_zero (centre rmin dr) dr _ n hdr.ne' (centre_lattice rmin dr)
    (fun i => centre_shell_ne rmin dr hdr.ne' i)
  · rw [centre_inner_face]
    rcases hin with h | ⟨h1, h2⟩
    · exact Or.inl h
    · right
      subst h1; subst h2
      have ml : ((⟨[n], 1, 0, .lower, true⟩ : Face), dr, Cond.dirichlet (fun _ => ((0:Nat):K)))
          ∈ radialFaces [n] true [dr] [false] (consCond true false) true := (mem_gridFaces ..).mpr ⟨0, by simp, Or.inr rfl⟩
      rw [dirichlet0_ghost]
      exact line_dirichlet0 _ hc a _ _ ml [0, 0] hon
  · rw [dirichlet0_ghost]
    exact hout

/-- cylindrical grid, Laplacian: zero-flux outer face, zero-flux or periodic `z`, inner face zero-flux or
anything if `r_min = 0` -/
theorem cyl_laplace_integral_zero_grid (rmin dr dz : K) (h0 : 0 ≤ rmin) (hdr : 0 < dr) (hdz : dz ≠ 0) (a : Arr K)
    (n m : Nat) (hn : 1 ≤ n) (hm : 1 ≤ m) (pz : Bool)
    (cin : Cond K) (nin : Bool) (hin : InnerOK false rmin cin nin) (hcurv : ∀ k, cin = .curvature k → 2 ≤ n) :
    intCylLaplace (centre rmin dr) dr dz
      (setGhostAll (radialFaces [n, m] false [dr, dz] [false, pz] cin nin) a) n m = 0 := by
  have hc := radialFaces_compatible [n, m] false [dr, dz] [false, pz] cin nin (shape2_ok n m hn hm) (by simpa using hcurv)
  have mu : ((⟨[n, m], 0, 0, .upper, false⟩ : Face), dr, Cond.neumann (fun _ => ((0:Nat):K)))
      ∈ radialFaces [n, m] false [dr, dz] [false, pz] cin nin := (mem_gridFaces ..).mpr ⟨0, by simp, Or.inl rfl⟩
  apply cyl_laplace_integral_zero_axes (centre rmin dr) dr dz hdr.ne' hdz _ n m (centre_lattice rmin dr)
    (fun i hi => centre_ne_zero rmin dr h0 hdr i hi)
  · rw [centre_inner_face]
    rcases hin with h | ⟨h1, h2⟩
    · exact Or.inl h
    · right
      intro j _ _
      subst h1; subst h2
      have ml : ((⟨[n, m], 0, 0, .lower, false⟩ : Face), dr, Cond.neumann (fun _ => ((0:Nat):K)))
          ∈ radialFaces [n, m] false [dr, dz] [false, pz] (consCond false false) false :=
        (mem_gridFaces ..).mpr ⟨0, by simp, Or.inr rfl⟩
      exact line_neumann0 _ hc a _ _ ml [0, (j:Int)] (by online)
  · intro j _ _
    exact line_neumann0 _ hc a _ _ mu [0, (j:Int)] (by online)
  · intro i _ _
    exact gridFaces_scalar_line [n, m] _ _ _ _ _ hc a 1 (by simp) pz rfl rfl rfl rfl [(i:Int), 0] (by online)

/-! ### the hypotheses are satisfiable: a concrete grid, a concrete non-constant field -/

/-- 3 cells, hole of radius 1, `dr = 1/2`: the lattice hypotheses hold for the centres of the grid -/
example : (∀ i : Int, centre (1:Rat) (1/2) (i + 1) = centre (1:Rat) (1/2) i + 1/2) ∧
    centre (1:Rat) (1/2) 0 + (1/2) / 2 = 1 ∧ (∀ i : Nat, 1 ≤ i → centre (1:Rat) (1/2) (i:Int) ≠ 0) :=
  ⟨centre_lattice 1 (1/2), centre_inner_face 1 (1/2), fun i hi => centre_ne_zero 1 (1/2) (by norm_num) (by norm_num) i hi⟩

/-- the non-constant field `i ↦ i²` on a polar grid with hole: the model's ghost cells, then the model's
weighted sum - evaluated, not only proved -/
example : intPolarLaplace (centre (1:Rat) (1/2)) (1/2)
    (setGhostAll (radialFaces [3] false [(1/2 : Rat)] [false] (consCond false false) false)
      (fun idx => ((idx.getD 0 0 : Int) : Rat) ^ 2)) 3 = 0 := by decide +kernel

/-- without the ghost cells the same field does not integrate to zero (the statement has content) -/
example : intPolarLaplace (centre (1:Rat) (1/2)) (1/2) (fun idx => ((idx.getD 0 0 : Int) : Rat) ^ 2) 3 ≠ 0 := by
  decide +kernel

/-- 2 × 2 cells, periodic in `y`, walls in `x`, non-constant vector field: divergence sums to zero -/
example : intCart2Divergence .central (1/2 : Rat) 2
    (setGhostAll (consFaces [2, 2] true [(1/2 : Rat), 2] [false, true])
      (fun idx => ((idx.getD 0 0 + 3 * idx.getD 1 0 * idx.getD 1 0 - 2 * idx.getD 2 0 : Int) : Rat))) 2 2 = 0 := by
  decide +kernel


end grids

end PdeVerif.Conserve
