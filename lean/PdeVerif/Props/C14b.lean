import PdeVerif.Model.GridCache
import PdeVerif.Props.C14
/-
C14, second file: axes names and the derived / cached attributes of a restored grid INSTANCE.

`Props/C14.lean` proves that every route returns the stored object (bounds, shape, periodicity).  A real
instance carries more: the axes names, the attributes `__init__` derived once (`_axes_coords`,
`_discretization`, `num_axes`) - which pickle hands over AS STORED - and the lazy cache
`_cache_methods` of `cached_property`.  `Model/GridCache.lean` models them (`GridInst`); here:

* the axes names of every class, `len(axes) = num_axes`, grids that compare equal have the same names;
* `Coherent`: the invariant "every stored derived attribute and every cache entry is the value a fresh
  construction computes"; it holds after the constructor and is kept by every property read and by every
  route (`reachable_coherent`);
* every read of a cached property on a coherent instance returns what a fresh instance returns
  (`read_value_fresh`);
* **every route applied to a reachable instance returns exactly the freshly constructed instance**
  (`restore_eq_construct`, `restored_instance_fresh`): same names, same stored derived attributes, empty
  cache, and every later read returns the freshly computed value;
* what the invariant excludes: an instance whose stored `_axes_coords` was overwritten is repaired by
  `copy()` but NOT by pickle (`pickle_keeps_stale_attribute`).
-/
set_option linter.unusedSectionVars false
namespace PdeVerif.Serialize
open PdeVerif PdeVerif.Grids

section
variable {K : Type} [Field K] [LinearOrder K] [IsStrictOrderedRing K]

/-! ### 1. axes names -/

/-- the names of each class (Cartesian grids with up to three axes: a prefix of `x, y, z`) -/
theorem axes_polar (ri ro : K) (n : Nat) :
    (GridObj.polar ri ro n).axes = ["r"] ∧ (GridObj.polar ri ro n).axesSymmetric = ["φ"] := by
  constructor <;> rfl

theorem axes_spherical (ri ro : K) (n : Nat) :
    (GridObj.spherical ri ro n).axes = ["r"] ∧ (GridObj.spherical ri ro n).axesSymmetric = ["θ", "φ"] := by
  constructor <;> rfl

theorem axes_cylindrical (ri ro zl zh : K) (nr nz : Nat) (pz : Bool) :
    (GridObj.cylindrical ri ro zl zh nr nz pz).axes = ["r", "z"] ∧
      (GridObj.cylindrical ri ro zl zh nr nz pz).axesSymmetric = ["φ"] := by
  constructor <;> rfl

theorem describedIdx_cartesian (d : Nat) : describedIdx .cartesian d = List.range d ∧
    describedIdx .unit d = List.range d := by
  simp [describedIdx, symmetricIdx]

theorem pick_range_of_length (names : List String) (d : Nat) (h : names.length = d) :
    pick names (List.range d) = names := by
  subst h
  apply List.ext_getElem
  · simp [pick]
  · intro i h1 h2
    simp only [pick, List.getElem_map, List.getElem_range]
    simp only [pick, List.length_map, List.length_range] at h1
    simp [List.getD_eq_getElem?_getD, h1]

theorem coordAxes_cartesian_length (d : Nat) :
    (coordAxes .cartesian d).length = d ∧ (coordAxes .unit d).length = d := by
  unfold coordAxes
  constructor <;> (split_ifs with h <;> simp; omega)

/-- a Cartesian grid (and a `UnitGrid`) names every coordinate: `x, y, z` up to three axes, `a, b, c,
...` beyond; no symmetric axes -/
theorem axes_cartesian (b : List (K × K)) (s : List Nat) (p : List Bool) :
    (GridObj.cartesian b s p).axes = coordAxes .cartesian s.length ∧
      (GridObj.cartesian b s p).axesSymmetric = [] ∧
      (GridObj.unit s p : GridObj K).axes = coordAxes .cartesian s.length ∧
      (GridObj.unit s p : GridObj K).axesSymmetric = [] := by
  refine ⟨?_, rfl, ?_, rfl⟩
  · simp only [GridObj.axes, GridObj.cls, GridObj.dim, GridClass.dim, GridObj.shape,
      (describedIdx_cartesian _).1]
    exact pick_range_of_length _ _ (coordAxes_cartesian_length _).1
  · simp only [GridObj.axes, GridObj.cls, GridObj.dim, GridClass.dim, GridObj.shape,
      (describedIdx_cartesian _).2]
    exact pick_range_of_length _ _ (coordAxes_cartesian_length _).2

/-- `num_axes` as `__init__` counts it (`len(_axes_described)`) is the number of entries of the shape,
and there is one name per axis -/
theorem numAxesInit_eq (g : GridObj K) : g.numAxesInit = g.numAxes ∧ g.axes.length = g.numAxes := by
  cases g <;>
    simp [GridObj.numAxesInit, GridObj.numAxes, GridObj.axes, pick, GridObj.cls, GridObj.dim, GridClass.dim,
      GridObj.shape, describedIdx, symmetricIdx, List.range_succ]

/-- grids that compare equal (also a `UnitGrid` against a `CartesianGrid`) have the same axes names -/
theorem gridEq_axes (a b : GridObj K) (h : gridEq a b = true) :
    a.axes = b.axes ∧ a.axesSymmetric = b.axesSymmetric ∧ a.numAxesInit = b.numAxesInit := by
  obtain ⟨hrel, hs, _, _⟩ := (gridEq_iff a b).mp h
  cases a <;> cases b <;> simp [GridObj.cls, subclassOf] at hrel <;>
    simp only [GridObj.shape] at hs <;>
    first
    | (subst hs; exact ⟨rfl, rfl, rfl⟩)
    | exact ⟨rfl, rfl, rfl⟩

/-! ### 2. coherence of an instance -/

/-- every stored derived attribute and every cache entry is the value a fresh construction computes -/
def GridInst.Coherent (pi : K) (i : GridInst K) : Prop :=
  i.axes = i.obj.axes ∧ i.axesSymmetric = i.obj.axesSymmetric ∧ i.numAxes = i.obj.numAxesInit ∧
    i.axesCoords = i.obj.toGrid.axesCoords ∧ i.discretization = i.obj.toGrid.discretization ∧
    ∀ p v, lookup p.name i.cache = some v → v = i.obj.construct.value pi p

theorem CProp.name_inj (p q : CProp) (h : p.name = q.name) : p = q := by
  cases p <;> cases q <;> first | rfl | (exact absurd h (by decide))

theorem lookup_append_single {α : Type} (k k' : String) (v : α) (c : List (String × α)) :
    lookup k (c ++ [(k', v)]) =
      match lookup k c with
      | some x => some x
      | none => if k' = k then some v else none := by
  induction c with
  | nil => simp [lookup]
  | cons a t ih =>
    obtain ⟨ka, va⟩ := a
    simp only [List.cons_append, lookup]
    by_cases h : ka = k
    · simp [h]
    · simp only [h, if_false]; exact ih

theorem construct_coherent (pi : K) (g : GridObj K) : g.construct.Coherent pi :=
  ⟨rfl, rfl, rfl, rfl, rfl, fun _ _ h => by simp [GridObj.construct, lookup] at h⟩

/-- on a fresh instance a dependency is computed -/
theorem depValue_construct (pi : K) (g : GridObj K) (p : CProp) :
    g.construct.depValue pi p = g.construct.baseValue pi p := by
  simp [GridInst.depValue, GridObj.construct, lookup]

theorem baseValue_coherent (pi : K) (i : GridInst K) (h : i.Coherent pi) (p : CProp) :
    i.baseValue pi p = i.obj.construct.baseValue pi p := by
  obtain ⟨_, _, _, h4, _, _⟩ := h
  cases p <;> simp [GridInst.baseValue, GridObj.construct, h4]

theorem value_base (pi : K) (i : GridInst K) (p : CProp)
    (hp : p = .cellVolumeData ∨ p = .coordinateArrays) : i.value pi p = i.baseValue pi p := by
  rcases hp with rfl | rfl <;> rfl

theorem depValue_coherent (pi : K) (i : GridInst K) (h : i.Coherent pi) (p : CProp)
    (hp : p = .cellVolumeData ∨ p = .coordinateArrays) :
    i.depValue pi p = i.obj.construct.baseValue pi p := by
  unfold GridInst.depValue
  cases hl : lookup p.name i.cache with
  | none => exact baseValue_coherent pi i h p
  | some v =>
    have := h.2.2.2.2.2 p v hl
    rw [this, value_base pi _ p hp]

/-- the body of every property computes on a coherent instance what it computes on a fresh one -/
theorem value_coherent (pi : K) (i : GridInst K) (h : i.Coherent pi) (p : CProp) :
    i.value pi p = i.obj.construct.value pi p := by
  cases p
  · rw [value_base pi _ _ (Or.inl rfl), value_base pi _ _ (Or.inl rfl)]; exact baseValue_coherent pi i h _
  · simp only [GridInst.value, depValue_coherent pi i h _ (Or.inl rfl), depValue_construct]
    rfl
  · rw [value_base pi _ _ (Or.inr rfl), value_base pi _ _ (Or.inr rfl)]; exact baseValue_coherent pi i h _
  · simp only [GridInst.value, depValue_coherent pi i h _ (Or.inr rfl), depValue_construct]
    rfl
  · rfl

theorem store_obj (i : GridInst K) (p : CProp) (v : CVal K) : (i.store p v).obj = i.obj := by
  unfold GridInst.store; split_ifs <;> rfl

theorem store_coherent (pi : K) (i : GridInst K) (h : i.Coherent pi) (p : CProp) (v : CVal K)
    (hv : v = i.obj.construct.value pi p) : (i.store p v).Coherent pi := by
  unfold GridInst.store
  split_ifs with hc
  · obtain ⟨h1, h2, h3, h4, h5, h6⟩ := h
    refine ⟨h1, h2, h3, h4, h5, ?_⟩
    intro q w hq
    simp only [lookup_append_single] at hq
    cases hl : lookup q.name i.cache with
    | some x =>
      rw [hl] at hq
      cases hq
      exact h6 q _ hl
    | none =>
      rw [hl] at hq
      simp only at hq
      split_ifs at hq with hn
      cases hq
      have := CProp.name_inj _ _ hn
      subst this
      exact hv
  · exact h

theorem ensure_obj (pi : K) (i : GridInst K) (p : CProp) : (i.ensure pi p).obj = i.obj := by
  unfold GridInst.ensure; split
  · rfl
  · exact store_obj _ _ _

theorem ensure_coherent (pi : K) (i : GridInst K) (h : i.Coherent pi) (p : CProp)
    (hp : p = .cellVolumeData ∨ p = .coordinateArrays) : (i.ensure pi p).Coherent pi := by
  unfold GridInst.ensure; split
  · exact h
  · apply store_coherent pi i h
    rw [value_base pi _ p hp]
    exact baseValue_coherent pi i h p

/-- the dependencies are evaluated first: the instance stays coherent and keeps its object -/
theorem deps_coherent (pi : K) (i : GridInst K) (h : i.Coherent pi) (p : CProp) :
    (p.deps.foldl (fun j d => j.ensure pi d) i).Coherent pi ∧
      (p.deps.foldl (fun j d => j.ensure pi d) i).obj = i.obj := by
  cases p
  · exact ⟨h, rfl⟩
  · exact ⟨ensure_coherent pi i h _ (Or.inl rfl), ensure_obj pi i _⟩
  · exact ⟨h, rfl⟩
  · exact ⟨ensure_coherent pi i h _ (Or.inr rfl), ensure_obj pi i _⟩
  · exact ⟨ensure_coherent pi i h _ (Or.inl rfl), ensure_obj pi i _⟩

theorem read_obj (pi : K) (i : GridInst K) (h : i.Coherent pi) (p : CProp) : (i.read pi p).2.obj = i.obj := by
  unfold GridInst.read; split
  · rfl
  · simp only [store_obj]
    exact (deps_coherent pi i h p).2

/-- **reading a cached property keeps the instance coherent** -/
theorem read_coherent (pi : K) (i : GridInst K) (h : i.Coherent pi) (p : CProp) :
    (i.read pi p).2.Coherent pi := by
  unfold GridInst.read; split
  · exact h
  · obtain ⟨hc, ho⟩ := deps_coherent pi i h p
    apply store_coherent pi _ hc
    rw [value_coherent pi _ hc]

/-- **every read of a cached property on a coherent instance returns what a fresh instance returns** -
whether the value comes from the cache, from a cached dependency or is computed now -/
theorem read_value_fresh (pi : K) (i : GridInst K) (h : i.Coherent pi) (p : CProp) :
    (i.read pi p).1 = (i.obj.construct.read pi p).1 := by
  have hf : (i.obj.construct.read pi p).1 = i.obj.construct.value pi p := by
    obtain ⟨hc, ho⟩ := deps_coherent pi _ (construct_coherent pi i.obj) p
    unfold GridInst.read
    simp only [GridObj.construct, lookup]
    have := value_coherent pi _ hc p
    rw [ho] at this
    exact this
  rw [hf]
  unfold GridInst.read; split
  · next v hl => exact h.2.2.2.2.2 p v hl
  · obtain ⟨hc, ho⟩ := deps_coherent pi i h p
    have := value_coherent pi _ hc p
    rw [ho] at this
    exact this

theorem reads_coherent (pi : K) (ps : List CProp) (i : GridInst K) (h : i.Coherent pi) :
    (i.reads pi ps).Coherent pi ∧ (i.reads pi ps).obj = i.obj := by
  induction ps generalizing i with
  | nil => exact ⟨h, rfl⟩
  | cons p t ih =>
    have := ih (i.read pi p).2 (read_coherent pi i h p)
    exact ⟨this.1, this.2.trans (read_obj pi i h p)⟩

/-! ### 3. every route returns the freshly constructed instance -/

/-- **C14, cached / derived attributes.**  Whatever has been read before: restoring a coherent instance
of a valid grid - `from_state(state)`, `GridBase.from_state(state_serialized)`, `copy()` / `copy.copy` /
`copy.deepcopy`, or pickle - returns EXACTLY the instance a fresh construction of the same grid gives:
the same axes names, `num_axes`, stored coordinates and spacings, and an empty cache. -/
theorem restore_eq_construct (pi : K) (i : GridInst K) (hv : i.obj.Valid) (h : i.Coherent pi) (r : Route) :
    i.restore r = .ok i.obj.construct := by
  cases r
  · simp [GridInst.restore, grid_state_roundtrip i.obj hv, Except.map]
  · simp [GridInst.restore, grid_json_roundtrip i.obj hv, Except.map]
  · simp [GridInst.restore, (grid_copy_eq i.obj hv).1, Except.map]
  · obtain ⟨h1, h2, h3, h4, h5, _⟩ := h
    obtain ⟨o, a, b, c, d, e, f⟩ := i
    simp only at h1 h2 h3 h4 h5
    subst h1 h2 h3 h4 h5
    rfl

/-- the instances that can occur: built by a constructor on arguments it accepts, then any sequence of
property reads and of restoring routes -/
inductive Reachable (pi : K) : GridInst K → Prop
  | unit (s p g) : mkUnit s p = .ok g → Reachable pi g.construct
  | cartesian (b s p g) : mkCartesian b s p = .ok g → Reachable pi g.construct
  | radial (sph r s g) : mkRadial sph r s = .ok g → Reachable pi g.construct
  | cylindrical (r z s p g) : mkCylindrical r z s p = .ok g → Reachable pi g.construct
  | read (i p) : Reachable pi i → Reachable pi (i.read pi p).2
  | restore (i r j) : Reachable pi i → i.restore r = .ok j → Reachable pi j

/-- every reachable instance holds a valid grid and is coherent -/
theorem reachable_coherent (pi : K) (i : GridInst K) (h : Reachable pi i) : i.obj.Valid ∧ i.Coherent pi := by
  induction h with
  | unit s p g h => exact ⟨mkUnit_valid _ _ _ h, construct_coherent pi g⟩
  | cartesian b s p g h => exact ⟨mkCartesian_valid _ _ _ _ h, construct_coherent pi g⟩
  | radial sph r s g h => exact ⟨mkRadial_valid _ _ _ _ h, construct_coherent pi g⟩
  | cylindrical r z s p g h => exact ⟨mkCylindrical_valid _ _ _ _ _ h, construct_coherent pi g⟩
  | read i p _ ih => exact ⟨by rw [read_obj pi i ih.2 p]; exact ih.1, read_coherent pi i ih.2 p⟩
  | restore i r j _ hr ih =>
    rw [restore_eq_construct pi i ih.1 ih.2 r] at hr
    cases hr
    exact ⟨ih.1, construct_coherent pi i.obj⟩

/-- **C14, composition for instances.**  For every instance that can occur (any constructor arguments,
any earlier reads and round trips) and every route: the route succeeds, the restored instance is the
freshly constructed one, and after ANY further reads every cached property of the restored instance has
the value a fresh instance computes. -/
theorem restored_instance_fresh (pi : K) (i : GridInst K) (h : Reachable pi i) (r : Route) :
    i.restore r = .ok i.obj.construct ∧
      ∀ j, i.restore r = .ok j →
        j.axes = i.obj.axes ∧ j.axesSymmetric = i.obj.axesSymmetric ∧ j.numAxes = i.obj.numAxes ∧
        j.axesCoords = i.obj.toGrid.axesCoords ∧ j.discretization = i.obj.toGrid.discretization ∧
        j.cache = [] ∧
        ∀ ps p, ((j.reads pi ps).read pi p).1 = (i.obj.construct.read pi p).1 := by
  obtain ⟨hv, hc⟩ := reachable_coherent pi i h
  have hr := restore_eq_construct pi i hv hc r
  refine ⟨hr, fun j hj => ?_⟩
  rw [hr] at hj
  cases hj
  refine ⟨rfl, rfl, (numAxesInit_eq i.obj).1, rfl, rfl, rfl, fun ps p => ?_⟩
  obtain ⟨h1, h2⟩ := reads_coherent pi ps _ (construct_coherent pi i.obj)
  have := read_value_fresh pi _ h1 p
  rw [h2] at this
  exact this

/-- the original instance itself (with whatever it has cached) answers every read like a fresh one -/
theorem reachable_read_fresh (pi : K) (i : GridInst K) (h : Reachable pi i) (p : CProp) :
    (i.read pi p).1 = (i.obj.construct.read pi p).1 :=
  read_value_fresh pi i (reachable_coherent pi i h).2 p

/-! ### 3b. the cached cell volumes are C12's cell volumes -/

theorem zipWith_enum_n (pi : K) (g : Grid K) (k : Nat) (as : List (Axis K)) :
    (((enumFrom k as).zipWith (fun (p : Nat × Axis K) s => (⟨p.2.n, g.volFactor pi p.1 p.2, s⟩ : AxisVol K))
      (as.map fun _ => true)).map (·.n)) = as.map (·.n) := by
  induction as generalizing k with
  | nil => rfl
  | cons a t ih => simp only [enumFrom, List.map_cons, List.zipWith_cons_cons, ih]

theorem mkAxes_n (b : List (K × K)) (s : List Nat) (p : List Bool) (h1 : s.length = b.length)
    (h2 : p.length = s.length) : (mkAxes b s p).map (·.n) = s := by
  induction b generalizing s p with
  | nil => cases s <;> simp_all [mkAxes]
  | cons x bs ih =>
    cases s with
    | nil => simp at h1
    | cons n ns =>
      cases p with
      | nil => simp at h2
      | cons q ps =>
        simp only [mkAxes, List.map_cons]
        rw [ih ns ps (by simpa using h1) (by simpa using h2)]

/-- one volume factor array per axis, as long as the axis has cells -/
theorem axisVolsAll_shape (pi : K) (g : GridObj K) (hg : g.Valid) :
    (g.toGrid.axisVolsAll pi).map (·.n) = g.shape := by
  unfold Grid.axisVolsAll Grid.axisVols
  rw [zipWith_enum_n]
  cases g with
  | unit s p => exact mkAxes_n _ _ _ (by simp [GridObj.axesBounds, GridObj.shape]) hg.2.2
  | cartesian b s p => exact mkAxes_n _ _ _ hg.2.1 hg.2.2.1
  | polar ri ro n => rfl
  | spherical ri ro n => rfl
  | cylindrical ri ro zl zh nr nz pz => rfl

theorem prodL_volData (avs : List (AxisVol K)) (idx : List Nat)
    (h : List.Forall₂ (fun (av : AxisVol K) i => i < av.n) avs idx) :
    prodL (avs.map fun av => (List.range av.n).map av.vol) idx = prodAt avs idx := by
  induction h with
  | nil => rfl
  | cons hi _ ih =>
    simp only [List.map_cons, prodL, prodAt, List.headD_cons, List.tail_cons, ih]
    congr 1
    simp [List.getD_eq_getElem?_getD, hi]

theorem multiIdx_mem (shape idx : List Nat) (h : idx ∈ multiIdx shape) :
    List.Forall₂ (fun i n => i < n) idx shape := by
  induction shape generalizing idx with
  | nil => simp [multiIdx] at h; subst h; exact .nil
  | cons n ns ih =>
    simp only [multiIdx, List.mem_flatMap, List.mem_range, List.mem_map] at h
    obtain ⟨i, hi, t, ht, rfl⟩ := h
    exact .cons hi (ih t ht)

/-- the freshly computed `cell_volumes` (outer product of `cell_volume_data`) is C12's `cellVolume` at
every multi-index -/
theorem cellVolumes_fresh_eq_C12 (pi : K) (g : GridObj K)
    (hs : (g.toGrid.axisVolsAll pi).map (·.n) = g.shape) :
    (g.construct.read pi .cellVolumes).1 = .arr ((multiIdx g.shape).map fun idx => g.toGrid.cellVolume pi idx) := by
  have : (g.construct.read pi .cellVolumes).1 = .arr (cellVolsOf (g.volData pi) g.shape) := by
    cases g <;> rfl
  rw [this]
  congr 1
  apply List.map_congr_left
  intro idx hidx
  unfold GridObj.volData Grid.cellVolume
  apply prodL_volData
  have h2 := multiIdx_mem _ _ hidx
  rw [← hs] at h2
  rw [List.forall₂_map_right_iff] at h2
  exact h2.flip

/-- **the cached cell volumes of every restored instance are C12's cell volumes**: for every instance that
can occur and every route, `cell_volumes` read on the restored instance (after any other reads) is
`Grid.cellVolume` of `Model/Volume.lean` at every multi-index in C order - the quantity C12's theorems are
about -/
theorem restored_cellVolumes_C12 (pi : K) (i : GridInst K) (h : Reachable pi i) (r : Route) (j : GridInst K)
    (hj : i.restore r = .ok j) (ps : List CProp) :
    ((j.reads pi ps).read pi .cellVolumes).1 =
      .arr ((multiIdx i.obj.shape).map fun idx => i.obj.toGrid.cellVolume pi idx) := by
  rw [((restored_instance_fresh pi i h r).2 j hj).2.2.2.2.2.2 ps .cellVolumes]
  exact cellVolumes_fresh_eq_C12 pi i.obj (axisVolsAll_shape pi i.obj (reachable_coherent pi i h).1)

end

/-! ### 4. concrete instances (exact rationals) -/

section
open GridObj

/-- an annular cylinder with 2 x 3 cells; `pi := 3` keeps the numbers small -/
def cylEx : GridObj Rat := .cylindrical 1 2 0 3 2 3 true

/-- the hypotheses of `restored_instance_fresh` are satisfiable by a non-trivial instance: the annular
periodic cylinder, built by the constructor from a radius pair, after reading `cell_volumes`, a pickle
round trip and reading `cell_coords` -/
example : Reachable (3 : Rat)
    ((((cylEx.construct.read 3 .cellVolumes).2.restore .pickle).toOption.getD default).read 3 .cellCoords).2 := by
  have h0 : Reachable (3 : Rat) cylEx.construct :=
    Reachable.cylindrical (.list [.num 1, .num 2]) (.list [.num 0, .num 3]) (.list [.nat 2, .nat 3]) (.bool true)
      cylEx (by rfl)
  have h1 := Reachable.read _ CProp.cellVolumes h0
  have h2 := restore_eq_construct 3 _ (reachable_coherent 3 _ h1).1 (reachable_coherent 3 _ h1).2 .pickle
  rw [h2]
  exact Reachable.read _ _ (Reachable.restore _ .pickle _ h1 h2)

/-- which entries `_cache_methods` holds: reading `cell_volumes` of a cylinder caches
`cell_volume_data` too; of a Cartesian grid it does not (plain property there); every route empties it -/
example : (cylEx.construct.read 3 .cellVolumes).2.cacheKeys = ["cell_volume_data", "cell_volumes"] ∧
    ((GridObj.cartesian [(0, 1)] [2] [false] : GridObj Rat).construct.read 3 .cellVolumes).2.cacheKeys
      = ["cell_volumes"] ∧
    (((cylEx.construct.read 3 .cellVolumes).2.restore .pickle).toOption.map GridInst.cacheKeys) = some [] ∧
    (((cylEx.construct.read 3 .cellVolumes).2.restore .copy).toOption.map GridInst.cacheKeys) = some [] := by
  decide +kernel

/-- the cell volumes of the cylinder with `pi := 3`: `2 pi dr r dz` -/
example : (cylEx.construct.read 3 .cellVolumes).1.toArr = [15/4, 15/4, 15/4, 21/4, 21/4, 21/4] := by
  decide +kernel

/-- `gridEq_axes` on a non-trivial pair: `UnitGrid([2, 3])` equals `CartesianGrid([(0, 2), (0, 3)], [2, 3])`, both
name their axes `x, y` -/
example : gridEq (GridObj.unit [2, 3] [false, true] : GridObj ℚ) (.cartesian [(0, 2), (0, 3)] [2, 3] [false, true]) = true ∧
    (GridObj.unit [2, 3] [false, true] : GridObj ℚ).axes = ["x", "y"] ∧
    (GridObj.cartesian [((0 : ℚ), 2), (0, 3)] [2, 3] [false, true]).axes = ["x", "y"] := by
  refine ⟨?_, by decide +kernel, by decide +kernel⟩
  simp [gridEq, subclassOf, GridObj.cls, GridObj.shape, GridObj.axesBounds, GridObj.periodic, eqPairs]

/-- the hypotheses of `prodL_volData` / `multiIdx_mem` on the cylinder: every multi-index of the shape `[2, 3]` is
in range, and the shape hypothesis of `cellVolumes_fresh_eq_C12` holds -/
example : (multiIdx [2, 3]).length = 6 ∧ [1, 2] ∈ multiIdx [2, 3] ∧
    ((cylEx.toGrid.axisVolsAll 3).map (·.n)) = cylEx.shape := by decide +kernel

/-- a Cartesian grid with five axes is named `a, b, c, d, e` -/
example : (GridObj.unit [1, 1, 1, 1, 1] [false, false, false, false, false] : GridObj ℚ).axes
    = ["a", "b", "c", "d", "e"] := by decide +kernel
/-- what `Coherent` excludes: an instance whose stored `_axes_coords` was overwritten is NOT coherent;
`copy()` (a new construction) repairs it, pickle hands the overwritten attribute over -/
theorem pickle_keeps_stale_attribute :
    let stale : GridInst Rat := { cylEx.construct with axesCoords := [[0, 0], [0, 0, 0]] }
    ¬ stale.Coherent 3 ∧
      (stale.restore .copy).toOption.map (·.axesCoords) = some cylEx.toGrid.axesCoords ∧
      (stale.restore .pickle).toOption.map (·.axesCoords) = some [[0, 0], [0, 0, 0]] := by
  refine ⟨fun h => ?_, by decide +kernel, by decide +kernel⟩
  have := h.2.2.2.1
  revert this
  decide +kernel

end

end PdeVerif.Serialize
