import PdeVerif.Props.C01SmoothB
import Mathlib.Analysis.Calculus.IteratedDeriv.Lemmas
import Mathlib.Analysis.Calculus.MeanValue
/-
C01 (continued) - the clause "for the central variants the quadratic rate holds uniformly over all cells" for ALL
smooth fields that are regular at the axis / origin (even in `r`), not only polynomials: the `1/ρ` of the
`*_smooth` theorems (`Props/C01Smooth.lean`) is removed.  Idea: the third derivative of an even C4 function is odd,
hence bounded by `M4 |y|`; on the stencil interval of a cell with centre `ρ ≥ h/2` this is `≤ 3 M4 ρ`, which cancels
the division by `ρ` of the first-derivative term.

Hand-written.  Statements about the same model definitions and samplings (`sampleAx1`, `sampleAx2`) as the
generated `*_smooth` theorems.
-/
set_option linter.unusedSimpArgs false
set_option linter.unusedVariables false
set_option linter.unusedSectionVars false
namespace PdeVerif.Stencil
open PdeVerif

/-- central first derivative with a LOCAL bound on the third derivative (only the stencil interval enters) -/
theorem d1_central_fun_taylor_local (f : ℝ → ℝ) (hf : ContDiff ℝ 3 f) (M : ℝ) (x h : ℝ) (hh : h ≠ 0)
    (hM : ∀ y, |y - x| ≤ |h| → |iteratedDeriv 3 f y| ≤ M) :
    |(f (x + h) - f (x - h)) / (2 * h) - iteratedDeriv 1 f x| ≤ M * h^2 / 6 := by
  obtain ⟨ξ1, m1, e1⟩ := taylor2 f hf x h hh
  obtain ⟨ξ2, m2, e2⟩ := taylor2 f hf x (-h) (neg_ne_zero.mpr hh)
  have loc : ∀ t ξ : ℝ, |t| = |h| → ξ ∈ Set.uIoo x (x + t) → |ξ - x| ≤ |h| := by
    intro t ξ ht hξ
    rw [← ht]
    rcases le_total 0 t with h0 | h0
    · rw [Set.uIoo_of_le (by linarith)] at hξ
      rw [abs_of_nonneg h0, abs_of_nonneg (by linarith [hξ.1])]; linarith [hξ.2]
    · rw [Set.uIoo_of_ge (by linarith)] at hξ
      rw [abs_of_nonpos h0, abs_of_nonpos (by linarith [hξ.2])]; linarith [hξ.1]
  have e2' : f (x - h) = f x - iteratedDeriv 1 f x * h + iteratedDeriv 2 f x * h^2 / 2
      - iteratedDeriv 3 f ξ2 * h^3 / 6 := by
    have : x + -h = x - h := by ring
    rw [this] at e2; rw [e2]; ring
  have key : (f (x + h) - f (x - h)) / (2 * h) - iteratedDeriv 1 f x
      = (iteratedDeriv 3 f ξ1 + iteratedDeriv 3 f ξ2) * h^2 / 12 := by
    rw [e1, e2']; field_simp; ring
  rw [key]
  have h1 := hM ξ1 (loc h ξ1 rfl m1)
  have h2 := hM ξ2 (loc (-h) ξ2 (abs_neg h) m2)
  have hsum : |iteratedDeriv 3 f ξ1 + iteratedDeriv 3 f ξ2| ≤ 2 * M := by
    calc _ ≤ |iteratedDeriv 3 f ξ1| + |iteratedDeriv 3 f ξ2| := abs_add_le _ _
      _ ≤ 2 * M := by linarith
  have hh2 : 0 ≤ h^2 := sq_nonneg h
  rw [abs_div, abs_mul, abs_of_nonneg hh2, abs_of_pos (by norm_num : (0:ℝ) < 12)]
  calc |iteratedDeriv 3 f ξ1 + iteratedDeriv 3 f ξ2| * h^2 / 12 ≤ 2 * M * h^2 / 12 := by
        apply div_le_div_of_nonneg_right _ (by norm_num)
        exact mul_le_mul_of_nonneg_right hsum hh2
    _ = M * h^2 / 6 := by ring

/-- the third derivative of an even C4 function vanishes at 0 and grows at most like `M4 |y|` -/
theorem even_iteratedDeriv3_bound (f : ℝ → ℝ) (hf : ContDiff ℝ 4 f) (heven : ∀ x, f (-x) = f x) (M4 : ℝ)
    (hM4 : ∀ y, |iteratedDeriv 4 f y| ≤ M4) (y : ℝ) : |iteratedDeriv 3 f y| ≤ M4 * |y| := by
  have h0 : iteratedDeriv 3 f 0 = 0 := by
    have hfe : (fun x => f (-x)) = f := funext heven
    have := iteratedDeriv_comp_neg 3 f (0:ℝ)
    rw [hfe] at this
    simp at this
    linarith
  have hd : Differentiable ℝ (iteratedDeriv 3 f) :=
    hf.differentiable_iteratedDeriv 3 (by norm_num)
  have hderiv : ∀ z, deriv (iteratedDeriv 3 f) z = iteratedDeriv 4 f z := by
    intro z; exact (congrFun (iteratedDeriv_succ (n := 3) (f := f)) z).symm
  have := Convex.norm_image_sub_le_of_norm_deriv_le (f := iteratedDeriv 3 f) (s := Set.univ) (C := M4)
    (fun z _ => hd z) (fun z _ => by rw [hderiv, Real.norm_eq_abs]; exact hM4 z) convex_univ (Set.mem_univ 0) (Set.mem_univ y)
  simpa [h0, Real.norm_eq_abs] using this

theorem hasDerivAt_iteratedDeriv (f : ℝ → ℝ) (n m : ℕ) (hf : ContDiff ℝ m f) (hn : n < m) (y : ℝ) :
    HasDerivAt (iteratedDeriv n f) (iteratedDeriv (n + 1) f y) y := by
  have hd : Differentiable ℝ (iteratedDeriv n f) := hf.differentiable_iteratedDeriv n (by exact_mod_cast hn)
  have := (hd y).hasDerivAt
  rwa [← congrFun (iteratedDeriv_succ (n := n) (f := f)) y] at this

/-- if the `(n+1)`-th derivative of a function with `f^{(n)}(0) = 0` is bounded by `M`, then `|f^{(n)}(y)| ≤ M |y|` -/
theorem iteratedDeriv_bound_of_zero (f : ℝ → ℝ) (n m : ℕ) (hf : ContDiff ℝ m f) (hn : n < m)
    (h0 : iteratedDeriv n f 0 = 0) (M : ℝ) (hM : ∀ y, |iteratedDeriv (n + 1) f y| ≤ M) (y : ℝ) :
    |iteratedDeriv n f y| ≤ M * |y| := by
  have := Convex.norm_image_sub_le_of_norm_hasDerivWithin_le (f := iteratedDeriv n f) (f' := iteratedDeriv (n + 1) f)
    (s := Set.univ) (C := M)
    (fun z _ => (hasDerivAt_iteratedDeriv f n m hf hn z).hasDerivWithinAt)
    (fun z _ => by rw [Real.norm_eq_abs]; exact hM z) convex_univ (Set.mem_univ 0) (Set.mem_univ y)
  simpa [h0, Real.norm_eq_abs] using this

/-- parity of the derivatives at the origin: even functions have vanishing odd derivatives -/
theorem even_iteratedDeriv_odd_zero (f : ℝ → ℝ) (heven : ∀ x, f (-x) = f x) (n : ℕ) (hn : Odd n) :
    iteratedDeriv n f 0 = 0 := by
  have hfe : (fun x => f (-x)) = f := funext heven
  have := iteratedDeriv_comp_neg n f (0:ℝ)
  rw [hfe, hn.neg_one_pow] at this
  simp at this
  linarith

/-- odd functions have vanishing even derivatives at the origin -/
theorem odd_iteratedDeriv_even_zero (f : ℝ → ℝ) (hodd : ∀ x, f (-x) = -f x) (n : ℕ) (hn : Even n) :
    iteratedDeriv n f 0 = 0 := by
  have hfe : (fun x => f (-x)) = -f := funext hodd
  have := iteratedDeriv_comp_neg n f (0:ℝ)
  rw [hfe, hn.neg_one_pow, iteratedDeriv_neg] at this
  simp at this
  linarith

/-- for an even C4 function `|f''(ρ) - f'(ρ)/ρ| ≤ M4 ρ²` (`ρ > 0`): the combination that the conservative spherical
Laplacian leaves undivided -/
theorem even_d2_sub_d1_div_bound (f : ℝ → ℝ) (hf : ContDiff ℝ 4 f) (heven : ∀ x, f (-x) = f x) (M4 : ℝ)
    (hM4 : ∀ y, |iteratedDeriv 4 f y| ≤ M4) (ρ : ℝ) (hρ : 0 < ρ) :
    |iteratedDeriv 2 f ρ - iteratedDeriv 1 f ρ / ρ| ≤ M4 * ρ^2 := by
  have hM0 : 0 ≤ M4 := le_trans (abs_nonneg _) (hM4 0)
  have h3 : ∀ y, |iteratedDeriv 3 f y| ≤ M4 * |y| :=
    iteratedDeriv_bound_of_zero f 3 4 hf (by norm_num) (even_iteratedDeriv_odd_zero f heven 3 (by decide)) M4 hM4
  have h10 : iteratedDeriv 1 f 0 = 0 := even_iteratedDeriv_odd_zero f heven 1 (by decide)
  let g : ℝ → ℝ := fun y => y * iteratedDeriv 2 f y - iteratedDeriv 1 f y
  have hg : ∀ y, HasDerivAt g (y * iteratedDeriv 3 f y) y := by
    intro y
    have h2' : HasDerivAt (iteratedDeriv 2 f) (iteratedDeriv 3 f y) y := hasDerivAt_iteratedDeriv f 2 4 hf (by norm_num) y
    have h1' : HasDerivAt (iteratedDeriv 1 f) (iteratedDeriv 2 f y) y := hasDerivAt_iteratedDeriv f 1 4 hf (by norm_num) y
    have h12 : HasDerivAt g (1 * iteratedDeriv 2 f y + y * iteratedDeriv 3 f y - iteratedDeriv 2 f y) y :=
      ((hasDerivAt_id y).mul h2').sub h1'
    exact h12.congr_deriv (by ring)
  have := Convex.norm_image_sub_le_of_norm_hasDerivWithin_le (f := g) (f' := fun y => y * iteratedDeriv 3 f y)
    (s := Set.Icc 0 ρ) (C := M4 * ρ^2)
    (fun z _ => (hg z).hasDerivWithinAt)
    (fun z hz => by
      rw [Real.norm_eq_abs, abs_mul]
      have hz0 : |z| = z := abs_of_nonneg hz.1
      have := h3 z
      rw [hz0] at this ⊢
      calc z * |iteratedDeriv 3 f z| ≤ z * (M4 * z) := mul_le_mul_of_nonneg_left this hz.1
        _ = M4 * z^2 := by ring
        _ ≤ M4 * ρ^2 := by
          apply mul_le_mul_of_nonneg_left _ hM0
          exact pow_le_pow_left₀ hz.1 hz.2 2)
    (convex_Icc 0 ρ) (Set.left_mem_Icc.mpr hρ.le) (Set.right_mem_Icc.mpr hρ.le)
  have hg0 : g 0 = 0 := by simp only [g]; rw [h10]; ring
  rw [hg0, sub_zero, Real.norm_eq_abs, Real.norm_eq_abs, sub_zero, abs_of_pos hρ] at this
  have e : iteratedDeriv 2 f ρ - iteratedDeriv 1 f ρ / ρ = g ρ / ρ := by
    simp only [g]; field_simp
  rw [e, abs_div, abs_of_pos hρ, div_le_iff₀ hρ]
  calc |g ρ| ≤ M4 * ρ^2 * ρ := this
    _ = M4 * ρ^2 * ρ := rfl


/-- the first-derivative error of an even C4 function divided by the radius, in every cell with centre `ρ ≥ h/2`:
`|(D₁f(ρ) - f'(ρ))/ρ| ≤ M4/2 · h²` -/
theorem even_d1_error_div_radius (f : ℝ → ℝ) (hf : ContDiff ℝ 4 f) (heven : ∀ x, f (-x) = f x) (M4 : ℝ)
    (hM4 : ∀ y, |iteratedDeriv 4 f y| ≤ M4) (ρ h : ℝ) (hh : 0 < h) (hcell : h / 2 ≤ ρ) :
    |((f (ρ + h) - f (ρ - h)) / (2 * h) - iteratedDeriv 1 f ρ) / ρ| ≤ M4 / 2 * h^2 := by
  have hρpos : 0 < ρ := by linarith
  have hM0 : 0 ≤ M4 := le_trans (abs_nonneg _) (hM4 0)
  have hE1 : |(f (ρ + h) - f (ρ - h)) / (2 * h) - iteratedDeriv 1 f ρ| ≤ (3 * M4 * ρ) * h^2 / 6 :=
    d1_central_fun_taylor_local f (hf.of_le (by norm_num)) (3 * M4 * ρ) ρ h hh.ne' (by
      intro y hy
      rw [abs_of_pos hh] at hy
      have hy' := abs_le.mp hy
      have : |y| ≤ 3 * ρ := by rw [abs_le]; constructor <;> linarith [hy'.1, hy'.2]
      calc |iteratedDeriv 3 f y| ≤ M4 * |y| := even_iteratedDeriv3_bound f hf heven M4 hM4 y
        _ ≤ M4 * (3 * ρ) := mul_le_mul_of_nonneg_left this hM0
        _ = 3 * M4 * ρ := by ring)
  refine (abs_div_le_of_nonneg hE1 hρpos.le).trans (le_of_eq ?_)
  field_simp; ring

/-- **polar Laplacian, ALL smooth fields that are regular at the axis** (C4 and even in `r`), **every cell of a
full disk including the one adjoining the axis**: if `ρ ≥ h/2` (cell centres are `(i - 1/2) h`), the error is at most
`(7/12) M4 h²` with `M4` a bound of the fourth derivative - no `1/ρ`, second order uniformly -/
theorem polarLaplace_even_smooth_uniform (F : List Int → ℝ → ℝ) (hF : ContDiff ℝ 4 (F []))
    (heven : ∀ x, F [] (-x) = F [] x) (M4 : ℝ) (hM4 : ∀ y, |iteratedDeriv 4 (F []) y| ≤ M4) (x0 h : ℝ) (hh : 0 < h)
    (i : Int) (ρ : ℝ) (hρ : ρ = x0 + (i:ℝ) * h) (hcell : h / 2 ≤ ρ) :
    |polarLaplace (fun n => x0 + (n:ℝ) * h) h (sampleAx1 F x0 h) i
        - (iteratedDeriv 2 (F []) ρ + iteratedDeriv 1 (F []) ρ / ρ)| ≤ 7 / 12 * M4 * h^2 := by
  have e0i : x0 + (i:ℝ) * h = ρ := hρ.symm
  have e1i : x0 + ((i:ℝ) + 1) * h = ρ + h := by rw [hρ]; ring
  have e2i : x0 + ((i:ℝ) - 1) * h = ρ - h := by rw [hρ]; ring
  have e3i : x0 + ((i:ℝ) + -1) * h = ρ - h := by rw [hρ]; ring
  have split : polarLaplace (fun n => x0 + (n:ℝ) * h) h (sampleAx1 F x0 h) i
        - (iteratedDeriv 2 (F []) ρ + iteratedDeriv 1 (F []) ρ / ρ)
      = (F [] (ρ + h) - 2 * F [] ρ + F [] (ρ - h)) / (h * h) - iteratedDeriv 2 (F []) ρ + ((F [] (ρ + h) - F [] (ρ - h)) / (2 * h) - iteratedDeriv 1 (F []) ρ) / ρ := by
    stencil_split [polarLaplace, sampleAx1_s, sampleAx1_v, sampleAx1_t] [e0i, e1i, e2i, e3i]
  rw [split]
  exact le_trans (abs_add_le_of (d2_fun_taylor (F []) hF M4 hM4 ρ h hh.ne')
    (even_d1_error_div_radius (F []) hF heven M4 hM4 ρ h hh hcell)) (le_of_eq (by ring))

/-- **plain spherical Laplacian, all C4 fields even in `r`, every cell of a full sphere** (`ρ ≥ h/2`): error at most
`(13/12) M4 h²` -/
theorem sphLaplace_plain_even_smooth_uniform (F : List Int → ℝ → ℝ) (hF : ContDiff ℝ 4 (F []))
    (heven : ∀ x, F [] (-x) = F [] x) (M4 : ℝ) (hM4 : ∀ y, |iteratedDeriv 4 (F []) y| ≤ M4) (x0 h : ℝ) (hh : 0 < h)
    (i : Int) (ρ : ℝ) (hρ : ρ = x0 + (i:ℝ) * h) (hcell : h / 2 ≤ ρ) :
    |sphLaplace false (fun n => x0 + (n:ℝ) * h) h (sampleAx1 F x0 h) i
        - (iteratedDeriv 2 (F []) ρ + 2 * iteratedDeriv 1 (F []) ρ / ρ)| ≤ 13 / 12 * M4 * h^2 := by
  have e0i : x0 + (i:ℝ) * h = ρ := hρ.symm
  have e1i : x0 + ((i:ℝ) + 1) * h = ρ + h := by rw [hρ]; ring
  have e2i : x0 + ((i:ℝ) - 1) * h = ρ - h := by rw [hρ]; ring
  have e3i : x0 + ((i:ℝ) + -1) * h = ρ - h := by rw [hρ]; ring
  have split : sphLaplace false (fun n => x0 + (n:ℝ) * h) h (sampleAx1 F x0 h) i
        - (iteratedDeriv 2 (F []) ρ + 2 * iteratedDeriv 1 (F []) ρ / ρ)
      = (F [] (ρ + h) - 2 * F [] ρ + F [] (ρ - h)) / (h * h) - iteratedDeriv 2 (F []) ρ + 2 * (((F [] (ρ + h) - F [] (ρ - h)) / (2 * h) - iteratedDeriv 1 (F []) ρ) / ρ) := by
    stencil_split [sphLaplace, sampleAx1_s, sampleAx1_v, sampleAx1_t] [e0i, e1i, e2i, e3i]
  rw [split]
  exact le_trans (abs_add_le_of (d2_fun_taylor (F []) hF M4 hM4 ρ h hh.ne')
    (abs_mul_le_of_nonneg (by norm_num : (0:ℝ) ≤ 2) (even_d1_error_div_radius (F []) hF heven M4 hM4 ρ h hh hcell)))
    (le_of_eq (by ring))

/-- **plain spherical tensor double divergence, all smooth tensors regular at the origin** (`T_rr`, `T_φφ` C4 and
even in `r`), every cell of a full sphere (`ρ ≥ h/2`): error at most `(M4rr/12 + 2 M4rr + M4φφ) h²` -/
theorem sphTensorDoubleDivergence_plain_even_smooth_uniform (F : List Int → ℝ → ℝ) (hF_00 : ContDiff ℝ 4 (F [0, 0]))
    (hF_22 : ContDiff ℝ 4 (F [2, 2])) (he00 : ∀ x, F [0, 0] (-x) = F [0, 0] x) (he22 : ∀ x, F [2, 2] (-x) = F [2, 2] x)
    (M4_00 M4_22 : ℝ) (hM4_00 : ∀ y, |iteratedDeriv 4 (F [0, 0]) y| ≤ M4_00)
    (hM4_22 : ∀ y, |iteratedDeriv 4 (F [2, 2]) y| ≤ M4_22) (x0 h : ℝ) (hh : 0 < h) (i : Int) (ρ : ℝ)
    (hρ : ρ = x0 + (i:ℝ) * h) (hcell : h / 2 ≤ ρ) :
    |sphTensorDoubleDivergence false (fun n => x0 + (n:ℝ) * h) h (sampleAx1 F x0 h) i
        - (iteratedDeriv 2 (F [0, 0]) ρ + 4 * iteratedDeriv 1 (F [0, 0]) ρ / ρ + 2 * F [0, 0] ρ / ρ^2 - 2 * iteratedDeriv 1 (F [2, 2]) ρ / ρ - 2 * F [2, 2] ρ / ρ^2)|
      ≤ (M4_00 / 12 + 2 * M4_00 + M4_22) * h^2 := by
  have hr : ρ ≠ 0 := by linarith
  have e0i : x0 + (i:ℝ) * h = ρ := hρ.symm
  have e1i : x0 + ((i:ℝ) + 1) * h = ρ + h := by rw [hρ]; ring
  have e2i : x0 + ((i:ℝ) - 1) * h = ρ - h := by rw [hρ]; ring
  have e3i : x0 + ((i:ℝ) + -1) * h = ρ - h := by rw [hρ]; ring
  have split : sphTensorDoubleDivergence false (fun n => x0 + (n:ℝ) * h) h (sampleAx1 F x0 h) i
        - (iteratedDeriv 2 (F [0, 0]) ρ + 4 * iteratedDeriv 1 (F [0, 0]) ρ / ρ + 2 * F [0, 0] ρ / ρ^2 - 2 * iteratedDeriv 1 (F [2, 2]) ρ / ρ - 2 * F [2, 2] ρ / ρ^2)
      = (F [0, 0] (ρ + h) - 2 * F [0, 0] ρ + F [0, 0] (ρ - h)) / (h * h) - iteratedDeriv 2 (F [0, 0]) ρ + 4 * (((F [0, 0] (ρ + h) - F [0, 0] (ρ - h)) / (2 * h) - iteratedDeriv 1 (F [0, 0]) ρ) / ρ) - 2 * (((F [2, 2] (ρ + h) - F [2, 2] (ρ - h)) / (2 * h) - iteratedDeriv 1 (F [2, 2]) ρ) / ρ) := by
    stencil_split [sphTensorDoubleDivergence, sampleAx1_s, sampleAx1_v, sampleAx1_t] [e0i, e1i, e2i, e3i]
  rw [split]
  exact le_trans (abs_sub_le_of (abs_add_le_of (d2_fun_taylor (F [0, 0]) hF_00 M4_00 hM4_00 ρ h hh.ne')
      (abs_mul_le_of_nonneg (by norm_num : (0:ℝ) ≤ 4) (even_d1_error_div_radius (F [0, 0]) hF_00 he00 M4_00 hM4_00 ρ h hh hcell)))
      (abs_mul_le_of_nonneg (by norm_num : (0:ℝ) ≤ 2) (even_d1_error_div_radius (F [2, 2]) hF_22 he22 M4_22 hM4_22 ρ h hh hcell)))
    (le_of_eq (by ring))

/-- **cylindrical Laplacian, all smooth fields regular at the axis** (C4 along both axes, even in `r` for every `z`),
every cell of a full cylinder (`ρ ≥ h/2`): error at most `(7/12) M4r h² + M4z/12 k²` -/
theorem cylLaplace_even_smooth_uniform (F : List Int → ℝ → ℝ → ℝ) (hFr : ∀ z, ContDiff ℝ 4 (fun s => F [] s z))
    (hFz : ∀ r, ContDiff ℝ 4 (F [] r)) (heven : ∀ r z, F [] (-r) z = F [] r z) (M4r M4z : ℝ)
    (hM4r : ∀ r z, |iteratedDeriv 4 (fun s => F [] s z) r| ≤ M4r)
    (hM4z : ∀ r z, |iteratedDeriv 4 (F [] r) z| ≤ M4z) (x0 h z0 k : ℝ) (hh : 0 < h) (hk : k ≠ 0) (i j : Int)
    (ρ ζ : ℝ) (hρ : ρ = x0 + (i:ℝ) * h) (hζ : ζ = z0 + (j:ℝ) * k) (hcell : h / 2 ≤ ρ) :
    |cylLaplace (fun n => x0 + (n:ℝ) * h) h k (sampleAx2 F x0 h z0 k) i j
        - (iteratedDeriv 2 (fun s => F [] s ζ) ρ + iteratedDeriv 1 (fun s => F [] s ζ) ρ / ρ + iteratedDeriv 2 (F [] ρ) ζ)|
      ≤ 7 / 12 * M4r * h^2 + M4z / 12 * k^2 := by
  have hr : ρ ≠ 0 := by linarith
  have e0i : x0 + (i:ℝ) * h = ρ := hρ.symm
  have e1i : x0 + ((i:ℝ) + 1) * h = ρ + h := by rw [hρ]; ring
  have e2i : x0 + ((i:ℝ) - 1) * h = ρ - h := by rw [hρ]; ring
  have e3i : x0 + ((i:ℝ) + -1) * h = ρ - h := by rw [hρ]; ring
  have e0j : z0 + (j:ℝ) * k = ζ := hζ.symm
  have e1j : z0 + ((j:ℝ) + 1) * k = ζ + k := by rw [hζ]; ring
  have e2j : z0 + ((j:ℝ) - 1) * k = ζ - k := by rw [hζ]; ring
  have e3j : z0 + ((j:ℝ) + -1) * k = ζ - k := by rw [hζ]; ring
  have split : cylLaplace (fun n => x0 + (n:ℝ) * h) h k (sampleAx2 F x0 h z0 k) i j
        - (iteratedDeriv 2 (fun s => F [] s ζ) ρ + iteratedDeriv 1 (fun s => F [] s ζ) ρ / ρ + iteratedDeriv 2 (F [] ρ) ζ)
      = (F [] (ρ + h) ζ - 2 * F [] ρ ζ + F [] (ρ - h) ζ) / (h * h) - iteratedDeriv 2 (fun s => F [] s ζ) ρ + ((F [] (ρ + h) ζ - F [] (ρ - h) ζ) / (2 * h) - iteratedDeriv 1 (fun s => F [] s ζ) ρ) / ρ + ((F [] ρ (ζ + k) - 2 * F [] ρ ζ + F [] ρ (ζ - k)) / (k * k) - iteratedDeriv 2 (F [] ρ) ζ) := by
    stencil_split [cylLaplace, sampleAx2_s, sampleAx2_v, sampleAx2_t] [e0i, e1i, e2i, e3i, e0j, e1j, e2j, e3j]
  rw [split]
  exact le_trans (abs_add_le_of (abs_add_le_of (d2_fun_taylor (fun s => F [] s ζ) (hFr ζ) M4r (fun t => hM4r t ζ) ρ h hh.ne')
      (even_d1_error_div_radius (fun s => F [] s ζ) (hFr ζ) (fun x => heven x ζ) M4r (fun t => hM4r t ζ) ρ h hh hcell))
      (d2_fun_taylor (F [] ρ) (hFz ρ) M4z (hM4z ρ) ζ k hk))
    (le_of_eq (by ring))

/-- non-vacuity: `cos` is C4, even, with fourth derivative bounded by 1; innermost cell of a full disk -/
example (h : ℝ) (hh : 0 < h) :
    |polarLaplace (fun n => -(h/2) + (n:ℝ) * h) h (sampleAx1 (fun _ => Real.cos) (-(h/2)) h) 1
        - (iteratedDeriv 2 Real.cos (h/2) + iteratedDeriv 1 Real.cos (h/2) / (h/2))| ≤ 7 / 12 * 1 * h^2 :=
  polarLaplace_even_smooth_uniform (fun _ => Real.cos) Real.contDiff_cos Real.cos_neg 1
    (fun y => Real.abs_iteratedDeriv_cos_le_one 4 y) (-(h/2)) h hh 1 (h/2) (by push_cast; ring) le_rfl

/-- the first-derivative error of an even C4 function in a cell with centre `ρ ≥ h/2`: `|D₁f(ρ) - f'(ρ)| ≤ M4/2 · ρ h²` -/
theorem even_d1_error_bound (f : ℝ → ℝ) (hf : ContDiff ℝ 4 f) (heven : ∀ x, f (-x) = f x) (M4 : ℝ)
    (hM4 : ∀ y, |iteratedDeriv 4 f y| ≤ M4) (ρ h : ℝ) (hh : 0 < h) (hcell : h / 2 ≤ ρ) :
    |(f (ρ + h) - f (ρ - h)) / (2 * h) - iteratedDeriv 1 f ρ| ≤ M4 / 2 * ρ * h^2 := by
  have hρpos : 0 < ρ := by linarith
  have hM0 : 0 ≤ M4 := le_trans (abs_nonneg _) (hM4 0)
  refine (d1_central_fun_taylor_local f (hf.of_le (by norm_num)) (3 * M4 * ρ) ρ h hh.ne' (by
      intro y hy
      rw [abs_of_pos hh] at hy
      have hy' := abs_le.mp hy
      have : |y| ≤ 3 * ρ := by rw [abs_le]; constructor <;> linarith [hy'.1, hy'.2]
      calc |iteratedDeriv 3 f y| ≤ M4 * |y| := even_iteratedDeriv3_bound f hf heven M4 hM4 y
        _ ≤ M4 * (3 * ρ) := mul_le_mul_of_nonneg_left this hM0
        _ = 3 * M4 * ρ := by ring)).trans (le_of_eq (by ring))

/-- **conservative (flux form, the default) spherical Laplacian, ALL C4 fields even in `r`, every cell of a full
sphere including the innermost** (`ρ ≥ h/2`): error at most `(17/12) M4 h²` - second order uniformly, no `1/ρ` -/
theorem sphLaplace_conservative_even_smooth_uniform (F : List Int → ℝ → ℝ) (hF : ContDiff ℝ 4 (F []))
    (heven : ∀ x, F [] (-x) = F [] x) (M4 : ℝ) (hM4 : ∀ y, |iteratedDeriv 4 (F []) y| ≤ M4) (x0 h : ℝ) (hh : 0 < h)
    (i : Int) (ρ : ℝ) (hρ : ρ = x0 + (i:ℝ) * h) (hcell : h / 2 ≤ ρ) :
    |sphLaplace true (fun n => x0 + (n:ℝ) * h) h (sampleAx1 F x0 h) i
        - (iteratedDeriv 2 (F []) ρ + 2 * iteratedDeriv 1 (F []) ρ / ρ)| ≤ 17 / 12 * M4 * h^2 := by
  have hρpos : 0 < ρ := by linarith
  have hr : ρ ≠ 0 := hρpos.ne'
  have hh' : h ≠ 0 := hh.ne'
  have hM0 : 0 ≤ M4 := le_trans (abs_nonneg _) (hM4 0)
  have e0i : x0 + (i:ℝ) * h = ρ := hρ.symm
  have e1i : x0 + ((i:ℝ) + 1) * h = ρ + h := by rw [hρ]; ring
  have e2i : x0 + ((i:ℝ) - 1) * h = ρ - h := by rw [hρ]; ring
  have e3i : x0 + ((i:ℝ) + -1) * h = ρ - h := by rw [hρ]; ring
  have eV : ((ρ + h / 2) * (ρ + h / 2) * (ρ + h / 2) - (ρ - h / 2) * (ρ - h / 2) * (ρ - h / 2)) / 3
      = h * (h^2 + 12 * ρ^2) / 12 := by ring
  have hQ : h^2 + ρ^2 * 12 ≠ 0 := by positivity
  have hQ' : h^2 + 12 * ρ^2 ≠ 0 := by positivity
  have hQpos : 0 < h^2 + 12 * ρ^2 := by positivity
  have split : sphLaplace true (fun n => x0 + (n:ℝ) * h) h (sampleAx1 F x0 h) i
        - (iteratedDeriv 2 (F []) ρ + 2 * iteratedDeriv 1 (F []) ρ / ρ)
      = ((12 * ρ^2 + 3 * h^2) * ((F [] (ρ + h) - 2 * F [] ρ + F [] (ρ - h)) / (h * h) - iteratedDeriv 2 (F []) ρ) + 24 * (ρ * ((F [] (ρ + h) - F [] (ρ - h)) / (2 * h) - iteratedDeriv 1 (F []) ρ)) + 2 * (h^2 * (iteratedDeriv 2 (F []) ρ - iteratedDeriv 1 (F []) ρ / ρ))) / (h^2 + 12 * ρ^2) := by
    stencil_split [sphLaplace, sampleAx1_s, sampleAx1_v, sampleAx1_t] [e0i, e1i, e2i, e3i, eV]
  rw [split, abs_div, abs_of_pos hQpos, div_le_iff₀ hQpos]
  have hA := abs_mul_le_of_nonneg (by positivity : (0:ℝ) ≤ 12 * ρ^2 + 3 * h^2) (d2_fun_taylor (F []) hF M4 hM4 ρ h hh')
  have hB := abs_mul_le_of_nonneg (by norm_num : (0:ℝ) ≤ 24)
    (abs_mul_le_of_nonneg hρpos.le (even_d1_error_bound (F []) hF heven M4 hM4 ρ h hh hcell))
  have hC := abs_mul_le_of_nonneg (by norm_num : (0:ℝ) ≤ 2)
    (abs_mul_le_of_nonneg (by positivity : (0:ℝ) ≤ h^2) (even_d2_sub_d1_div_bound (F []) hF heven M4 hM4 ρ hρpos))
  refine (abs_add_le_of (abs_add_le_of hA hB) hC).trans ?_
  have p1 : 0 ≤ M4 * h^4 := mul_nonneg hM0 (by positivity)
  have p2 : 0 ≤ M4 * (h^2 * ρ^2) := mul_nonneg hM0 (by positivity)
  have e : 17 / 12 * M4 * h^2 * (h^2 + 12 * ρ^2)
      - ((12 * ρ^2 + 3 * h^2) * (M4 * h^2 / 12) + 24 * (ρ * (M4 / 2 * ρ * h^2)) + 2 * (h^2 * (M4 * ρ^2)))
      = 7 / 6 * (M4 * h^4) + 2 * (M4 * (h^2 * ρ^2)) := by ring
  linarith

/-- non-vacuity: `cos` in the innermost cell of a full sphere, every `h > 0` -/
example (h : ℝ) (hh : 0 < h) :
    |sphLaplace true (fun n => -(h/2) + (n:ℝ) * h) h (sampleAx1 (fun _ => Real.cos) (-(h/2)) h) 1
        - (iteratedDeriv 2 Real.cos (h/2) + 2 * iteratedDeriv 1 Real.cos (h/2) / (h/2))| ≤ 17 / 12 * 1 * h^2 :=
  sphLaplace_conservative_even_smooth_uniform (fun _ => Real.cos) Real.contDiff_cos Real.cos_neg 1
    (fun y => Real.abs_iteratedDeriv_cos_le_one 4 y) (-(h/2)) h hh 1 (h/2) (by push_cast; ring) le_rfl

/-- a point of the open interval between `x` and `x + t` is within `|t|` of `x` -/
theorem abs_sub_le_of_mem_uIoo (x t ξ : ℝ) (hξ : ξ ∈ Set.uIoo x (x + t)) : |ξ - x| ≤ |t| := by
  rcases le_total 0 t with h0 | h0
  · rw [Set.uIoo_of_le (by linarith)] at hξ
    rw [abs_of_nonneg h0, abs_of_nonneg (by linarith [hξ.1])]; linarith [hξ.2]
  · rw [Set.uIoo_of_ge (by linarith)] at hξ
    rw [abs_of_nonpos h0, abs_of_nonpos (by linarith [hξ.2])]; linarith [hξ.1]

/-- the second difference quotient is bounded by the LOCAL supremum of the second derivative -/
theorem d2_fun_bounded_local (f : ℝ → ℝ) (hf : ContDiff ℝ 2 f) (M : ℝ) (x h : ℝ) (hh : h ≠ 0)
    (hM : ∀ y, |y - x| ≤ |h| → |iteratedDeriv 2 f y| ≤ M) :
    |(f (x + h) - 2 * f x + f (x - h)) / (h * h)| ≤ M := by
  obtain ⟨ξ1, m1, e1⟩ := taylor1 f hf x h hh
  obtain ⟨ξ2, m2, e2⟩ := taylor1 f hf x (-h) (neg_ne_zero.mpr hh)
  have e2' : f (x - h) = f x - iteratedDeriv 1 f x * h + iteratedDeriv 2 f ξ2 * h^2 / 2 := by
    have : x + -h = x - h := by ring
    rw [this] at e2; rw [e2]; ring
  have key : (f (x + h) - 2 * f x + f (x - h)) / (h * h)
      = (iteratedDeriv 2 f ξ1 + iteratedDeriv 2 f ξ2) / 2 := by
    rw [e1, e2']; field_simp; ring
  rw [key, abs_div, abs_of_pos (by norm_num : (0:ℝ) < 2)]
  have := abs_add_le_of (hM ξ1 (abs_sub_le_of_mem_uIoo x h ξ1 m1))
    (hM ξ2 (by have := abs_sub_le_of_mem_uIoo x (-h) ξ2 m2; rwa [abs_neg] at this))
  rw [div_le_iff₀ (by norm_num)]; linarith

/-- for an odd C3 function `|v'(ρ) - v(ρ)/ρ| ≤ M3 ρ²` (`ρ > 0`) -/
theorem odd_d1_sub_div_bound (v : ℝ → ℝ) (hv : ContDiff ℝ 3 v) (hodd : ∀ x, v (-x) = -v x) (M3 : ℝ)
    (hM3 : ∀ y, |iteratedDeriv 3 v y| ≤ M3) (ρ : ℝ) (hρ : 0 < ρ) :
    |iteratedDeriv 1 v ρ - v ρ / ρ| ≤ M3 * ρ^2 := by
  have hM0 : 0 ≤ M3 := le_trans (abs_nonneg _) (hM3 0)
  have h2 : ∀ y, |iteratedDeriv 2 v y| ≤ M3 * |y| :=
    iteratedDeriv_bound_of_zero v 2 3 hv (by norm_num) (odd_iteratedDeriv_even_zero v hodd 2 (by decide)) M3 hM3
  have h00 : v 0 = 0 := by have := hodd 0; simp at this; linarith
  let g : ℝ → ℝ := fun y => y * iteratedDeriv 1 v y - v y
  have hg : ∀ y, HasDerivAt g (y * iteratedDeriv 2 v y) y := by
    intro y
    have h2' : HasDerivAt (iteratedDeriv 1 v) (iteratedDeriv 2 v y) y := hasDerivAt_iteratedDeriv v 1 3 hv (by norm_num) y
    have h1' : HasDerivAt v (iteratedDeriv 1 v y) y := by
      have := hasDerivAt_iteratedDeriv v 0 3 hv (by norm_num) y
      simpa [iteratedDeriv_zero] using this
    have h12 : HasDerivAt g (1 * iteratedDeriv 1 v y + y * iteratedDeriv 2 v y - iteratedDeriv 1 v y) y :=
      ((hasDerivAt_id y).mul h2').sub h1'
    exact h12.congr_deriv (by ring)
  have := Convex.norm_image_sub_le_of_norm_hasDerivWithin_le (f := g) (f' := fun y => y * iteratedDeriv 2 v y)
    (s := Set.Icc 0 ρ) (C := M3 * ρ^2)
    (fun z _ => (hg z).hasDerivWithinAt)
    (fun z hz => by
      rw [Real.norm_eq_abs, abs_mul]
      have hz0 : |z| = z := abs_of_nonneg hz.1
      have := h2 z
      rw [hz0] at this ⊢
      calc z * |iteratedDeriv 2 v z| ≤ z * (M3 * z) := mul_le_mul_of_nonneg_left this hz.1
        _ = M3 * z^2 := by ring
        _ ≤ M3 * ρ^2 := by
          apply mul_le_mul_of_nonneg_left _ hM0
          exact pow_le_pow_left₀ hz.1 hz.2 2)
    (convex_Icc 0 ρ) (Set.left_mem_Icc.mpr hρ.le) (Set.right_mem_Icc.mpr hρ.le)
  have hg0 : g 0 = 0 := by simp only [g]; rw [h00]; ring
  rw [hg0, sub_zero, Real.norm_eq_abs, Real.norm_eq_abs, sub_zero, abs_of_pos hρ] at this
  have e : iteratedDeriv 1 v ρ - v ρ / ρ = g ρ / ρ := by
    simp only [g]; field_simp
  rw [e, abs_div, abs_of_pos hρ, div_le_iff₀ hρ]
  exact this

/-- **conservative (the default) spherical divergence, ALL C3 radial components odd in `r`** (vector fields regular at
the origin), **every cell of a full sphere including the innermost** (`ρ ≥ h/2`): error at most `(11/6) M3 h²` -/
theorem sphDivergence_conservative_odd_smooth_uniform (F : List Int → ℝ → ℝ) (hF : ContDiff ℝ 3 (F [0]))
    (hodd : ∀ x, F [0] (-x) = -F [0] x) (M3 : ℝ) (hM3 : ∀ y, |iteratedDeriv 3 (F [0]) y| ≤ M3) (x0 h : ℝ) (hh : 0 < h)
    (i : Int) (ρ : ℝ) (hρ : ρ = x0 + (i:ℝ) * h) (hcell : h / 2 ≤ ρ) :
    |sphDivergence true .central (fun n => x0 + (n:ℝ) * h) h (sampleAx1 F x0 h) i
        - (iteratedDeriv 1 (F [0]) ρ + 2 * F [0] ρ / ρ)| ≤ 11 / 6 * M3 * h^2 := by
  have hρpos : 0 < ρ := by linarith
  have hr : ρ ≠ 0 := hρpos.ne'
  have hh' : h ≠ 0 := hh.ne'
  have hM0 : 0 ≤ M3 := le_trans (abs_nonneg _) (hM3 0)
  have h2 : ∀ y, |iteratedDeriv 2 (F [0]) y| ≤ M3 * |y| :=
    iteratedDeriv_bound_of_zero (F [0]) 2 3 hF (by norm_num) (odd_iteratedDeriv_even_zero (F [0]) hodd 2 (by decide)) M3 hM3
  have e0i : x0 + (i:ℝ) * h = ρ := hρ.symm
  have e1i : x0 + ((i:ℝ) + 1) * h = ρ + h := by rw [hρ]; ring
  have e2i : x0 + ((i:ℝ) - 1) * h = ρ - h := by rw [hρ]; ring
  have e3i : x0 + ((i:ℝ) + -1) * h = ρ - h := by rw [hρ]; ring
  have eV : ((ρ + h / 2) * (ρ + h / 2) * (ρ + h / 2) - (ρ - h / 2) * (ρ - h / 2) * (ρ - h / 2)) / 3
      = h * (h^2 + 12 * ρ^2) / 12 := by ring
  have hQ : h^2 + ρ^2 * 12 ≠ 0 := by positivity
  have hQ' : h^2 + 12 * ρ^2 ≠ 0 := by positivity
  have hQpos : 0 < h^2 + 12 * ρ^2 := by positivity
  have split : sphDivergence true .central (fun n => x0 + (n:ℝ) * h) h (sampleAx1 F x0 h) i
        - (iteratedDeriv 1 (F [0]) ρ + 2 * F [0] ρ / ρ)
      = ((12 * ρ^2 + 3 * h^2) * ((F [0] (ρ + h) - F [0] (ρ - h)) / (2 * h) - iteratedDeriv 1 (F [0]) ρ) + 6 * (ρ * (h^2 * ((F [0] (ρ + h) - 2 * F [0] ρ + F [0] (ρ - h)) / (h * h)))) + 2 * (h^2 * (iteratedDeriv 1 (F [0]) ρ - F [0] ρ / ρ))) / (h^2 + 12 * ρ^2) := by
    stencil_split [sphDivergence, sampleAx1_s, sampleAx1_v, sampleAx1_t] [e0i, e1i, e2i, e3i, eV]
  rw [split, abs_div, abs_of_pos hQpos, div_le_iff₀ hQpos]
  have hD2 : |(F [0] (ρ + h) - 2 * F [0] ρ + F [0] (ρ - h)) / (h * h)| ≤ 3 * M3 * ρ :=
    d2_fun_bounded_local (F [0]) (hF.of_le (by norm_num)) (3 * M3 * ρ) ρ h hh' (by
      intro y hy
      rw [abs_of_pos hh] at hy
      have hy' := abs_le.mp hy
      have : |y| ≤ 3 * ρ := by rw [abs_le]; constructor <;> linarith [hy'.1, hy'.2]
      calc |iteratedDeriv 2 (F [0]) y| ≤ M3 * |y| := h2 y
        _ ≤ M3 * (3 * ρ) := mul_le_mul_of_nonneg_left this hM0
        _ = 3 * M3 * ρ := by ring)
  have hA := abs_mul_le_of_nonneg (by positivity : (0:ℝ) ≤ 12 * ρ^2 + 3 * h^2) (d1_central_fun_taylor (F [0]) hF M3 hM3 ρ h hh')
  have hB := abs_mul_le_of_nonneg (by norm_num : (0:ℝ) ≤ 6)
    (abs_mul_le_of_nonneg hρpos.le (abs_mul_le_of_nonneg (by positivity : (0:ℝ) ≤ h^2) hD2))
  have hC := abs_mul_le_of_nonneg (by norm_num : (0:ℝ) ≤ 2)
    (abs_mul_le_of_nonneg (by positivity : (0:ℝ) ≤ h^2) (odd_d1_sub_div_bound (F [0]) hF hodd M3 hM3 ρ hρpos))
  refine (abs_add_le_of (abs_add_le_of hA hB) hC).trans ?_
  have p1 : 0 ≤ M3 * h^4 := mul_nonneg hM0 (by positivity)
  have e : 11 / 6 * M3 * h^2 * (h^2 + 12 * ρ^2)
      - ((12 * ρ^2 + 3 * h^2) * (M3 * h^2 / 6) + 6 * (ρ * (h^2 * (3 * M3 * ρ))) + 2 * (h^2 * (M3 * ρ^2)))
      = 4 / 3 * (M3 * h^4) := by ring
  linarith

/-- non-vacuity: `v_r = sin r` in the innermost cell of a full sphere, every `h > 0` -/
example (h : ℝ) (hh : 0 < h) :
    |sphDivergence true .central (fun n => -(h/2) + (n:ℝ) * h) h (sampleAx1 (fun _ => Real.sin) (-(h/2)) h) 1
        - (iteratedDeriv 1 Real.sin (h/2) + 2 * Real.sin (h/2) / (h/2))| ≤ 11 / 6 * 1 * h^2 :=
  sphDivergence_conservative_odd_smooth_uniform (fun _ => Real.sin) Real.contDiff_sin Real.sin_neg 1
    (fun y => Real.abs_iteratedDeriv_sin_le_one 3 y) (-(h/2)) h hh 1 (h/2) (by push_cast; ring) le_rfl


/-- **axial component of the cylindrical vector Laplacian, all smooth `v_z` regular at the axis** (C4 along both axes,
even in `r`), every cell of a full cylinder (`ρ ≥ h/2`): error at most `M4z/12 k² + (7/12) M4r h²` - the documented
first-order exception does not concern this component -/
theorem cylVectorLaplace_z_even_smooth_uniform (F : List Int → ℝ → ℝ → ℝ) (hFz : ∀ r, ContDiff ℝ 4 (F [1] r))
    (hFr : ∀ z, ContDiff ℝ 4 (fun s => F [1] s z)) (heven : ∀ r z, F [1] (-r) z = F [1] r z) (M4z M4r : ℝ)
    (hM4z : ∀ r z, |iteratedDeriv 4 (F [1] r) z| ≤ M4z)
    (hM4r : ∀ r z, |iteratedDeriv 4 (fun s => F [1] s z) r| ≤ M4r) (x0 h z0 k : ℝ) (hh : 0 < h)
    (hk : k ≠ 0) (i j : Int) (ρ ζ : ℝ) (hρ : ρ = x0 + (i:ℝ) * h) (hζ : ζ = z0 + (j:ℝ) * k) (hcell : h / 2 ≤ ρ) :
    |cylVectorLaplace (fun n => x0 + (n:ℝ) * h) h k (sampleAx2 F x0 h z0 k) 1 i j
        - (iteratedDeriv 2 (fun s => F [1] s ζ) ρ + iteratedDeriv 1 (fun s => F [1] s ζ) ρ / ρ + iteratedDeriv 2 (F [1] ρ) ζ)|
      ≤ M4z / 12 * k^2 + 7 / 12 * M4r * h^2 := by
  have hr : ρ ≠ 0 := by linarith
  have e0i : x0 + (i:ℝ) * h = ρ := hρ.symm
  have e1i : x0 + ((i:ℝ) + 1) * h = ρ + h := by rw [hρ]; ring
  have e2i : x0 + ((i:ℝ) - 1) * h = ρ - h := by rw [hρ]; ring
  have e3i : x0 + ((i:ℝ) + -1) * h = ρ - h := by rw [hρ]; ring
  have e0j : z0 + (j:ℝ) * k = ζ := hζ.symm
  have e1j : z0 + ((j:ℝ) + 1) * k = ζ + k := by rw [hζ]; ring
  have e2j : z0 + ((j:ℝ) - 1) * k = ζ - k := by rw [hζ]; ring
  have e3j : z0 + ((j:ℝ) + -1) * k = ζ - k := by rw [hζ]; ring
  have split : cylVectorLaplace (fun n => x0 + (n:ℝ) * h) h k (sampleAx2 F x0 h z0 k) 1 i j
        - (iteratedDeriv 2 (fun s => F [1] s ζ) ρ + iteratedDeriv 1 (fun s => F [1] s ζ) ρ / ρ + iteratedDeriv 2 (F [1] ρ) ζ)
      = (F [1] ρ (ζ + k) - 2 * F [1] ρ ζ + F [1] ρ (ζ - k)) / (k * k) - iteratedDeriv 2 (F [1] ρ) ζ + ((F [1] (ρ + h) ζ - F [1] (ρ - h) ζ) / (2 * h) - iteratedDeriv 1 (fun s => F [1] s ζ) ρ) / ρ + ((F [1] (ρ + h) ζ - 2 * F [1] ρ ζ + F [1] (ρ - h) ζ) / (h * h) - iteratedDeriv 2 (fun s => F [1] s ζ) ρ) := by
    stencil_split [cylVectorLaplace, sampleAx2_s, sampleAx2_v, sampleAx2_t] [e0i, e1i, e2i, e3i, e0j, e1j, e2j, e3j]
  rw [split]
  exact le_trans (abs_add_le_of (abs_add_le_of (d2_fun_taylor (F [1] ρ) (hFz ρ) M4z (hM4z ρ) ζ k hk)
      (even_d1_error_div_radius (fun s => F [1] s ζ) (hFr ζ) (fun x => heven x ζ) M4r (fun t => hM4r t ζ) ρ h hh hcell))
      (d2_fun_taylor (fun s => F [1] s ζ) (hFr ζ) M4r (fun t => hM4r t ζ) ρ h hh.ne'))
    (le_of_eq (by ring))

/-! ### in the driver's terms: radius function `centre r_min h`, valid cells `i ≥ 1` -/

section
variable {K : Type} [Field K] [CharZero K]
/-- the radius function of the driver (`Drv/C01.lean`: `centre r_min dr`, cell centres of the padded array) is the
lattice `x0 + n h` of the theorems with `x0 = r_min - dr/2` -/
theorem centre_eq_lattice (rmin dr : K) : centre rmin dr = fun n : Int => (rmin - dr / 2) + (n:K) * dr := by
  funext n
  simp only [centre]
  push_cast
  ring
end

/-- every valid cell (`i ≥ 1`) of a grid with `r_min ≥ 0` has its centre at least half a cell from the axis -/
theorem centre_ge_half (rmin h : ℝ) (hrmin : 0 ≤ rmin) (hh : 0 < h) (i : Int) (hi : 1 ≤ i) :
    h / 2 ≤ centre rmin h i := by
  simp only [centre]
  push_cast
  have : (1:ℝ) ≤ (i:ℝ) := by exact_mod_cast hi
  nlinarith

/-- **the default (conservative) Laplacian of `SphericalSymGrid` in the driver's terms**: radius function
`centre r_min h`, every `r_min ≥ 0` (full sphere or hole), every valid cell `i ≥ 1`, every C4 field even in `r` -/
theorem sphLaplace_conservative_grid_uniform (F : List Int → ℝ → ℝ) (hF : ContDiff ℝ 4 (F []))
    (heven : ∀ x, F [] (-x) = F [] x) (M4 : ℝ) (hM4 : ∀ y, |iteratedDeriv 4 (F []) y| ≤ M4) (rmin h : ℝ)
    (hrmin : 0 ≤ rmin) (hh : 0 < h) (i : Int) (hi : 1 ≤ i) :
    |sphLaplace true (centre rmin h) h (sampleAx1 F (rmin - h / 2) h) i
        - (iteratedDeriv 2 (F []) (centre rmin h i) + 2 * iteratedDeriv 1 (F []) (centre rmin h i) / centre rmin h i)|
      ≤ 17 / 12 * M4 * h^2 := by
  have hc := centre_ge_half rmin h hrmin hh i hi
  rw [centre_eq_lattice] at hc ⊢
  exact sphLaplace_conservative_even_smooth_uniform F hF heven M4 hM4 (rmin - h / 2) h hh i _ rfl hc

/-- the Laplacian of `PolarSymGrid` in the driver's terms, every valid cell, every C4 field even in `r` -/
theorem polarLaplace_grid_uniform (F : List Int → ℝ → ℝ) (hF : ContDiff ℝ 4 (F []))
    (heven : ∀ x, F [] (-x) = F [] x) (M4 : ℝ) (hM4 : ∀ y, |iteratedDeriv 4 (F []) y| ≤ M4) (rmin h : ℝ)
    (hrmin : 0 ≤ rmin) (hh : 0 < h) (i : Int) (hi : 1 ≤ i) :
    |polarLaplace (centre rmin h) h (sampleAx1 F (rmin - h / 2) h) i
        - (iteratedDeriv 2 (F []) (centre rmin h i) + iteratedDeriv 1 (F []) (centre rmin h i) / centre rmin h i)|
      ≤ 7 / 12 * M4 * h^2 := by
  have hc := centre_ge_half rmin h hrmin hh i hi
  rw [centre_eq_lattice] at hc ⊢
  exact polarLaplace_even_smooth_uniform F hF heven M4 hM4 (rmin - h / 2) h hh i _ rfl hc

/-- the default (conservative) divergence of `SphericalSymGrid` in the driver's terms, every valid cell, every C3
radial component odd in `r` -/
theorem sphDivergence_conservative_grid_uniform (F : List Int → ℝ → ℝ) (hF : ContDiff ℝ 3 (F [0]))
    (hodd : ∀ x, F [0] (-x) = -F [0] x) (M3 : ℝ) (hM3 : ∀ y, |iteratedDeriv 3 (F [0]) y| ≤ M3) (rmin h : ℝ)
    (hrmin : 0 ≤ rmin) (hh : 0 < h) (i : Int) (hi : 1 ≤ i) :
    |sphDivergence true .central (centre rmin h) h (sampleAx1 F (rmin - h / 2) h) i
        - (iteratedDeriv 1 (F [0]) (centre rmin h i) + 2 * F [0] (centre rmin h i) / centre rmin h i)|
      ≤ 11 / 6 * M3 * h^2 := by
  have hc := centre_ge_half rmin h hrmin hh i hi
  rw [centre_eq_lattice] at hc ⊢
  exact sphDivergence_conservative_odd_smooth_uniform F hF hodd M3 hM3 (rmin - h / 2) h hh i _ rfl hc


/-! ### non-vacuity of the remaining conditional theorems (hypotheses instantiated) -/

theorem abs_iteratedDeriv_cos_mul_const_le (n : ℕ) (c x : ℝ) (hc : |c| ≤ 1) :
    |iteratedDeriv n (fun s => Real.cos s * c) x| ≤ 1 := by
  rw [iteratedDeriv_mul_const_field, abs_mul]
  exact mul_le_one₀ (Real.abs_iteratedDeriv_cos_le_one n x) (abs_nonneg c) hc

/-- `cos r · cos z` in every cell of a full cylinder (`x0 = -h/2`, `i ≥ 1`), any `h > 0`, `k ≠ 0` -/
example (h z0 k : ℝ) (hh : 0 < h) (hk : k ≠ 0) (i j : Int) (hi : 1 ≤ i) :=
  cylLaplace_even_smooth_uniform (fun _ r z => Real.cos r * Real.cos z)
    (fun z => Real.contDiff_cos.mul contDiff_const) (fun r => contDiff_const.mul Real.contDiff_cos)
    (fun r z => by simp [Real.cos_neg]) 1 1
    (fun r z => abs_iteratedDeriv_cos_mul_const_le 4 _ r (Real.abs_cos_le_one z))
    (fun r z => abs_iteratedDeriv_const_mul_cos_le 4 _ z (Real.abs_cos_le_one r))
    (-(h/2)) h z0 k hh hk i j _ _ rfl rfl
    (by have : (1:ℝ) ≤ (i:ℝ) := by exact_mod_cast hi
        nlinarith)

example (h z0 k : ℝ) (hh : 0 < h) (hk : k ≠ 0) (i j : Int) (hi : 1 ≤ i) :=
  cylVectorLaplace_z_even_smooth_uniform (fun _ r z => Real.cos r * Real.cos z)
    (fun r => contDiff_const.mul Real.contDiff_cos) (fun z => Real.contDiff_cos.mul contDiff_const)
    (fun r z => by simp [Real.cos_neg]) 1 1
    (fun r z => abs_iteratedDeriv_const_mul_cos_le 4 _ z (Real.abs_cos_le_one r))
    (fun r z => abs_iteratedDeriv_cos_mul_const_le 4 _ r (Real.abs_cos_le_one z))
    (-(h/2)) h z0 k hh hk i j _ _ rfl rfl
    (by have : (1:ℝ) ≤ (i:ℝ) := by exact_mod_cast hi
        nlinarith)

example (h : ℝ) (hh : 0 < h) :=
  sphLaplace_plain_even_smooth_uniform (fun _ => Real.cos) Real.contDiff_cos Real.cos_neg 1
    (fun y => Real.abs_iteratedDeriv_cos_le_one 4 y) (-(h/2)) h hh 1 (h/2) (by push_cast; ring) le_rfl

example (h : ℝ) (hh : 0 < h) :=
  sphTensorDoubleDivergence_plain_even_smooth_uniform (fun _ => Real.cos) Real.contDiff_cos Real.contDiff_cos
    Real.cos_neg Real.cos_neg 1 1 (fun y => Real.abs_iteratedDeriv_cos_le_one 4 y)
    (fun y => Real.abs_iteratedDeriv_cos_le_one 4 y) (-(h/2)) h hh 1 (h/2) (by push_cast; ring) le_rfl

end PdeVerif.Stencil
