import PdeVerif.Model.Coords
import PdeVerif.Model.Stencil
import PdeVerif.Lemmas.Basic
import Mathlib.Tactic.Ring
import Mathlib.Tactic.LinearCombination
import Mathlib.Tactic.FieldSimp
import Mathlib.Tactic.NormNum
import Mathlib.Data.List.Basic
import Mathlib.RingTheory.Derivation.Basic
import Mathlib.Algebra.MvPolynomial.PDeriv
import Mathlib.Analysis.SpecialFunctions.Trigonometric.Deriv
import Mathlib.Analysis.SpecialFunctions.Sqrt
import Mathlib.Tactic.Linarith
/-
C19 - vector and tensor components are tied to the right basis vectors.
Property theorems about `PdeVerif.Coords` (model of pde/grids/coordinates/*.py,
`GridBase._vector_to_cartesian`, `get_axis_index`, `VectorField/Tensor2Field.__getitem__`,
`dot`, `outer_product`, `from_expression`).  Angles enter as pairs `(c, s)` with the hypothesis
`c^2 + s^2 = 1` (hyperbolic angles as `(ch, sh)` with `ch^2 - sh^2 = 1`); all statements are
polynomial (rational for the bipolar systems) identities over an arbitrary field.

Result for this tree: the component order used by the conversion to Cartesian coordinates agrees
with the order of the operators and of access by name on polar and spherical (and Cartesian)
grids (`order_consistent`); on cylindrical grids it does not (finding F7, not fixed):
`cyl_axial_unit_field_maps_to_azimuthal`, with `order_consistent_cyl_partial` stating what does
hold and `order_consistent_op` stating that the contraction by axis name would be right.
-/
set_option linter.unusedSectionVars false
set_option linter.unusedSimpArgs false
set_option linter.unusedVariables false
set_option linter.unnecessarySeqFocus false
namespace PdeVerif.Coords
open PdeVerif PdeVerif.Grids

/-- evaluation of the list linear algebra on literal lists -/
local syntax "la_simp" (Lean.Parser.Tactic.location)? : tactic
local macro_rules
  | `(tactic| la_simp $[$loc]?) =>
  `(tactic| simp [zero, one, sumL, dotL, addV, smulV, vecMat, matVec, matMul, consCols, transpose, outer,
      identity, unitVec, scaleRows, metric, det, det2, det3, trace, traceFrom,
      List.range, List.range.loop,
      polarJac, polarScale, polarBasis, cylJac, cylScale, cylBasis, sphJac, sphScale, sphBasis,
      bipolarJac, bipolarScale, bipolarBasis, bisphJac, bisphScale, bisphBasis,
      basis, jacobian, scaleFactors, vectorToCartesian, vectorToCartesianOp, basisOp, tensorToCartesian,
      tensorToCartesianOp, posToCart, polarToCart, cylToCart, sphToCart, vecToCart,
      componentOrder, gridAxes, gridAxesSym, describedIdx, symIdx, csAxes, csIndex, indexOf?,
      dotVV, dotVT, dotTV, dotTT, outerVV] $[$loc]?)

section
variable {K : Type} [Field K]

/-- the trigonometric pairs of a point are genuine `(cos, sin)` pairs -/
structure Angles.WF (a : Angles K) : Prop where
  hθ : a.cθ ^ 2 + a.sθ ^ 2 = 1
  hφ : a.cφ ^ 2 + a.sφ ^ 2 = 1

/-- the grid classes with a curvilinear coordinate system -/
def Curvilinear (cl : GridClass) : Prop := cl = .polar ∨ cl = .spherical ∨ cl = .cylindrical

/-- `grid.dim` -/
def dimOf (cl : GridClass) (n : ℕ) : ℕ := (csAxes cl n).length

/-! ### 1. the local bases are orthonormal -/

/-- **C19** polar basis: `B Bᵀ = 1` -/
theorem polar_basis_orthonormal (c s : K) (h : c ^ 2 + s ^ 2 = 1) :
    matMul (polarBasis c s) (transpose (polarBasis c s)) = identity 2 := by
  la_simp; grind

/-- **C19** cylindrical basis: `B Bᵀ = 1` -/
theorem cyl_basis_orthonormal (c s : K) (h : c ^ 2 + s ^ 2 = 1) :
    matMul (cylBasis c s) (transpose (cylBasis c s)) = identity 3 := by
  la_simp; grind

/-- **C19** spherical basis: `B Bᵀ = 1` -/
theorem sph_basis_orthonormal (ct st cp sp : K) (ht : ct ^ 2 + st ^ 2 = 1) (hp : cp ^ 2 + sp ^ 2 = 1) :
    matMul (sphBasis ct st cp sp) (transpose (sphBasis ct st cp sp)) = identity 3 := by
  la_simp; grind

/-- **C19** bipolar basis (`d = cos σ - cosh τ ≠ 0` away from the foci): `B Bᵀ = 1` -/
theorem bipolar_basis_orthonormal (c s ch sh : K) (h : c ^ 2 + s ^ 2 = 1) (hh : ch ^ 2 - sh ^ 2 = 1)
    (hd : c - ch ≠ 0) :
    matMul (bipolarBasis c s ch sh) (transpose (bipolarBasis c s ch sh)) = identity 2 := by
  have e1 : s ^ 2 = 1 - c ^ 2 := by linear_combination h
  have e2 : sh ^ 2 = ch ^ 2 - 1 := by linear_combination -hh
  la_simp
  refine ⟨⟨?_, ?_⟩, ?_, ?_⟩ <;> field_simp <;> ring_nf <;> simp only [e1, e2] <;> ring

/-- **C19** bispherical basis: `B Bᵀ = 1` -/
theorem bisph_basis_orthonormal (c s ch sh cp sp : K) (h : c ^ 2 + s ^ 2 = 1)
    (hh : ch ^ 2 - sh ^ 2 = 1) (hp : cp ^ 2 + sp ^ 2 = 1) (hd : c - ch ≠ 0) :
    matMul (bisphBasis c s ch sh cp sp) (transpose (bisphBasis c s ch sh cp sp)) = identity 3 := by
  la_simp
  refine ⟨⟨?_, ?_, ?_⟩, ⟨?_, ?_, ?_⟩, ?_, ?_, ?_⟩ <;> field_simp <;> grind

/-- **C19** the local basis of every grid class is orthonormal (Cartesian grids: `np.eye`) -/
theorem basis_orthonormal (cl : GridClass) (n : ℕ) (hn : n ≤ 3) (a : Angles K) (ha : a.WF) :
    matMul (basis cl n a) (transpose (basis cl n a)) = identity (dimOf cl n) := by
  obtain ⟨hθ, hφ⟩ := ha
  cases cl
  case polar => exact polar_basis_orthonormal _ _ hφ
  case spherical => exact sph_basis_orthonormal _ _ _ _ hθ hφ
  case cylindrical => exact cyl_basis_orthonormal _ _ hφ
  all_goals
    have h4 : n = 0 ∨ n = 1 ∨ n = 2 ∨ n = 3 := by omega
    rcases h4 with rfl | rfl | rfl | rfl <;> simp [dimOf, csAxes] <;> la_simp

/-! ### 2. ... right-handed -/

/-- **C19** `det B = 1` (polar) -/
theorem polar_basis_right_handed (c s : K) (h : c ^ 2 + s ^ 2 = 1) : det (polarBasis c s) = 1 := by
  la_simp; grind

/-- **C19** `det B = 1` (cylindrical) -/
theorem cyl_basis_right_handed (c s : K) (h : c ^ 2 + s ^ 2 = 1) : det (cylBasis c s) = 1 := by
  la_simp; grind

/-- **C19** `det B = 1` (spherical) -/
theorem sph_basis_right_handed (ct st cp sp : K) (ht : ct ^ 2 + st ^ 2 = 1) (hp : cp ^ 2 + sp ^ 2 = 1) :
    det (sphBasis ct st cp sp) = 1 := by
  la_simp; grind

/-- **C19** `det B = 1` (bipolar, order `σ, τ`) -/
theorem bipolar_basis_right_handed (c s ch sh : K) (h : c ^ 2 + s ^ 2 = 1) (hh : ch ^ 2 - sh ^ 2 = 1)
    (hd : c - ch ≠ 0) : det (bipolarBasis c s ch sh) = 1 := by
  la_simp; field_simp; grind

/-- **C19** `det B = 1` (bispherical, order `σ, τ, φ`) -/
theorem bisph_basis_right_handed (c s ch sh cp sp : K) (h : c ^ 2 + s ^ 2 = 1)
    (hh : ch ^ 2 - sh ^ 2 = 1) (hp : cp ^ 2 + sp ^ 2 = 1) (hd : c - ch ≠ 0) :
    det (bisphBasis c s ch sh cp sp) = 1 := by
  la_simp; field_simp; grind

/-- **C19** the local basis of every curvilinear grid class is right-handed (in the order of its
coordinate system `c.axes`) -/
theorem basis_right_handed (cl : GridClass) (hc : Curvilinear cl) (n : ℕ) (a : Angles K) (ha : a.WF) :
    det (basis cl n a) = 1 := by
  obtain ⟨hθ, hφ⟩ := ha
  rcases hc with rfl | rfl | rfl
  · exact polar_basis_right_handed _ _ hφ
  · exact sph_basis_right_handed _ _ _ _ hθ hφ
  · exact cyl_basis_right_handed _ _ hφ

/-- right-handedness is a property of the ORDER of the basis vectors: `basis_right_handed` is about the
order of the coordinate systems `c.axes` (what the property states: "the local bases of all coordinate
systems").  Listed in the component order of the grid (`axes ++ axes_symmetric`, the rows `basisOp` looks up
by name) the basis is the same on polar and spherical grids, but on cylindrical grids `(e_r, e_z, e_φ)` is an
odd permutation of `(e_r, e_φ, e_z)` and therefore LEFT-handed: `det = -1` -/
theorem basisOp_handedness (a : Angles K) (ha : a.WF) :
    det (basisOp .polar 1 a) = 1 ∧ det (basisOp .spherical 1 a) = 1 ∧ det (basisOp .cylindrical 2 a) = -1 := by
  obtain ⟨hθ, hφ⟩ := ha
  refine ⟨?_, ?_, ?_⟩ <;> la_simp <;> grind

/-! ### 3. ... and equal to the normalised columns of the mapping Jacobian

`J[i][j] = ∂x_i/∂q_j`, `B[j][i] = (e_j)_i`; "basis = normalised Jacobian columns" is
`Jᵀ = diag(h) B` (valid also where a scale factor vanishes) together with `h_j^2 = |J[:,j]|^2`. -/

theorem polar_basis_is_normalised_jacobian (r c s : K) :
    transpose (polarJac r c s) = scaleRows (polarScale r) (polarBasis c s) := by
  la_simp

theorem cyl_basis_is_normalised_jacobian (r c s : K) :
    transpose (cylJac r c s) = scaleRows (cylScale r) (cylBasis c s) := by
  la_simp

theorem sph_basis_is_normalised_jacobian (r ct st cp sp : K) :
    transpose (sphJac r ct st cp sp) = scaleRows (sphScale r st) (sphBasis ct st cp sp) := by
  la_simp; refine ⟨⟨?_, ?_⟩, ?_, ?_⟩ <;> ring

theorem bipolar_basis_is_normalised_jacobian (a c s ch sh : K) (hd : c - ch ≠ 0) :
    transpose (bipolarJac a c s ch sh) = scaleRows (bipolarScale a c ch) (bipolarBasis c s ch sh) := by
  have hd' : ch - c ≠ 0 := fun h => hd (by linear_combination -h)
  la_simp; refine ⟨⟨?_, ?_⟩, ?_, ?_⟩ <;> field_simp <;> ring

theorem bisph_basis_is_normalised_jacobian (a c s ch sh cp sp : K) (hd : c - ch ≠ 0) :
    transpose (bisphJac a c s ch sh cp sp) =
      scaleRows (bisphScale a c s ch) (bisphBasis c s ch sh cp sp) := by
  have hd' : ch - c ≠ 0 := fun h => hd (by linear_combination -h)
  la_simp; refine ⟨⟨?_, ?_, ?_⟩, ⟨?_, ?_, ?_⟩, ?_, ?_⟩ <;> field_simp <;> ring

/-- **C19** `Jᵀ = diag(scale_factors) · basis_rotation` for every grid class, every point -/
theorem basis_is_normalised_jacobian (cl : GridClass) (n : ℕ) (hn : n ≤ 3) (r : K) (a : Angles K) :
    transpose (jacobian cl n r a) = scaleRows (scaleFactors cl n r a) (basis cl n a) := by
  cases cl
  case polar => exact polar_basis_is_normalised_jacobian _ _ _
  case spherical => exact sph_basis_is_normalised_jacobian _ _ _ _ _
  case cylindrical => exact cyl_basis_is_normalised_jacobian _ _ _
  all_goals
    have h4 : n = 0 ∨ n = 1 ∨ n = 2 ∨ n = 3 := by omega
    rcases h4 with rfl | rfl | rfl | rfl <;> la_simp

/-- the rows of the basis are the Jacobian columns divided by the scale factors wherever these do
not vanish (`r ≠ 0`, off the polar axis) -/
theorem sph_basis_eq_jacobian_columns_div_scale (r ct st cp sp : K) (hr : r ≠ 0) (hs : st ≠ 0) :
    sphBasis ct st cp sp =
      List.zipWith (fun h col => col.map (fun x => x / h)) (sphScale r st)
        (transpose (sphJac r ct st cp sp)) := by
  la_simp; (repeat' constructor) <;> field_simp

theorem polar_basis_eq_jacobian_columns_div_scale (r c s : K) (hr : r ≠ 0) :
    polarBasis c s =
      List.zipWith (fun h col => col.map (fun x => x / h)) (polarScale r) (transpose (polarJac r c s)) := by
  la_simp; (repeat' constructor) <;> field_simp

theorem cyl_basis_eq_jacobian_columns_div_scale (r c s : K) (hr : r ≠ 0) :
    cylBasis c s =
      List.zipWith (fun h col => col.map (fun x => x / h)) (cylScale r) (transpose (cylJac r c s)) := by
  la_simp; (repeat' constructor) <;> field_simp

/-- **C19** the scale factors are the lengths of the Jacobian columns and the columns are
orthogonal: `Jᵀ J = diag(h^2)` = `CoordinatesBase.metric` -/
theorem metric_eq_jacobian_gram (cl : GridClass) (hc : Curvilinear cl) (n : ℕ) (r : K) (a : Angles K)
    (ha : a.WF) :
    matMul (transpose (jacobian cl n r a)) (jacobian cl n r a) = metric (scaleFactors cl n r a) := by
  obtain ⟨hθ, hφ⟩ := ha
  rcases hc with rfl | rfl | rfl <;> la_simp <;> grind

theorem bipolar_metric_eq_jacobian_gram (a c s ch sh : K) (h : c ^ 2 + s ^ 2 = 1)
    (hh : ch ^ 2 - sh ^ 2 = 1) (hd : c - ch ≠ 0) :
    matMul (transpose (bipolarJac a c s ch sh)) (bipolarJac a c s ch sh) = metric (bipolarScale a c ch) := by
  have hd' : ch - c ≠ 0 := fun h => hd (by linear_combination -h)
  la_simp; refine ⟨⟨?_, ?_⟩, ?_, ?_⟩ <;> field_simp <;> grind

theorem bisph_metric_eq_jacobian_gram (a c s ch sh cp sp : K) (h : c ^ 2 + s ^ 2 = 1)
    (hh : ch ^ 2 - sh ^ 2 = 1) (hp : cp ^ 2 + sp ^ 2 = 1) (hd : c - ch ≠ 0) :
    matMul (transpose (bisphJac a c s ch sh cp sp)) (bisphJac a c s ch sh cp sp) =
      metric (bisphScale a c s ch) := by
  have hd' : ch - c ≠ 0 := fun h => hd (by linear_combination -h)
  la_simp; (repeat' constructor) <;> field_simp <;> grind

/-- `det J` = product of the scale factors = `_volume_factor` (`r`, `r^2 sin θ`, `r`) -/
theorem jacobian_det_eq_volume_factor (r : K) (a : Angles K) (ha : a.WF) :
    det (jacobian .polar 2 r a) = r ∧ det (jacobian .cylindrical 2 r a) = r ∧
      det (jacobian .spherical 1 r a) = r ^ 2 * a.sθ := by
  obtain ⟨hθ, hφ⟩ := ha
  refine ⟨?_, ?_, ?_⟩ <;> la_simp <;> grind

/-- the Jacobian is the derivative of `pos_to_cart`: the map is linear in `r` (and `z`), so the
radial column is the exact increment, and a rotation of the angle by `δ` with `(cd, sd) =
(cos δ, sin δ)` moves the point by `sd · J[:,φ]` up to the second-order term `(cd - 1) · (x, y)` -/
theorem polar_jacobian_is_derivative (r c s dr cd sd : K) :
    polarToCart (r + dr) c s = addV (polarToCart r c s) (smulV dr ((transpose (polarJac r c s)).getD 0 [])) ∧
    polarToCart r (c * cd - s * sd) (s * cd + c * sd) =
      addV (polarToCart r c s)
        (addV (smulV sd ((transpose (polarJac r c s)).getD 1 [])) (smulV (cd - 1) (polarToCart r c s))) := by
  constructor <;> la_simp <;> (repeat' constructor) <;> ring

theorem sph_jacobian_is_derivative (r ct st cp sp dr cd sd : K) :
    sphToCart (r + dr) ct st cp sp =
      addV (sphToCart r ct st cp sp) (smulV dr ((transpose (sphJac r ct st cp sp)).getD 0 [])) ∧
    sphToCart r (ct * cd - st * sd) (st * cd + ct * sd) cp sp =
      addV (sphToCart r ct st cp sp)
        (addV (smulV sd ((transpose (sphJac r ct st cp sp)).getD 1 []))
          (smulV (cd - 1) (sphToCart r ct st cp sp))) ∧
    sphToCart r ct st (cp * cd - sp * sd) (sp * cd + cp * sd) =
      addV (sphToCart r ct st cp sp)
        (addV (smulV sd ((transpose (sphJac r ct st cp sp)).getD 2 []))
          (smulV (cd - 1) [r * st * cp, r * st * sp, 0])) := by
  refine ⟨?_, ?_, ?_⟩ <;> la_simp <;> (repeat' constructor) <;> ring

theorem cyl_jacobian_is_derivative (r c s z dr dz cd sd : K) :
    cylToCart (r + dr) c s (z + dz) =
      addV (cylToCart r c s z)
        (addV (smulV dr ((transpose (cylJac r c s)).getD 0 [])) (smulV dz ((transpose (cylJac r c s)).getD 2 []))) ∧
    cylToCart r (c * cd - s * sd) (s * cd + c * sd) z =
      addV (cylToCart r c s z)
        (addV (smulV sd ((transpose (cylJac r c s)).getD 1 [])) (smulV (cd - 1) [r * c, r * s, 0])) := by
  constructor <;> la_simp <;> (repeat' constructor) <;> ring

/-! ### 4. one component order per grid

The operators and access by axis name use `componentOrder = axes ++ axes_symmetric`; the
conversion to Cartesian components pairs component `j` with row `j` of `c.basis_rotation`, i.e.
reads it along `c.axes[j]`. -/

/-- the component orders of the grid classes (`(r, z, φ)` on cylindrical grids) and the orders of
their coordinate systems -/
theorem component_orders :
    componentOrder .polar 1 = [.r, .φ] ∧ csAxes .polar 1 = [.r, .φ] ∧
    componentOrder .spherical 1 = [.r, .θ, .φ] ∧ csAxes .spherical 1 = [.r, .θ, .φ] ∧
    componentOrder .cylindrical 2 = [.r, .z, .φ] ∧ csAxes .cylindrical 2 = [.r, .φ, .z] ∧
    componentOrder .cartesian 3 = [.x, .y, .z] ∧ componentOrder .cartesian 2 = [.x, .y] := by
  decide

/-- the component order does not depend on the number of described axes handed in and always
lists every axis of the coordinate system exactly once (it is a permutation of `c.axes`) -/
theorem componentOrder_perm (cl : GridClass) (n : ℕ) (hn : n ≤ 3) :
    (componentOrder cl n).Perm (csAxes cl n) := by
  have h4 : n = 0 ∨ n = 1 ∨ n = 2 ∨ n = 3 := by omega
  cases cl <;> rcases h4 with rfl | rfl | rfl | rfl <;> decide

/-- `get_axis_index` returns the position in `axes ++ axes_symmetric`; on cylindrical grids `z` is
component 1 and `φ` component 2 -/
theorem getAxisIndex_table :
    getAxisIndex .polar 1 .r = some 0 ∧ getAxisIndex .polar 1 .φ = some 1 ∧
    getAxisIndex .spherical 1 .r = some 0 ∧ getAxisIndex .spherical 1 .θ = some 1 ∧
    getAxisIndex .spherical 1 .φ = some 2 ∧
    getAxisIndex .cylindrical 2 .r = some 0 ∧ getAxisIndex .cylindrical 2 .z = some 1 ∧
    getAxisIndex .cylindrical 2 .φ = some 2 ∧
    getAxisIndex .cylindrical 2 .φ false = none ∧ getAxisIndex .polar 1 .z = none := by
  decide

/-- `field[name]` picks the component at the position of `name` in the component order -/
theorem getitem_spec {α : Type} (cl : GridClass) (n : ℕ) (ax : Ax) (comps : List α) (i : ℕ)
    (hi : indexOf? ax (componentOrder cl n) = some i) :
    getitem cl n ax comps = comps[i]? := by
  simp [getitem, getAxisIndex, hi]

/-- `indexOf?` finds the first position holding the name -/
theorem indexOf?_spec (ax : Ax) (l : List Ax) (i : ℕ) (h : indexOf? ax l = some i) :
    l[i]? = some ax := by
  induction l generalizing i with
  | nil => simp [indexOf?] at h
  | cons b bs ih =>
    unfold indexOf? at h
    split_ifs at h with hb
    · cases h; simp [hb]
    · cases hj : indexOf? ax bs with
      | none => simp [hj] at h
      | some j =>
        simp [hj] at h; subst h
        simpa using ih j hj

/-- `from_expression` stores expression `i` as component `i`, so `field[name]` returns the
expression written at the position of `name` in `axes ++ axes_symmetric` -/
theorem from_expression_getitem {α : Type} (cl : GridClass) (n : ℕ) (ax : Ax) (exprs f : List α) (i : ℕ)
    (hf : fromExpressions cl n exprs = some f) (hi : getAxisIndex cl n ax = some i) :
    getitem cl n ax f = exprs[i]? ∧ (componentOrder cl n)[i]? = some ax := by
  unfold fromExpressions at hf
  split_ifs at hf
  cases hf
  exact ⟨by simp [getitem, hi], indexOf?_spec _ _ _ (by simpa [getAxisIndex] using hi)⟩

open PdeVerif.Stencil in
/-- **the component order is the order of the differential operators** (cylindrical grids, the only class on
which `axes ++ axes_symmetric` differs from `c.axes`), relative to C01's model of the operator kernels
(`Model/Stencil.lean`, tied to `pde/backends/numba/operators/cylindrical_sym.py` by the check of C01): with
`ir, iz, iφ` the indices `get_axis_index` returns for the NAMES `r, z, φ`,
* the divergence takes `1/r + ∂_r` of component `ir` and `∂_z` of component `iz` and ignores `iφ`,
* the gradient of a scalar stores `∂_r` as component `ir`, `∂_z` as component `iz` and `0` as component `iφ`,
* the vector Laplacian applies the curvature term `-f/r²` to the components `ir` and `iφ` but not to `iz`. -/
theorem operators_use_component_order_cyl (r : Int → K) (dr dz : K) (a : Arr K) (i j : Int) :
    ∃ ir iz iφ : ℕ, getAxisIndex .cylindrical 2 .r = some ir ∧ getAxisIndex .cylindrical 2 .z = some iz ∧
      getAxisIndex .cylindrical 2 .φ = some iφ ∧
      cylDivergence r dr dz a i j =
        a [(ir : Int), i, j] / r i + (a [(ir : Int), i+1, j] - a [(ir : Int), i-1, j]) / (((2:Nat):K) * dr)
          + (a [(iz : Int), i, j+1] - a [(iz : Int), i, j-1]) / (((2:Nat):K) * dz) ∧
      cylGradient dr dz a ir i j = (a [i+1, j] - a [i-1, j]) / (((2:Nat):K) * dr) ∧
      cylGradient dr dz a iz i j = (a [i, j+1] - a [i, j-1]) / (((2:Nat):K) * dz) ∧
      cylGradient dr dz a iφ i j = ((0:Nat):K) ∧
      (∀ c : ℕ, c = ir ∨ c = iφ →
        cylVectorLaplace r dr dz a c i j =
          (a [(c : Int), i, j+1] - ((2:Nat):K) * a [(c : Int), i, j] + a [(c : Int), i, j-1]) / (dz * dz)
            - a [(c : Int), i, j] / (r i * r i)
            + (a [(c : Int), i+1, j] - a [(c : Int), i-1, j]) / (((2:Nat):K) * dr) / r i
            + (a [(c : Int), i+1, j] - ((2:Nat):K) * a [(c : Int), i, j] + a [(c : Int), i-1, j]) / (dr * dr)) ∧
      cylVectorLaplace r dr dz a iz i j =
        (a [(iz : Int), i, j+1] - ((2:Nat):K) * a [(iz : Int), i, j] + a [(iz : Int), i, j-1]) / (dz * dz)
          + (a [(iz : Int), i+1, j] - a [(iz : Int), i-1, j]) / (((2:Nat):K) * dr) / r i
          + (a [(iz : Int), i+1, j] - ((2:Nat):K) * a [(iz : Int), i, j] + a [(iz : Int), i-1, j]) / (dr * dr) := by
  refine ⟨0, 1, 2, by decide, by decide, by decide, ?_, rfl, rfl, rfl, ?_, ?_⟩
  · simp [cylDivergence]
  · rintro c (rfl | rfl) <;> simp [cylVectorLaplace]
  · simp [cylVectorLaplace]

/-- the `DimensionError` branch of `_vector_to_cartesian`: the conversion is performed exactly when the point
has `dim` coordinates and there are `dim` components, and then it is `vectorToCartesian` and has `dim`
Cartesian components -/
theorem vectorToCartesianChecked_spec (cl : GridClass) (n : ℕ) (hn : n ≤ 3) (a : Angles K) (nCoords : ℕ)
    (comps : Vec K) :
    (vectorToCartesianChecked cl n a nCoords comps = none ↔
      ¬ (nCoords = dimOf cl n ∧ comps.length = dimOf cl n)) ∧
    (∀ v, vectorToCartesianChecked cl n a nCoords comps = some v →
      v = vectorToCartesian cl n a comps ∧ v.length = dimOf cl n) := by
  unfold vectorToCartesianChecked dimOf
  constructor
  · split_ifs with h <;> simp [h]
  · intro v hv
    split_ifs at hv with h
    cases hv
    refine ⟨rfl, ?_⟩
    obtain ⟨-, hc⟩ := h
    have h4 : n = 0 ∨ n = 1 ∨ n = 2 ∨ n = 3 := by omega
    cases cl
    case polar =>
      match comps, hc with
      | [u, v], _ => la_simp
    case spherical =>
      match comps, hc with
      | [u, v, w], _ => la_simp
    case cylindrical =>
      match comps, hc with
      | [u, v, w], _ => la_simp
    all_goals
      rcases h4 with rfl | rfl | rfl | rfl
      · match comps, hc with
        | [], _ => la_simp
      · match comps, hc with
        | [u], _ => la_simp
      · match comps, hc with
        | [u, v], _ => la_simp
      · match comps, hc with
        | [u, v, w], _ => la_simp

/-- the classes whose conversion is consistent on this tree -/
def OrderConsistentClass (cl : GridClass) : Prop :=
  cl = .polar ∨ cl = .spherical ∨ cl = .unit ∨ cl = .cartesian

/-- **C19** `order_consistent` (polar, spherical and Cartesian grids): the conversion to Cartesian
components reads the components in the same order as the operators and access by name:
(1) the two orders are the same list, (2) the conversion the code performs equals the conversion
that looks the basis vectors up by axis name, for vectors and tensors, (3) the label of
`field[name]` names the axis asked for. -/
theorem order_consistent (cl : GridClass) (hc : OrderConsistentClass cl) (n : ℕ) (hn : n ≤ 3)
    (a : Angles K) :
    componentOrder cl n = csAxes cl n ∧
    (∀ comps : Vec K, vectorToCartesian cl n a comps = vectorToCartesianOp cl n a comps) ∧
    (∀ t : Mat K, tensorToCartesian cl n a t = tensorToCartesianOp cl n a t) ∧
    (∀ ax i, getAxisIndex cl n ax = some i → getitemLabel cl n ax = some ax) := by
  have h4 : n = 0 ∨ n = 1 ∨ n = 2 ∨ n = 3 := by omega
  have hb : basisOp cl n a = basis cl n a := by
    rcases hc with rfl | rfl | rfl | rfl
    · la_simp
    · la_simp
    · rcases h4 with rfl | rfl | rfl | rfl <;> la_simp
    · rcases h4 with rfl | rfl | rfl | rfl <;> la_simp
  have ho : componentOrder cl n = csAxes cl n := by
    rcases hc with rfl | rfl | rfl | rfl
    · rfl
    · rfl
    · rcases h4 with rfl | rfl | rfl | rfl <;> decide
    · rcases h4 with rfl | rfl | rfl | rfl <;> decide
  refine ⟨ho, ?_, ?_, ?_⟩
  · intro comps; simp [vectorToCartesian, vectorToCartesianOp, hb]
  · intro t; simp [tensorToCartesian, tensorToCartesianOp, hb]
  · intro ax i hi
    have h1 := indexOf?_spec ax (componentOrder cl n) i (by simpa [getAxisIndex] using hi)
    simp [getitemLabel, hi, h1]

/-- **C19** the semantic form of `order_consistent`: on polar and spherical grids the unit field
along the axis *named* `ax` (component index from `get_axis_index`) is converted to the unit
vector of that coordinate, i.e. to the normalised Jacobian column `∂x/∂ax / h_ax` -/
theorem unit_field_maps_to_basis_vector (cl : GridClass) (hc : cl = .polar ∨ cl = .spherical) (n : ℕ)
    (r : K) (a : Angles K) (ax : Ax) (i : ℕ) (hi : getAxisIndex cl n ax = some i) :
    ∃ j, csIndex cl n ax = some j ∧
      vectorToCartesian cl n a (unitVec (dimOf cl n) i) = (basis cl n a).getD j [] ∧
      smulV ((scaleFactors cl n r a).getD j 0) (vectorToCartesian cl n a (unitVec (dimOf cl n) i)) =
        (transpose (jacobian cl n r a)).getD j [] := by
  rcases hc with rfl | rfl
  · cases ax <;> simp [getAxisIndex, componentOrder, gridAxes, gridAxesSym, describedIdx, symIdx, csAxes,
      indexOf?, List.range, List.range.loop] at hi <;> subst hi <;>
      simp [csIndex, csAxes, indexOf?, dimOf] <;> la_simp
  · cases ax <;> simp [getAxisIndex, componentOrder, gridAxes, gridAxesSym, describedIdx, symIdx, csAxes,
      indexOf?, List.range, List.range.loop] at hi <;> subst hi <;>
      simp [csIndex, csAxes, indexOf?, dimOf] <;> la_simp <;> (repeat' constructor) <;> ring

/-! ### 5. cylindrical grids: the known clash (finding F7) and what does hold -/

/-- the two orders differ on cylindrical grids -/
theorem order_inconsistent_cyl : componentOrder .cylindrical 2 ≠ csAxes .cylindrical 2 := by decide

/-- **C19, witness of the violation** a uniform axial field, stored by the operators' order
`(r, z, φ)` as `(0, 1, 0)`, is converted to the azimuthal unit vector `(-s, c, 0)` -/
theorem cyl_axial_unit_field_maps_to_azimuthal (a : Angles K) :
    getAxisIndex .cylindrical 2 .z = some 1 ∧
    vectorToCartesian .cylindrical 2 a (unitVec 3 1) = [-a.sφ, a.cφ, 0] := by
  refine ⟨by decide, ?_⟩
  la_simp

/-- ... which is never the unit vector along `z` -/
theorem cyl_axial_unit_field_not_axial (a : Angles K) :
    vectorToCartesian .cylindrical 2 a (unitVec 3 1) ≠ [0, 0, 1] := by
  la_simp

/-- and the azimuthal unit field `(0, 0, 1)` is converted to the axial unit vector -/
theorem cyl_azimuthal_unit_field_maps_to_axial (a : Angles K) :
    getAxisIndex .cylindrical 2 .φ = some 2 ∧
    vectorToCartesian .cylindrical 2 a (unitVec 3 2) = [0, 0, 1] := by
  refine ⟨by decide, ?_⟩
  la_simp

/-- the label of `field[name]` names `name` on every grid class, also on cylindrical grids
(`comp_name = (axes + axes_symmetric)[axis]`; it used to be `c.axes[axis]`, which labelled `field['z']` as `φ`) -/
theorem getitem_label_names_axis (cl : GridClass) (n : ℕ) (ax : Ax) (i : ℕ) (hi : getAxisIndex cl n ax = some i) :
    getitemLabel cl n ax = some ax := by
  have h1 := indexOf?_spec ax (componentOrder cl n) i (by simpa [getAxisIndex] using hi)
  simp [getitemLabel, hi, h1]

theorem cyl_getitem_label_by_name :
    getitemLabel .cylindrical 2 .z = some .z ∧ getitemLabel .cylindrical 2 .φ = some .φ ∧
    getitemLabel .cylindrical 2 .r = some .r := by
  decide

/-- **C19 partial** what holds on cylindrical grids: (1) the radial component is converted
correctly, (2) in general the code's conversion is the consistent one applied to the components
with the last two exchanged, (3) the same for tensors (rows and columns exchanged), (4) `r` is
labelled correctly.
Full statement (false on this tree, see `cyl_axial_unit_field_maps_to_azimuthal`):
`∀ comps, vectorToCartesian .cylindrical 2 a comps = vectorToCartesianOp .cylindrical 2 a comps`. -/
theorem order_consistent_cyl_partial (a : Angles K) (u v w : K) :
    vectorToCartesian .cylindrical 2 a [u, 0, 0] = vectorToCartesianOp .cylindrical 2 a [u, 0, 0] ∧
    vectorToCartesian .cylindrical 2 a [u, v, w] = vectorToCartesianOp .cylindrical 2 a [u, w, v] ∧
    (∀ t11 t12 t13 t21 t22 t23 t31 t32 t33 : K,
      tensorToCartesian .cylindrical 2 a [[t11, t12, t13], [t21, t22, t23], [t31, t32, t33]] =
        tensorToCartesianOp .cylindrical 2 a [[t11, t13, t12], [t31, t33, t32], [t21, t23, t22]]) ∧
    getitemLabel .cylindrical 2 .r = some .r := by
  refine ⟨?_, ?_, ?_, by decide⟩
  · la_simp
  · la_simp
  · intros; la_simp

/-- **C19** the contraction by axis name would be right on every curvilinear grid class: the unit
field along the axis named `ax` is converted to the normalised Jacobian column of `ax`; on
cylindrical grids the uniform axial field `(0, 1, 0)` becomes `(0, 0, 1)` -/
theorem order_consistent_op (cl : GridClass) (hc : Curvilinear cl) (n : ℕ) (r : K) (a : Angles K)
    (ax : Ax) (i : ℕ) (hi : getAxisIndex cl n ax = some i) :
    ∃ j, csIndex cl n ax = some j ∧
      vectorToCartesianOp cl n a (unitVec (dimOf cl n) i) = (basis cl n a).getD j [] ∧
      smulV ((scaleFactors cl n r a).getD j 0) (vectorToCartesianOp cl n a (unitVec (dimOf cl n) i)) =
        (transpose (jacobian cl n r a)).getD j [] := by
  rcases hc with rfl | rfl | rfl
  · cases ax <;> simp [getAxisIndex, componentOrder, gridAxes, gridAxesSym, describedIdx, symIdx, csAxes,
      indexOf?, List.range, List.range.loop] at hi <;> subst hi <;>
      simp [csIndex, csAxes, indexOf?, dimOf] <;> la_simp
  · cases ax <;> simp [getAxisIndex, componentOrder, gridAxes, gridAxesSym, describedIdx, symIdx, csAxes,
      indexOf?, List.range, List.range.loop] at hi <;> subst hi <;>
      simp [csIndex, csAxes, indexOf?, dimOf] <;> la_simp <;> (repeat' constructor) <;> ring
  · cases ax <;> simp [getAxisIndex, componentOrder, gridAxes, gridAxesSym, describedIdx, symIdx, csAxes,
      indexOf?, List.range, List.range.loop] at hi <;> subst hi <;>
      simp [csIndex, csAxes, indexOf?, dimOf] <;> la_simp

theorem cyl_op_order_axial_maps_to_z (a : Angles K) :
    vectorToCartesianOp .cylindrical 2 a (unitVec 3 1) = [0, 0, 1] := by
  la_simp

/-! ### 6. the radial field `r e_r` becomes the position vector -/

/-- **C19** `r e_r -> (x, y)` (polar), `(x, y, z)` (spherical); on cylindrical grids `r e_r ->
(x, y, 0)` and, with the contraction by name, `r e_r + z e_z -> (x, y, z)` -/
theorem radial_field_maps_to_position (r z : K) (a : Angles K) :
    vectorToCartesian .polar 1 a [r, 0] = posToCart .polar r z a ∧
    vectorToCartesian .spherical 1 a [r, 0, 0] = posToCart .spherical r z a ∧
    vectorToCartesian .cylindrical 2 a [r, 0, 0] = posToCart .cylindrical r 0 a ∧
    vectorToCartesianOp .cylindrical 2 a [r, z, 0] = posToCart .cylindrical r z a := by
  refine ⟨?_, ?_, ?_, ?_⟩ <;> la_simp <;> (repeat' constructor) <;> ring

/-- on this tree the position field `r e_r + z e_z` of a cylindrical grid, stored in the operators'
order `(r, z, 0)`, is not converted to the position (F7) -/
theorem cyl_position_field_not_position (r z : K) (hz : z ≠ 0) (a : Angles K) :
    vectorToCartesian .cylindrical 2 a [r, z, 0] ≠ posToCart .cylindrical r z a := by
  la_simp
  intro _ _ h
  exact hz h.symm

/-! ### 7. dot and outer products do not depend on the (orthonormal) basis

Generic statements for a 2x2 / 3x3 matrix `B` of rows with `B Bᵀ = 1`, then for the bases of the
grid classes.  They also pin down *which* index each product contracts. -/

/-- which index is contracted: `(u ⊗ v) · w = (v · w) u`, `w · (u ⊗ v) = (w · u) v`,
`(u ⊗ v)ᵀ = v ⊗ u`, `tr (u ⊗ v) = u · v`, `(A · B)ᵀ = Bᵀ · Aᵀ` (3 components) -/
theorem products_contract_adjacent_indices (u1 u2 u3 v1 v2 v3 w1 w2 w3 : K) :
    dotTV (outerVV [u1, u2, u3] [v1, v2, v3]) [w1, w2, w3] =
      smulV (dotVV [v1, v2, v3] [w1, w2, w3]) [u1, u2, u3] ∧
    dotVT [w1, w2, w3] (outerVV [u1, u2, u3] [v1, v2, v3]) =
      smulV (dotVV [w1, w2, w3] [u1, u2, u3]) [v1, v2, v3] ∧
    transpose (outerVV [u1, u2, u3] [v1, v2, v3]) = outerVV [v1, v2, v3] [u1, u2, u3] ∧
    trace (outerVV [u1, u2, u3] [v1, v2, v3]) = dotVV [u1, u2, u3] [v1, v2, v3] := by
  refine ⟨?_, ?_, ?_, ?_⟩ <;> la_simp <;> (repeat' constructor) <;> ring

theorem products_contract_adjacent_indices2 (u1 u2 v1 v2 w1 w2 : K) :
    dotTV (outerVV [u1, u2] [v1, v2]) [w1, w2] = smulV (dotVV [v1, v2] [w1, w2]) [u1, u2] ∧
    dotVT [w1, w2] (outerVV [u1, u2] [v1, v2]) = smulV (dotVV [w1, w2] [u1, u2]) [v1, v2] ∧
    transpose (outerVV [u1, u2] [v1, v2]) = outerVV [v1, v2] [u1, u2] ∧
    trace (outerVV [u1, u2] [v1, v2]) = dotVV [u1, u2] [v1, v2] := by
  refine ⟨?_, ?_, ?_, ?_⟩ <;> la_simp <;> (repeat' constructor) <;> ring

/-- a tensor applied to a vector from the left and from the right: `dotTV` contracts the second
tensor index, `dotVT` the first; `dotTT` is the matrix product -/
theorem dot_entries (t11 t12 t21 t22 s11 s12 s21 s22 v1 v2 : K) :
    dotTV [[t11, t12], [t21, t22]] [v1, v2] = [t11 * v1 + t12 * v2, t21 * v1 + t22 * v2] ∧
    dotVT [v1, v2] [[t11, t12], [t21, t22]] = [v1 * t11 + v2 * t21, v1 * t12 + v2 * t22] ∧
    dotTT [[t11, t12], [t21, t22]] [[s11, s12], [s21, s22]] =
      [[t11 * s11 + t12 * s21, t11 * s12 + t12 * s22], [t21 * s11 + t22 * s21, t21 * s12 + t22 * s22]] := by
  refine ⟨?_, ?_, ?_⟩ <;> la_simp

/-- 3x3: all products commute with an orthonormal change of basis -/
theorem products_invariant3 (b11 b12 b13 b21 b22 b23 b31 b32 b33 : K)
    (hB : matMul [[b11, b12, b13], [b21, b22, b23], [b31, b32, b33]]
        (transpose [[b11, b12, b13], [b21, b22, b23], [b31, b32, b33]]) = identity 3)
    (u1 u2 u3 v1 v2 v3 t11 t12 t13 t21 t22 t23 t31 t32 t33 s11 s12 s13 s21 s22 s23 s31 s32 s33 : K) :
    let B : Mat K := [[b11, b12, b13], [b21, b22, b23], [b31, b32, b33]]
    let u : Vec K := [u1, u2, u3]
    let v : Vec K := [v1, v2, v3]
    let T : Mat K := [[t11, t12, t13], [t21, t22, t23], [t31, t32, t33]]
    let S : Mat K := [[s11, s12, s13], [s21, s22, s23], [s31, s32, s33]]
    let cv := fun w : Vec K => vecMat w B
    let ct := fun M : Mat K => matMul (transpose B) (matMul M B)
    dotVV (cv u) (cv v) = dotVV u v ∧
    outerVV (cv u) (cv v) = ct (outerVV u v) ∧
    dotTV (ct T) (cv v) = cv (dotTV T v) ∧
    dotVT (cv u) (ct T) = cv (dotVT u T) ∧
    dotTT (ct T) (ct S) = ct (dotTT T S) ∧
    trace (ct T) = trace T := by
  la_simp at hB
  obtain ⟨⟨h11, h12, h13⟩, ⟨h21, h22, h23⟩, h31, h32, h33⟩ := hB
  intro B u v T S cv ct
  simp only [B, u, v, T, S, cv, ct]
  refine ⟨?_, ?_, ?_, ?_, ?_, ?_⟩
  · la_simp; linear_combination u1 * v1 * h11 + u1 * v2 * h12 + u1 * v3 * h13 + u2 * v1 * h21 + u2 * v2 * h22 + u2 * v3 * h23 + u3 * v1 * h31 + u3 * v2 * h32 + u3 * v3 * h33
  · la_simp; (repeat' constructor) <;> ring
  · la_simp
    refine ⟨?_, ?_, ?_⟩
    · linear_combination (b11 * t11 * v1 + b21 * t21 * v1 + b31 * t31 * v1) * h11 + (b11 * t11 * v2 + b21 * t21 * v2 + b31 * t31 * v2) * h12 + (b11 * t11 * v3 + b21 * t21 * v3 + b31 * t31 * v3) * h13 + (b11 * t12 * v1 + b21 * t22 * v1 + b31 * t32 * v1) * h21 + (b11 * t12 * v2 + b21 * t22 * v2 + b31 * t32 * v2) * h22 + (b11 * t12 * v3 + b21 * t22 * v3 + b31 * t32 * v3) * h23 + (b11 * t13 * v1 + b21 * t23 * v1 + b31 * t33 * v1) * h31 + (b11 * t13 * v2 + b21 * t23 * v2 + b31 * t33 * v2) * h32 + (b11 * t13 * v3 + b21 * t23 * v3 + b31 * t33 * v3) * h33
    · linear_combination (b12 * t11 * v1 + b22 * t21 * v1 + b32 * t31 * v1) * h11 + (b12 * t11 * v2 + b22 * t21 * v2 + b32 * t31 * v2) * h12 + (b12 * t11 * v3 + b22 * t21 * v3 + b32 * t31 * v3) * h13 + (b12 * t12 * v1 + b22 * t22 * v1 + b32 * t32 * v1) * h21 + (b12 * t12 * v2 + b22 * t22 * v2 + b32 * t32 * v2) * h22 + (b12 * t12 * v3 + b22 * t22 * v3 + b32 * t32 * v3) * h23 + (b12 * t13 * v1 + b22 * t23 * v1 + b32 * t33 * v1) * h31 + (b12 * t13 * v2 + b22 * t23 * v2 + b32 * t33 * v2) * h32 + (b12 * t13 * v3 + b22 * t23 * v3 + b32 * t33 * v3) * h33
    · linear_combination (b13 * t11 * v1 + b23 * t21 * v1 + b33 * t31 * v1) * h11 + (b13 * t11 * v2 + b23 * t21 * v2 + b33 * t31 * v2) * h12 + (b13 * t11 * v3 + b23 * t21 * v3 + b33 * t31 * v3) * h13 + (b13 * t12 * v1 + b23 * t22 * v1 + b33 * t32 * v1) * h21 + (b13 * t12 * v2 + b23 * t22 * v2 + b33 * t32 * v2) * h22 + (b13 * t12 * v3 + b23 * t22 * v3 + b33 * t32 * v3) * h23 + (b13 * t13 * v1 + b23 * t23 * v1 + b33 * t33 * v1) * h31 + (b13 * t13 * v2 + b23 * t23 * v2 + b33 * t33 * v2) * h32 + (b13 * t13 * v3 + b23 * t23 * v3 + b33 * t33 * v3) * h33
  · la_simp
    refine ⟨?_, ?_, ?_⟩
    · linear_combination (u1 * t11 * b11 + u1 * t12 * b21 + u1 * t13 * b31) * h11 + (u1 * t21 * b11 + u1 * t22 * b21 + u1 * t23 * b31) * h12 + (u1 * t31 * b11 + u1 * t32 * b21 + u1 * t33 * b31) * h13 + (u2 * t11 * b11 + u2 * t12 * b21 + u2 * t13 * b31) * h21 + (u2 * t21 * b11 + u2 * t22 * b21 + u2 * t23 * b31) * h22 + (u2 * t31 * b11 + u2 * t32 * b21 + u2 * t33 * b31) * h23 + (u3 * t11 * b11 + u3 * t12 * b21 + u3 * t13 * b31) * h31 + (u3 * t21 * b11 + u3 * t22 * b21 + u3 * t23 * b31) * h32 + (u3 * t31 * b11 + u3 * t32 * b21 + u3 * t33 * b31) * h33
    · linear_combination (u1 * t11 * b12 + u1 * t12 * b22 + u1 * t13 * b32) * h11 + (u1 * t21 * b12 + u1 * t22 * b22 + u1 * t23 * b32) * h12 + (u1 * t31 * b12 + u1 * t32 * b22 + u1 * t33 * b32) * h13 + (u2 * t11 * b12 + u2 * t12 * b22 + u2 * t13 * b32) * h21 + (u2 * t21 * b12 + u2 * t22 * b22 + u2 * t23 * b32) * h22 + (u2 * t31 * b12 + u2 * t32 * b22 + u2 * t33 * b32) * h23 + (u3 * t11 * b12 + u3 * t12 * b22 + u3 * t13 * b32) * h31 + (u3 * t21 * b12 + u3 * t22 * b22 + u3 * t23 * b32) * h32 + (u3 * t31 * b12 + u3 * t32 * b22 + u3 * t33 * b32) * h33
    · linear_combination (u1 * t11 * b13 + u1 * t12 * b23 + u1 * t13 * b33) * h11 + (u1 * t21 * b13 + u1 * t22 * b23 + u1 * t23 * b33) * h12 + (u1 * t31 * b13 + u1 * t32 * b23 + u1 * t33 * b33) * h13 + (u2 * t11 * b13 + u2 * t12 * b23 + u2 * t13 * b33) * h21 + (u2 * t21 * b13 + u2 * t22 * b23 + u2 * t23 * b33) * h22 + (u2 * t31 * b13 + u2 * t32 * b23 + u2 * t33 * b33) * h23 + (u3 * t11 * b13 + u3 * t12 * b23 + u3 * t13 * b33) * h31 + (u3 * t21 * b13 + u3 * t22 * b23 + u3 * t23 * b33) * h32 + (u3 * t31 * b13 + u3 * t32 * b23 + u3 * t33 * b33) * h33
  · la_simp
    refine ⟨⟨?_, ?_, ?_⟩, ⟨?_, ?_, ?_⟩, ?_, ?_, ?_⟩
    · linear_combination (b11 * t11 * s11 * b11 + b11 * t11 * s12 * b21 + b11 * t11 * s13 * b31 + b21 * t21 * s11 * b11 + b21 * t21 * s12 * b21 + b21 * t21 * s13 * b31 + b31 * t31 * s11 * b11 + b31 * t31 * s12 * b21 + b31 * t31 * s13 * b31) * h11 + (b11 * t11 * s21 * b11 + b11 * t11 * s22 * b21 + b11 * t11 * s23 * b31 + b21 * t21 * s21 * b11 + b21 * t21 * s22 * b21 + b21 * t21 * s23 * b31 + b31 * t31 * s21 * b11 + b31 * t31 * s22 * b21 + b31 * t31 * s23 * b31) * h12 + (b11 * t11 * s31 * b11 + b11 * t11 * s32 * b21 + b11 * t11 * s33 * b31 + b21 * t21 * s31 * b11 + b21 * t21 * s32 * b21 + b21 * t21 * s33 * b31 + b31 * t31 * s31 * b11 + b31 * t31 * s32 * b21 + b31 * t31 * s33 * b31) * h13 + (b11 * t12 * s11 * b11 + b11 * t12 * s12 * b21 + b11 * t12 * s13 * b31 + b21 * t22 * s11 * b11 + b21 * t22 * s12 * b21 + b21 * t22 * s13 * b31 + b31 * t32 * s11 * b11 + b31 * t32 * s12 * b21 + b31 * t32 * s13 * b31) * h21 + (b11 * t12 * s21 * b11 + b11 * t12 * s22 * b21 + b11 * t12 * s23 * b31 + b21 * t22 * s21 * b11 + b21 * t22 * s22 * b21 + b21 * t22 * s23 * b31 + b31 * t32 * s21 * b11 + b31 * t32 * s22 * b21 + b31 * t32 * s23 * b31) * h22 + (b11 * t12 * s31 * b11 + b11 * t12 * s32 * b21 + b11 * t12 * s33 * b31 + b21 * t22 * s31 * b11 + b21 * t22 * s32 * b21 + b21 * t22 * s33 * b31 + b31 * t32 * s31 * b11 + b31 * t32 * s32 * b21 + b31 * t32 * s33 * b31) * h23 + (b11 * t13 * s11 * b11 + b11 * t13 * s12 * b21 + b11 * t13 * s13 * b31 + b21 * t23 * s11 * b11 + b21 * t23 * s12 * b21 + b21 * t23 * s13 * b31 + b31 * t33 * s11 * b11 + b31 * t33 * s12 * b21 + b31 * t33 * s13 * b31) * h31 + (b11 * t13 * s21 * b11 + b11 * t13 * s22 * b21 + b11 * t13 * s23 * b31 + b21 * t23 * s21 * b11 + b21 * t23 * s22 * b21 + b21 * t23 * s23 * b31 + b31 * t33 * s21 * b11 + b31 * t33 * s22 * b21 + b31 * t33 * s23 * b31) * h32 + (b11 * t13 * s31 * b11 + b11 * t13 * s32 * b21 + b11 * t13 * s33 * b31 + b21 * t23 * s31 * b11 + b21 * t23 * s32 * b21 + b21 * t23 * s33 * b31 + b31 * t33 * s31 * b11 + b31 * t33 * s32 * b21 + b31 * t33 * s33 * b31) * h33
    · linear_combination (b11 * t11 * s11 * b12 + b11 * t11 * s12 * b22 + b11 * t11 * s13 * b32 + b21 * t21 * s11 * b12 + b21 * t21 * s12 * b22 + b21 * t21 * s13 * b32 + b31 * t31 * s11 * b12 + b31 * t31 * s12 * b22 + b31 * t31 * s13 * b32) * h11 + (b11 * t11 * s21 * b12 + b11 * t11 * s22 * b22 + b11 * t11 * s23 * b32 + b21 * t21 * s21 * b12 + b21 * t21 * s22 * b22 + b21 * t21 * s23 * b32 + b31 * t31 * s21 * b12 + b31 * t31 * s22 * b22 + b31 * t31 * s23 * b32) * h12 + (b11 * t11 * s31 * b12 + b11 * t11 * s32 * b22 + b11 * t11 * s33 * b32 + b21 * t21 * s31 * b12 + b21 * t21 * s32 * b22 + b21 * t21 * s33 * b32 + b31 * t31 * s31 * b12 + b31 * t31 * s32 * b22 + b31 * t31 * s33 * b32) * h13 + (b11 * t12 * s11 * b12 + b11 * t12 * s12 * b22 + b11 * t12 * s13 * b32 + b21 * t22 * s11 * b12 + b21 * t22 * s12 * b22 + b21 * t22 * s13 * b32 + b31 * t32 * s11 * b12 + b31 * t32 * s12 * b22 + b31 * t32 * s13 * b32) * h21 + (b11 * t12 * s21 * b12 + b11 * t12 * s22 * b22 + b11 * t12 * s23 * b32 + b21 * t22 * s21 * b12 + b21 * t22 * s22 * b22 + b21 * t22 * s23 * b32 + b31 * t32 * s21 * b12 + b31 * t32 * s22 * b22 + b31 * t32 * s23 * b32) * h22 + (b11 * t12 * s31 * b12 + b11 * t12 * s32 * b22 + b11 * t12 * s33 * b32 + b21 * t22 * s31 * b12 + b21 * t22 * s32 * b22 + b21 * t22 * s33 * b32 + b31 * t32 * s31 * b12 + b31 * t32 * s32 * b22 + b31 * t32 * s33 * b32) * h23 + (b11 * t13 * s11 * b12 + b11 * t13 * s12 * b22 + b11 * t13 * s13 * b32 + b21 * t23 * s11 * b12 + b21 * t23 * s12 * b22 + b21 * t23 * s13 * b32 + b31 * t33 * s11 * b12 + b31 * t33 * s12 * b22 + b31 * t33 * s13 * b32) * h31 + (b11 * t13 * s21 * b12 + b11 * t13 * s22 * b22 + b11 * t13 * s23 * b32 + b21 * t23 * s21 * b12 + b21 * t23 * s22 * b22 + b21 * t23 * s23 * b32 + b31 * t33 * s21 * b12 + b31 * t33 * s22 * b22 + b31 * t33 * s23 * b32) * h32 + (b11 * t13 * s31 * b12 + b11 * t13 * s32 * b22 + b11 * t13 * s33 * b32 + b21 * t23 * s31 * b12 + b21 * t23 * s32 * b22 + b21 * t23 * s33 * b32 + b31 * t33 * s31 * b12 + b31 * t33 * s32 * b22 + b31 * t33 * s33 * b32) * h33
    · linear_combination (b11 * t11 * s11 * b13 + b11 * t11 * s12 * b23 + b11 * t11 * s13 * b33 + b21 * t21 * s11 * b13 + b21 * t21 * s12 * b23 + b21 * t21 * s13 * b33 + b31 * t31 * s11 * b13 + b31 * t31 * s12 * b23 + b31 * t31 * s13 * b33) * h11 + (b11 * t11 * s21 * b13 + b11 * t11 * s22 * b23 + b11 * t11 * s23 * b33 + b21 * t21 * s21 * b13 + b21 * t21 * s22 * b23 + b21 * t21 * s23 * b33 + b31 * t31 * s21 * b13 + b31 * t31 * s22 * b23 + b31 * t31 * s23 * b33) * h12 + (b11 * t11 * s31 * b13 + b11 * t11 * s32 * b23 + b11 * t11 * s33 * b33 + b21 * t21 * s31 * b13 + b21 * t21 * s32 * b23 + b21 * t21 * s33 * b33 + b31 * t31 * s31 * b13 + b31 * t31 * s32 * b23 + b31 * t31 * s33 * b33) * h13 + (b11 * t12 * s11 * b13 + b11 * t12 * s12 * b23 + b11 * t12 * s13 * b33 + b21 * t22 * s11 * b13 + b21 * t22 * s12 * b23 + b21 * t22 * s13 * b33 + b31 * t32 * s11 * b13 + b31 * t32 * s12 * b23 + b31 * t32 * s13 * b33) * h21 + (b11 * t12 * s21 * b13 + b11 * t12 * s22 * b23 + b11 * t12 * s23 * b33 + b21 * t22 * s21 * b13 + b21 * t22 * s22 * b23 + b21 * t22 * s23 * b33 + b31 * t32 * s21 * b13 + b31 * t32 * s22 * b23 + b31 * t32 * s23 * b33) * h22 + (b11 * t12 * s31 * b13 + b11 * t12 * s32 * b23 + b11 * t12 * s33 * b33 + b21 * t22 * s31 * b13 + b21 * t22 * s32 * b23 + b21 * t22 * s33 * b33 + b31 * t32 * s31 * b13 + b31 * t32 * s32 * b23 + b31 * t32 * s33 * b33) * h23 + (b11 * t13 * s11 * b13 + b11 * t13 * s12 * b23 + b11 * t13 * s13 * b33 + b21 * t23 * s11 * b13 + b21 * t23 * s12 * b23 + b21 * t23 * s13 * b33 + b31 * t33 * s11 * b13 + b31 * t33 * s12 * b23 + b31 * t33 * s13 * b33) * h31 + (b11 * t13 * s21 * b13 + b11 * t13 * s22 * b23 + b11 * t13 * s23 * b33 + b21 * t23 * s21 * b13 + b21 * t23 * s22 * b23 + b21 * t23 * s23 * b33 + b31 * t33 * s21 * b13 + b31 * t33 * s22 * b23 + b31 * t33 * s23 * b33) * h32 + (b11 * t13 * s31 * b13 + b11 * t13 * s32 * b23 + b11 * t13 * s33 * b33 + b21 * t23 * s31 * b13 + b21 * t23 * s32 * b23 + b21 * t23 * s33 * b33 + b31 * t33 * s31 * b13 + b31 * t33 * s32 * b23 + b31 * t33 * s33 * b33) * h33
    · linear_combination (b12 * t11 * s11 * b11 + b12 * t11 * s12 * b21 + b12 * t11 * s13 * b31 + b22 * t21 * s11 * b11 + b22 * t21 * s12 * b21 + b22 * t21 * s13 * b31 + b32 * t31 * s11 * b11 + b32 * t31 * s12 * b21 + b32 * t31 * s13 * b31) * h11 + (b12 * t11 * s21 * b11 + b12 * t11 * s22 * b21 + b12 * t11 * s23 * b31 + b22 * t21 * s21 * b11 + b22 * t21 * s22 * b21 + b22 * t21 * s23 * b31 + b32 * t31 * s21 * b11 + b32 * t31 * s22 * b21 + b32 * t31 * s23 * b31) * h12 + (b12 * t11 * s31 * b11 + b12 * t11 * s32 * b21 + b12 * t11 * s33 * b31 + b22 * t21 * s31 * b11 + b22 * t21 * s32 * b21 + b22 * t21 * s33 * b31 + b32 * t31 * s31 * b11 + b32 * t31 * s32 * b21 + b32 * t31 * s33 * b31) * h13 + (b12 * t12 * s11 * b11 + b12 * t12 * s12 * b21 + b12 * t12 * s13 * b31 + b22 * t22 * s11 * b11 + b22 * t22 * s12 * b21 + b22 * t22 * s13 * b31 + b32 * t32 * s11 * b11 + b32 * t32 * s12 * b21 + b32 * t32 * s13 * b31) * h21 + (b12 * t12 * s21 * b11 + b12 * t12 * s22 * b21 + b12 * t12 * s23 * b31 + b22 * t22 * s21 * b11 + b22 * t22 * s22 * b21 + b22 * t22 * s23 * b31 + b32 * t32 * s21 * b11 + b32 * t32 * s22 * b21 + b32 * t32 * s23 * b31) * h22 + (b12 * t12 * s31 * b11 + b12 * t12 * s32 * b21 + b12 * t12 * s33 * b31 + b22 * t22 * s31 * b11 + b22 * t22 * s32 * b21 + b22 * t22 * s33 * b31 + b32 * t32 * s31 * b11 + b32 * t32 * s32 * b21 + b32 * t32 * s33 * b31) * h23 + (b12 * t13 * s11 * b11 + b12 * t13 * s12 * b21 + b12 * t13 * s13 * b31 + b22 * t23 * s11 * b11 + b22 * t23 * s12 * b21 + b22 * t23 * s13 * b31 + b32 * t33 * s11 * b11 + b32 * t33 * s12 * b21 + b32 * t33 * s13 * b31) * h31 + (b12 * t13 * s21 * b11 + b12 * t13 * s22 * b21 + b12 * t13 * s23 * b31 + b22 * t23 * s21 * b11 + b22 * t23 * s22 * b21 + b22 * t23 * s23 * b31 + b32 * t33 * s21 * b11 + b32 * t33 * s22 * b21 + b32 * t33 * s23 * b31) * h32 + (b12 * t13 * s31 * b11 + b12 * t13 * s32 * b21 + b12 * t13 * s33 * b31 + b22 * t23 * s31 * b11 + b22 * t23 * s32 * b21 + b22 * t23 * s33 * b31 + b32 * t33 * s31 * b11 + b32 * t33 * s32 * b21 + b32 * t33 * s33 * b31) * h33
    · linear_combination (b12 * t11 * s11 * b12 + b12 * t11 * s12 * b22 + b12 * t11 * s13 * b32 + b22 * t21 * s11 * b12 + b22 * t21 * s12 * b22 + b22 * t21 * s13 * b32 + b32 * t31 * s11 * b12 + b32 * t31 * s12 * b22 + b32 * t31 * s13 * b32) * h11 + (b12 * t11 * s21 * b12 + b12 * t11 * s22 * b22 + b12 * t11 * s23 * b32 + b22 * t21 * s21 * b12 + b22 * t21 * s22 * b22 + b22 * t21 * s23 * b32 + b32 * t31 * s21 * b12 + b32 * t31 * s22 * b22 + b32 * t31 * s23 * b32) * h12 + (b12 * t11 * s31 * b12 + b12 * t11 * s32 * b22 + b12 * t11 * s33 * b32 + b22 * t21 * s31 * b12 + b22 * t21 * s32 * b22 + b22 * t21 * s33 * b32 + b32 * t31 * s31 * b12 + b32 * t31 * s32 * b22 + b32 * t31 * s33 * b32) * h13 + (b12 * t12 * s11 * b12 + b12 * t12 * s12 * b22 + b12 * t12 * s13 * b32 + b22 * t22 * s11 * b12 + b22 * t22 * s12 * b22 + b22 * t22 * s13 * b32 + b32 * t32 * s11 * b12 + b32 * t32 * s12 * b22 + b32 * t32 * s13 * b32) * h21 + (b12 * t12 * s21 * b12 + b12 * t12 * s22 * b22 + b12 * t12 * s23 * b32 + b22 * t22 * s21 * b12 + b22 * t22 * s22 * b22 + b22 * t22 * s23 * b32 + b32 * t32 * s21 * b12 + b32 * t32 * s22 * b22 + b32 * t32 * s23 * b32) * h22 + (b12 * t12 * s31 * b12 + b12 * t12 * s32 * b22 + b12 * t12 * s33 * b32 + b22 * t22 * s31 * b12 + b22 * t22 * s32 * b22 + b22 * t22 * s33 * b32 + b32 * t32 * s31 * b12 + b32 * t32 * s32 * b22 + b32 * t32 * s33 * b32) * h23 + (b12 * t13 * s11 * b12 + b12 * t13 * s12 * b22 + b12 * t13 * s13 * b32 + b22 * t23 * s11 * b12 + b22 * t23 * s12 * b22 + b22 * t23 * s13 * b32 + b32 * t33 * s11 * b12 + b32 * t33 * s12 * b22 + b32 * t33 * s13 * b32) * h31 + (b12 * t13 * s21 * b12 + b12 * t13 * s22 * b22 + b12 * t13 * s23 * b32 + b22 * t23 * s21 * b12 + b22 * t23 * s22 * b22 + b22 * t23 * s23 * b32 + b32 * t33 * s21 * b12 + b32 * t33 * s22 * b22 + b32 * t33 * s23 * b32) * h32 + (b12 * t13 * s31 * b12 + b12 * t13 * s32 * b22 + b12 * t13 * s33 * b32 + b22 * t23 * s31 * b12 + b22 * t23 * s32 * b22 + b22 * t23 * s33 * b32 + b32 * t33 * s31 * b12 + b32 * t33 * s32 * b22 + b32 * t33 * s33 * b32) * h33
    · linear_combination (b12 * t11 * s11 * b13 + b12 * t11 * s12 * b23 + b12 * t11 * s13 * b33 + b22 * t21 * s11 * b13 + b22 * t21 * s12 * b23 + b22 * t21 * s13 * b33 + b32 * t31 * s11 * b13 + b32 * t31 * s12 * b23 + b32 * t31 * s13 * b33) * h11 + (b12 * t11 * s21 * b13 + b12 * t11 * s22 * b23 + b12 * t11 * s23 * b33 + b22 * t21 * s21 * b13 + b22 * t21 * s22 * b23 + b22 * t21 * s23 * b33 + b32 * t31 * s21 * b13 + b32 * t31 * s22 * b23 + b32 * t31 * s23 * b33) * h12 + (b12 * t11 * s31 * b13 + b12 * t11 * s32 * b23 + b12 * t11 * s33 * b33 + b22 * t21 * s31 * b13 + b22 * t21 * s32 * b23 + b22 * t21 * s33 * b33 + b32 * t31 * s31 * b13 + b32 * t31 * s32 * b23 + b32 * t31 * s33 * b33) * h13 + (b12 * t12 * s11 * b13 + b12 * t12 * s12 * b23 + b12 * t12 * s13 * b33 + b22 * t22 * s11 * b13 + b22 * t22 * s12 * b23 + b22 * t22 * s13 * b33 + b32 * t32 * s11 * b13 + b32 * t32 * s12 * b23 + b32 * t32 * s13 * b33) * h21 + (b12 * t12 * s21 * b13 + b12 * t12 * s22 * b23 + b12 * t12 * s23 * b33 + b22 * t22 * s21 * b13 + b22 * t22 * s22 * b23 + b22 * t22 * s23 * b33 + b32 * t32 * s21 * b13 + b32 * t32 * s22 * b23 + b32 * t32 * s23 * b33) * h22 + (b12 * t12 * s31 * b13 + b12 * t12 * s32 * b23 + b12 * t12 * s33 * b33 + b22 * t22 * s31 * b13 + b22 * t22 * s32 * b23 + b22 * t22 * s33 * b33 + b32 * t32 * s31 * b13 + b32 * t32 * s32 * b23 + b32 * t32 * s33 * b33) * h23 + (b12 * t13 * s11 * b13 + b12 * t13 * s12 * b23 + b12 * t13 * s13 * b33 + b22 * t23 * s11 * b13 + b22 * t23 * s12 * b23 + b22 * t23 * s13 * b33 + b32 * t33 * s11 * b13 + b32 * t33 * s12 * b23 + b32 * t33 * s13 * b33) * h31 + (b12 * t13 * s21 * b13 + b12 * t13 * s22 * b23 + b12 * t13 * s23 * b33 + b22 * t23 * s21 * b13 + b22 * t23 * s22 * b23 + b22 * t23 * s23 * b33 + b32 * t33 * s21 * b13 + b32 * t33 * s22 * b23 + b32 * t33 * s23 * b33) * h32 + (b12 * t13 * s31 * b13 + b12 * t13 * s32 * b23 + b12 * t13 * s33 * b33 + b22 * t23 * s31 * b13 + b22 * t23 * s32 * b23 + b22 * t23 * s33 * b33 + b32 * t33 * s31 * b13 + b32 * t33 * s32 * b23 + b32 * t33 * s33 * b33) * h33
    · linear_combination (b13 * t11 * s11 * b11 + b13 * t11 * s12 * b21 + b13 * t11 * s13 * b31 + b23 * t21 * s11 * b11 + b23 * t21 * s12 * b21 + b23 * t21 * s13 * b31 + b33 * t31 * s11 * b11 + b33 * t31 * s12 * b21 + b33 * t31 * s13 * b31) * h11 + (b13 * t11 * s21 * b11 + b13 * t11 * s22 * b21 + b13 * t11 * s23 * b31 + b23 * t21 * s21 * b11 + b23 * t21 * s22 * b21 + b23 * t21 * s23 * b31 + b33 * t31 * s21 * b11 + b33 * t31 * s22 * b21 + b33 * t31 * s23 * b31) * h12 + (b13 * t11 * s31 * b11 + b13 * t11 * s32 * b21 + b13 * t11 * s33 * b31 + b23 * t21 * s31 * b11 + b23 * t21 * s32 * b21 + b23 * t21 * s33 * b31 + b33 * t31 * s31 * b11 + b33 * t31 * s32 * b21 + b33 * t31 * s33 * b31) * h13 + (b13 * t12 * s11 * b11 + b13 * t12 * s12 * b21 + b13 * t12 * s13 * b31 + b23 * t22 * s11 * b11 + b23 * t22 * s12 * b21 + b23 * t22 * s13 * b31 + b33 * t32 * s11 * b11 + b33 * t32 * s12 * b21 + b33 * t32 * s13 * b31) * h21 + (b13 * t12 * s21 * b11 + b13 * t12 * s22 * b21 + b13 * t12 * s23 * b31 + b23 * t22 * s21 * b11 + b23 * t22 * s22 * b21 + b23 * t22 * s23 * b31 + b33 * t32 * s21 * b11 + b33 * t32 * s22 * b21 + b33 * t32 * s23 * b31) * h22 + (b13 * t12 * s31 * b11 + b13 * t12 * s32 * b21 + b13 * t12 * s33 * b31 + b23 * t22 * s31 * b11 + b23 * t22 * s32 * b21 + b23 * t22 * s33 * b31 + b33 * t32 * s31 * b11 + b33 * t32 * s32 * b21 + b33 * t32 * s33 * b31) * h23 + (b13 * t13 * s11 * b11 + b13 * t13 * s12 * b21 + b13 * t13 * s13 * b31 + b23 * t23 * s11 * b11 + b23 * t23 * s12 * b21 + b23 * t23 * s13 * b31 + b33 * t33 * s11 * b11 + b33 * t33 * s12 * b21 + b33 * t33 * s13 * b31) * h31 + (b13 * t13 * s21 * b11 + b13 * t13 * s22 * b21 + b13 * t13 * s23 * b31 + b23 * t23 * s21 * b11 + b23 * t23 * s22 * b21 + b23 * t23 * s23 * b31 + b33 * t33 * s21 * b11 + b33 * t33 * s22 * b21 + b33 * t33 * s23 * b31) * h32 + (b13 * t13 * s31 * b11 + b13 * t13 * s32 * b21 + b13 * t13 * s33 * b31 + b23 * t23 * s31 * b11 + b23 * t23 * s32 * b21 + b23 * t23 * s33 * b31 + b33 * t33 * s31 * b11 + b33 * t33 * s32 * b21 + b33 * t33 * s33 * b31) * h33
    · linear_combination (b13 * t11 * s11 * b12 + b13 * t11 * s12 * b22 + b13 * t11 * s13 * b32 + b23 * t21 * s11 * b12 + b23 * t21 * s12 * b22 + b23 * t21 * s13 * b32 + b33 * t31 * s11 * b12 + b33 * t31 * s12 * b22 + b33 * t31 * s13 * b32) * h11 + (b13 * t11 * s21 * b12 + b13 * t11 * s22 * b22 + b13 * t11 * s23 * b32 + b23 * t21 * s21 * b12 + b23 * t21 * s22 * b22 + b23 * t21 * s23 * b32 + b33 * t31 * s21 * b12 + b33 * t31 * s22 * b22 + b33 * t31 * s23 * b32) * h12 + (b13 * t11 * s31 * b12 + b13 * t11 * s32 * b22 + b13 * t11 * s33 * b32 + b23 * t21 * s31 * b12 + b23 * t21 * s32 * b22 + b23 * t21 * s33 * b32 + b33 * t31 * s31 * b12 + b33 * t31 * s32 * b22 + b33 * t31 * s33 * b32) * h13 + (b13 * t12 * s11 * b12 + b13 * t12 * s12 * b22 + b13 * t12 * s13 * b32 + b23 * t22 * s11 * b12 + b23 * t22 * s12 * b22 + b23 * t22 * s13 * b32 + b33 * t32 * s11 * b12 + b33 * t32 * s12 * b22 + b33 * t32 * s13 * b32) * h21 + (b13 * t12 * s21 * b12 + b13 * t12 * s22 * b22 + b13 * t12 * s23 * b32 + b23 * t22 * s21 * b12 + b23 * t22 * s22 * b22 + b23 * t22 * s23 * b32 + b33 * t32 * s21 * b12 + b33 * t32 * s22 * b22 + b33 * t32 * s23 * b32) * h22 + (b13 * t12 * s31 * b12 + b13 * t12 * s32 * b22 + b13 * t12 * s33 * b32 + b23 * t22 * s31 * b12 + b23 * t22 * s32 * b22 + b23 * t22 * s33 * b32 + b33 * t32 * s31 * b12 + b33 * t32 * s32 * b22 + b33 * t32 * s33 * b32) * h23 + (b13 * t13 * s11 * b12 + b13 * t13 * s12 * b22 + b13 * t13 * s13 * b32 + b23 * t23 * s11 * b12 + b23 * t23 * s12 * b22 + b23 * t23 * s13 * b32 + b33 * t33 * s11 * b12 + b33 * t33 * s12 * b22 + b33 * t33 * s13 * b32) * h31 + (b13 * t13 * s21 * b12 + b13 * t13 * s22 * b22 + b13 * t13 * s23 * b32 + b23 * t23 * s21 * b12 + b23 * t23 * s22 * b22 + b23 * t23 * s23 * b32 + b33 * t33 * s21 * b12 + b33 * t33 * s22 * b22 + b33 * t33 * s23 * b32) * h32 + (b13 * t13 * s31 * b12 + b13 * t13 * s32 * b22 + b13 * t13 * s33 * b32 + b23 * t23 * s31 * b12 + b23 * t23 * s32 * b22 + b23 * t23 * s33 * b32 + b33 * t33 * s31 * b12 + b33 * t33 * s32 * b22 + b33 * t33 * s33 * b32) * h33
    · linear_combination (b13 * t11 * s11 * b13 + b13 * t11 * s12 * b23 + b13 * t11 * s13 * b33 + b23 * t21 * s11 * b13 + b23 * t21 * s12 * b23 + b23 * t21 * s13 * b33 + b33 * t31 * s11 * b13 + b33 * t31 * s12 * b23 + b33 * t31 * s13 * b33) * h11 + (b13 * t11 * s21 * b13 + b13 * t11 * s22 * b23 + b13 * t11 * s23 * b33 + b23 * t21 * s21 * b13 + b23 * t21 * s22 * b23 + b23 * t21 * s23 * b33 + b33 * t31 * s21 * b13 + b33 * t31 * s22 * b23 + b33 * t31 * s23 * b33) * h12 + (b13 * t11 * s31 * b13 + b13 * t11 * s32 * b23 + b13 * t11 * s33 * b33 + b23 * t21 * s31 * b13 + b23 * t21 * s32 * b23 + b23 * t21 * s33 * b33 + b33 * t31 * s31 * b13 + b33 * t31 * s32 * b23 + b33 * t31 * s33 * b33) * h13 + (b13 * t12 * s11 * b13 + b13 * t12 * s12 * b23 + b13 * t12 * s13 * b33 + b23 * t22 * s11 * b13 + b23 * t22 * s12 * b23 + b23 * t22 * s13 * b33 + b33 * t32 * s11 * b13 + b33 * t32 * s12 * b23 + b33 * t32 * s13 * b33) * h21 + (b13 * t12 * s21 * b13 + b13 * t12 * s22 * b23 + b13 * t12 * s23 * b33 + b23 * t22 * s21 * b13 + b23 * t22 * s22 * b23 + b23 * t22 * s23 * b33 + b33 * t32 * s21 * b13 + b33 * t32 * s22 * b23 + b33 * t32 * s23 * b33) * h22 + (b13 * t12 * s31 * b13 + b13 * t12 * s32 * b23 + b13 * t12 * s33 * b33 + b23 * t22 * s31 * b13 + b23 * t22 * s32 * b23 + b23 * t22 * s33 * b33 + b33 * t32 * s31 * b13 + b33 * t32 * s32 * b23 + b33 * t32 * s33 * b33) * h23 + (b13 * t13 * s11 * b13 + b13 * t13 * s12 * b23 + b13 * t13 * s13 * b33 + b23 * t23 * s11 * b13 + b23 * t23 * s12 * b23 + b23 * t23 * s13 * b33 + b33 * t33 * s11 * b13 + b33 * t33 * s12 * b23 + b33 * t33 * s13 * b33) * h31 + (b13 * t13 * s21 * b13 + b13 * t13 * s22 * b23 + b13 * t13 * s23 * b33 + b23 * t23 * s21 * b13 + b23 * t23 * s22 * b23 + b23 * t23 * s23 * b33 + b33 * t33 * s21 * b13 + b33 * t33 * s22 * b23 + b33 * t33 * s23 * b33) * h32 + (b13 * t13 * s31 * b13 + b13 * t13 * s32 * b23 + b13 * t13 * s33 * b33 + b23 * t23 * s31 * b13 + b23 * t23 * s32 * b23 + b23 * t23 * s33 * b33 + b33 * t33 * s31 * b13 + b33 * t33 * s32 * b23 + b33 * t33 * s33 * b33) * h33
  · la_simp; linear_combination t11 * h11 + t12 * h12 + t13 * h13 + t21 * h21 + t22 * h22 + t23 * h23 + t31 * h31 + t32 * h32 + t33 * h33

/-- 2x2: all products commute with an orthonormal change of basis -/
theorem products_invariant2 (b11 b12 b21 b22 : K)
    (hB : matMul [[b11, b12], [b21, b22]] (transpose [[b11, b12], [b21, b22]]) = identity 2)
    (u1 u2 v1 v2 t11 t12 t21 t22 s11 s12 s21 s22 : K) :
    let B : Mat K := [[b11, b12], [b21, b22]]
    let u : Vec K := [u1, u2]
    let v : Vec K := [v1, v2]
    let T : Mat K := [[t11, t12], [t21, t22]]
    let S : Mat K := [[s11, s12], [s21, s22]]
    let cv := fun w : Vec K => vecMat w B
    let ct := fun M : Mat K => matMul (transpose B) (matMul M B)
    dotVV (cv u) (cv v) = dotVV u v ∧
    outerVV (cv u) (cv v) = ct (outerVV u v) ∧
    dotTV (ct T) (cv v) = cv (dotTV T v) ∧
    dotVT (cv u) (ct T) = cv (dotVT u T) ∧
    dotTT (ct T) (ct S) = ct (dotTT T S) ∧
    trace (ct T) = trace T := by
  la_simp at hB
  obtain ⟨⟨h11, h12⟩, h21, h22⟩ := hB
  intro B u v T S cv ct
  simp only [B, u, v, T, S, cv, ct]
  refine ⟨?_, ?_, ?_, ?_, ?_, ?_⟩
  · la_simp; linear_combination u1 * v1 * h11 + u1 * v2 * h12 + u2 * v1 * h21 + u2 * v2 * h22
  · la_simp; (repeat' constructor) <;> ring
  · la_simp
    refine ⟨?_, ?_⟩
    · linear_combination (b11 * t11 * v1 + b21 * t21 * v1) * h11 + (b11 * t11 * v2 + b21 * t21 * v2) * h12 + (b11 * t12 * v1 + b21 * t22 * v1) * h21 + (b11 * t12 * v2 + b21 * t22 * v2) * h22
    · linear_combination (b12 * t11 * v1 + b22 * t21 * v1) * h11 + (b12 * t11 * v2 + b22 * t21 * v2) * h12 + (b12 * t12 * v1 + b22 * t22 * v1) * h21 + (b12 * t12 * v2 + b22 * t22 * v2) * h22
  · la_simp
    refine ⟨?_, ?_⟩
    · linear_combination (u1 * t11 * b11 + u1 * t12 * b21) * h11 + (u1 * t21 * b11 + u1 * t22 * b21) * h12 + (u2 * t11 * b11 + u2 * t12 * b21) * h21 + (u2 * t21 * b11 + u2 * t22 * b21) * h22
    · linear_combination (u1 * t11 * b12 + u1 * t12 * b22) * h11 + (u1 * t21 * b12 + u1 * t22 * b22) * h12 + (u2 * t11 * b12 + u2 * t12 * b22) * h21 + (u2 * t21 * b12 + u2 * t22 * b22) * h22
  · la_simp
    refine ⟨⟨?_, ?_⟩, ?_, ?_⟩
    · linear_combination (b11 * t11 * s11 * b11 + b11 * t11 * s12 * b21 + b21 * t21 * s11 * b11 + b21 * t21 * s12 * b21) * h11 + (b11 * t11 * s21 * b11 + b11 * t11 * s22 * b21 + b21 * t21 * s21 * b11 + b21 * t21 * s22 * b21) * h12 + (b11 * t12 * s11 * b11 + b11 * t12 * s12 * b21 + b21 * t22 * s11 * b11 + b21 * t22 * s12 * b21) * h21 + (b11 * t12 * s21 * b11 + b11 * t12 * s22 * b21 + b21 * t22 * s21 * b11 + b21 * t22 * s22 * b21) * h22
    · linear_combination (b11 * t11 * s11 * b12 + b11 * t11 * s12 * b22 + b21 * t21 * s11 * b12 + b21 * t21 * s12 * b22) * h11 + (b11 * t11 * s21 * b12 + b11 * t11 * s22 * b22 + b21 * t21 * s21 * b12 + b21 * t21 * s22 * b22) * h12 + (b11 * t12 * s11 * b12 + b11 * t12 * s12 * b22 + b21 * t22 * s11 * b12 + b21 * t22 * s12 * b22) * h21 + (b11 * t12 * s21 * b12 + b11 * t12 * s22 * b22 + b21 * t22 * s21 * b12 + b21 * t22 * s22 * b22) * h22
    · linear_combination (b12 * t11 * s11 * b11 + b12 * t11 * s12 * b21 + b22 * t21 * s11 * b11 + b22 * t21 * s12 * b21) * h11 + (b12 * t11 * s21 * b11 + b12 * t11 * s22 * b21 + b22 * t21 * s21 * b11 + b22 * t21 * s22 * b21) * h12 + (b12 * t12 * s11 * b11 + b12 * t12 * s12 * b21 + b22 * t22 * s11 * b11 + b22 * t22 * s12 * b21) * h21 + (b12 * t12 * s21 * b11 + b12 * t12 * s22 * b21 + b22 * t22 * s21 * b11 + b22 * t22 * s22 * b21) * h22
    · linear_combination (b12 * t11 * s11 * b12 + b12 * t11 * s12 * b22 + b22 * t21 * s11 * b12 + b22 * t21 * s12 * b22) * h11 + (b12 * t11 * s21 * b12 + b12 * t11 * s22 * b22 + b22 * t21 * s21 * b12 + b22 * t21 * s22 * b22) * h12 + (b12 * t12 * s11 * b12 + b12 * t12 * s12 * b22 + b22 * t22 * s11 * b12 + b22 * t22 * s12 * b22) * h21 + (b12 * t12 * s21 * b12 + b12 * t12 * s22 * b22 + b22 * t22 * s21 * b12 + b22 * t22 * s22 * b22) * h22
  · la_simp; linear_combination t11 * h11 + t12 * h12 + t21 * h21 + t22 * h22

/-- **C19** on polar grids `dot`, `outer_product` and the tensor products give the same
geometric object whether they are evaluated on the grid components or on the Cartesian components
(conversion as in `_vector_to_cartesian`) -/
theorem products_invariant_polar (a : Angles K) (ha : a.WF)
    (u1 u2 v1 v2 t11 t12 t21 t22 s11 s12 s21 s22 : K) :
    let u : Vec K := [u1, u2]
    let v : Vec K := [v1, v2]
    let T : Mat K := [[t11, t12], [t21, t22]]
    let S : Mat K := [[s11, s12], [s21, s22]]
    let cv := vectorToCartesian .polar 1 a
    let ct := tensorToCartesian .polar 1 a
    dotVV (cv u) (cv v) = dotVV u v ∧
    outerVV (cv u) (cv v) = ct (outerVV u v) ∧
    dotTV (ct T) (cv v) = cv (dotTV T v) ∧
    dotVT (cv u) (ct T) = cv (dotVT u T) ∧
    dotTT (ct T) (ct S) = ct (dotTT T S) ∧
    trace (ct T) = trace T :=
  products_invariant2 a.cφ a.sφ (-a.sφ) a.cφ (polar_basis_orthonormal _ _ ha.hφ)
    u1 u2 v1 v2 t11 t12 t21 t22 s11 s12 s21 s22

/-- **C19** the same on spherical grids -/
theorem products_invariant_spherical (a : Angles K) (ha : a.WF)
    (u1 u2 u3 v1 v2 v3 t11 t12 t13 t21 t22 t23 t31 t32 t33 s11 s12 s13 s21 s22 s23 s31 s32 s33 : K) :
    let u : Vec K := [u1, u2, u3]
    let v : Vec K := [v1, v2, v3]
    let T : Mat K := [[t11, t12, t13], [t21, t22, t23], [t31, t32, t33]]
    let S : Mat K := [[s11, s12, s13], [s21, s22, s23], [s31, s32, s33]]
    let cv := vectorToCartesian .spherical 1 a
    let ct := tensorToCartesian .spherical 1 a
    dotVV (cv u) (cv v) = dotVV u v ∧
    outerVV (cv u) (cv v) = ct (outerVV u v) ∧
    dotTV (ct T) (cv v) = cv (dotTV T v) ∧
    dotVT (cv u) (ct T) = cv (dotVT u T) ∧
    dotTT (ct T) (ct S) = ct (dotTT T S) ∧
    trace (ct T) = trace T :=
  products_invariant3 _ _ _ _ _ _ _ _ _ (sph_basis_orthonormal _ _ _ _ ha.hθ ha.hφ)
    u1 u2 u3 v1 v2 v3 t11 t12 t13 t21 t22 t23 t31 t32 t33 s11 s12 s13 s21 s22 s23 s31 s32 s33

/-- **C19** the same on cylindrical grids, for the conversion the code performs *and* for the
contraction by name: both are orthonormal changes of basis (they differ by a permutation), so the
products are basis independent either way - the clash F7 is invisible to `dot`/`outer` -/
theorem products_invariant_cylindrical (a : Angles K) (ha : a.WF)
    (u1 u2 u3 v1 v2 v3 t11 t12 t13 t21 t22 t23 t31 t32 t33 s11 s12 s13 s21 s22 s23 s31 s32 s33 : K) :
    let u : Vec K := [u1, u2, u3]
    let v : Vec K := [v1, v2, v3]
    let T : Mat K := [[t11, t12, t13], [t21, t22, t23], [t31, t32, t33]]
    let S : Mat K := [[s11, s12, s13], [s21, s22, s23], [s31, s32, s33]]
    (let cv := vectorToCartesian .cylindrical 2 a
     let ct := tensorToCartesian .cylindrical 2 a
     dotVV (cv u) (cv v) = dotVV u v ∧
     outerVV (cv u) (cv v) = ct (outerVV u v) ∧
     dotTV (ct T) (cv v) = cv (dotTV T v) ∧
     dotVT (cv u) (ct T) = cv (dotVT u T) ∧
     dotTT (ct T) (ct S) = ct (dotTT T S) ∧
     trace (ct T) = trace T) ∧
    (let cv := vectorToCartesianOp .cylindrical 2 a
     let ct := tensorToCartesianOp .cylindrical 2 a
     dotVV (cv u) (cv v) = dotVV u v ∧
     outerVV (cv u) (cv v) = ct (outerVV u v) ∧
     dotTV (ct T) (cv v) = cv (dotTV T v) ∧
     dotVT (cv u) (ct T) = cv (dotVT u T) ∧
     dotTT (ct T) (ct S) = ct (dotTT T S) ∧
     trace (ct T) = trace T) := by
  have h1 := cyl_basis_orthonormal _ _ ha.hφ
  have h2 : matMul (basisOp .cylindrical 2 a) (transpose (basisOp .cylindrical 2 a)) = identity 3 := by
    have := ha.hφ
    la_simp; grind
  have e : basisOp .cylindrical 2 a = [[a.cφ, a.sφ, 0], [0, 0, 0 + 1], [-a.sφ, a.cφ, 0]] := by la_simp
  intro u v T S
  refine ⟨?_, ?_⟩
  · exact products_invariant3 _ _ _ _ _ _ _ _ _ h1
      u1 u2 u3 v1 v2 v3 t11 t12 t13 t21 t22 t23 t31 t32 t33 s11 s12 s13 s21 s22 s23 s31 s32 s33
  · rw [e] at h2
    simp only [vectorToCartesianOp, tensorToCartesianOp, e]
    exact products_invariant3 _ _ _ _ _ _ _ _ _ h2
      u1 u2 u3 v1 v2 v3 t11 t12 t13 t21 t22 t23 t31 t32 t33 s11 s12 s13 s21 s22 s23 s31 s32 s33

end

/-! ### 8. conversion commutes with divergence and gradient - algebraic form, PARTIAL

The theorems of this section are named `_partial`: they cover the components `f_r = r P(r^2)`, `f_φ = r Q(r^2)`
and the scalars `U(r^2)` only (the class that stays polynomial in `x, y, z`); the fields `c + a r + b r^2` the
harness uses are NOT of this form.  Polar and spherical grids, on spherical grids the radial component only;
on cylindrical grids the divergence only and only for the contraction by axis name.  The general statements
(arbitrary differentiable profiles, all three grid classes, the conversion of the code and the one by name)
are in section 11 at `K = ℝ`.  Neither section speaks about the discrete operators of py-pde: "commutes up
to discretisation error" is a continuum identity about the model of the conversion here, the discretisation
error is measured by the harness (commute leg) and C01 ties the operators to their continuum limits.


`A` is any commutative algebra of "functions" with partial derivatives `Dx, Dy(, Dz)` (derivations)
and coordinate functions `x, y(, z)` with `D_i x_j = δ_ij`: polynomials (`pderiv`, see the
instances at the end), power series, smooth functions.  The trigonometric pairs of the point
`(x, y)` are `(x/r, y/r)`; because the basis matrices are linear in each pair, a field with grid
components `(r P, r Q)` is converted with the *unnormalised* pair `(x, y)` applied to `(P, Q)`, which
keeps everything polynomial.  `aeval ρ P` with `ρ = x^2 + y^2 (+ z^2)` is a function of the radius
only, as the symmetric grids require. -/

section
open Polynomial
variable {K A : Type} [CommRing K] [CommRing A] [Algebra K A]

/-- Cartesian divergence `Σ_i D_i v_i` -/
def cartDiv (D : List (Derivation K A A)) (v : Vec A) : A :=
  (List.zipWith (fun d c => d c) D v).sum

/-- Cartesian gradient -/
def cartGrad (D : List (Derivation K A A)) (u : A) : Vec A := D.map (fun d => d u)

/-- the hypotheses on the coordinate functions of the plane -/
structure Coords2 (Dx Dy : Derivation K A A) (x y : A) : Prop where
  xx : Dx x = 1
  xy : Dx y = 0
  yx : Dy x = 0
  yy : Dy y = 1

structure Coords3 (Dx Dy Dz : Derivation K A A) (x y z : A) : Prop where
  xx : Dx x = 1
  xy : Dx y = 0
  xz : Dx z = 0
  yx : Dy x = 0
  yy : Dy y = 1
  yz : Dy z = 0
  zx : Dz x = 0
  zy : Dz y = 0
  zz : Dz z = 1

/-- polar grids, general form: the field with grid components `(r P, r Q)`, `Q` axisymmetric
(`∂_φ Q = x ∂_y Q - y ∂_x Q = 0`), converted as `_vector_to_cartesian` does, has the Cartesian
divergence `2 P + r ∂_r P` (`r ∂_r = x ∂_x + y ∂_y`), which is `(1/r) ∂_r (r · r P)`: the azimuthal
component does not contribute -/
theorem polar_conversion_divergence (Dx Dy : Derivation K A A) (x y : A) (h : Coords2 Dx Dy x y)
    (P Q : A) (hQ : x * Dy Q - y * Dx Q = 0) :
    cartDiv [Dx, Dy] (vectorToCartesian .polar 1 ⟨0, 0, x, y⟩ [P, Q]) = 2 * P + (x * Dx P + y * Dy P) := by
  obtain ⟨hxx, hxy, hyx, hyy⟩ := h
  la_simp
  simp [cartDiv, hxx, hxy, hyx, hyy]
  linear_combination hQ

/-- **C19** `conversion_commutes_with_divergence_poly_partial`, polar grids: for the radial polynomial
field `f_r = r P(r^2)`, `f_φ = r Q(r^2)` the Cartesian divergence of the converted field is the
polynomial `D = 2 P + 2 X P'` evaluated at `r^2 = x^2 + y^2`, and `D(r^2)` is the value of the polar
divergence formula `(1/r) d(r f_r)/dr` (second part: `r D(r^2) = (r f_r)'` as polynomials in `r`) -/
theorem conversion_commutes_with_divergence_poly_polar_partial (Dx Dy : Derivation K A A) (x y : A)
    (h : Coords2 Dx Dy x y) (P Q : K[X]) :
    cartDiv [Dx, Dy]
        (vectorToCartesian .polar 1 ⟨0, 0, x, y⟩ [aeval (x ^ 2 + y ^ 2) P, aeval (x ^ 2 + y ^ 2) Q])
      = aeval (x ^ 2 + y ^ 2) (2 * P + 2 * X * derivative P) ∧
    X * (2 * P + 2 * X * derivative P).comp (X ^ 2) = derivative (X * (X * P.comp (X ^ 2))) := by
  constructor
  · rw [polar_conversion_divergence Dx Dy x y h]
    · obtain ⟨hxx, hxy, hyx, hyy⟩ := h
      simp [Derivation.leibniz_pow, map_ofNat, hxx, hxy, hyx, hyy]
      ring
    · obtain ⟨hxx, hxy, hyx, hyy⟩ := h
      simp [Derivation.leibniz_pow, map_ofNat, hxx, hxy, hyx, hyy]
      ring
  · simp [derivative_comp, derivative_mul]
    ring

/-- **C19** `conversion_commutes_with_divergence_poly_partial`, spherical grids (the divergence of
`SphericalSymGrid` only admits a radial component): for `f_r = r P(r^2)` the Cartesian divergence of
the converted field is `D = 3 P + 2 X P'` at `r^2 = x^2 + y^2 + z^2`, and `r^2 D(r^2) = (r^2 f_r)'`,
i.e. `D(r^2) = (1/r^2) d(r^2 f_r)/dr`.  The trigonometric pairs of the point are
`(cos θ, sin θ) = (z/r, ρ/r)`, `(cos φ, sin φ) = (x/ρ, y/ρ)`; `e_r = (x, y, z)/r` is the first row of
the basis with the unnormalised pairs `(z, 1)` and `(x, y)`. -/
theorem conversion_commutes_with_divergence_poly_spherical_partial (Dx Dy Dz : Derivation K A A) (x y z : A)
    (h : Coords3 Dx Dy Dz x y z) (P : K[X]) :
    cartDiv [Dx, Dy, Dz]
        (vectorToCartesian .spherical 1 ⟨z, 1, x, y⟩ [aeval (x ^ 2 + y ^ 2 + z ^ 2) P, 0, 0])
      = aeval (x ^ 2 + y ^ 2 + z ^ 2) (3 * P + 2 * X * derivative P) ∧
    X ^ 2 * (3 * P + 2 * X * derivative P).comp (X ^ 2) = derivative (X ^ 2 * (X * P.comp (X ^ 2))) := by
  obtain ⟨hxx, hxy, hxz, hyx, hyy, hyz, hzx, hzy, hzz⟩ := h
  constructor
  · la_simp
    simp [cartDiv, Derivation.leibniz_pow, map_ofNat, hxx, hxy, hxz, hyx, hyy, hyz, hzx, hzy, hzz]
    ring
  · simp [derivative_comp, derivative_mul]
    ring

/-- **C19** `conversion_commutes_with_divergence_poly_partial` (polar and spherical grids together): the
Cartesian divergence of the converted polynomial field is the curvilinear divergence formula
evaluated at the radius of the point -/
theorem conversion_commutes_with_divergence_poly_partial (P Q : K[X]) :
    (∀ (Dx Dy : Derivation K A A) (x y : A), Coords2 Dx Dy x y →
      cartDiv [Dx, Dy]
          (vectorToCartesian .polar 1 ⟨0, 0, x, y⟩ [aeval (x ^ 2 + y ^ 2) P, aeval (x ^ 2 + y ^ 2) Q])
        = aeval (x ^ 2 + y ^ 2) (2 * P + 2 * X * derivative P)) ∧
    (∀ (Dx Dy Dz : Derivation K A A) (x y z : A), Coords3 Dx Dy Dz x y z →
      cartDiv [Dx, Dy, Dz]
          (vectorToCartesian .spherical 1 ⟨z, 1, x, y⟩ [aeval (x ^ 2 + y ^ 2 + z ^ 2) P, 0, 0])
        = aeval (x ^ 2 + y ^ 2 + z ^ 2) (3 * P + 2 * X * derivative P)) ∧
    X * (2 * P + 2 * X * derivative P).comp (X ^ 2) = derivative (X * (X * P.comp (X ^ 2))) ∧
    X ^ 2 * (3 * P + 2 * X * derivative P).comp (X ^ 2) = derivative (X ^ 2 * (X * P.comp (X ^ 2))) :=
  ⟨fun Dx Dy x y h => (conversion_commutes_with_divergence_poly_polar_partial Dx Dy x y h P Q).1,
   fun Dx Dy Dz x y z h => (conversion_commutes_with_divergence_poly_spherical_partial Dx Dy Dz x y z h P).1,
   by simp [derivative_comp, derivative_mul]; ring,
   by simp [derivative_comp, derivative_mul]; ring⟩

/-- cylindrical grids, contraction by axis name (NOT the conversion of this tree): the field with
components `(r P, S, r Q)` in the operators' order `(r, z, φ)`, `Q` axisymmetric, has the Cartesian
divergence `2 P + r ∂_r P + ∂_z S` = `(1/r) ∂_r (r f_r) + ∂_z f_z`, the divergence the cylindrical
operator discretises -/
theorem cyl_op_conversion_commutes_with_divergence_partial (Dx Dy Dz : Derivation K A A) (x y z : A)
    (h : Coords3 Dx Dy Dz x y z) (P S Q : A) (hQ : x * Dy Q - y * Dx Q = 0) :
    cartDiv [Dx, Dy, Dz] (vectorToCartesianOp .cylindrical 2 ⟨0, 0, x, y⟩ [P, S, Q])
      = 2 * P + (x * Dx P + y * Dy P) + Dz S := by
  obtain ⟨hxx, hxy, hxz, hyx, hyy, hyz, hzx, hzy, hzz⟩ := h
  la_simp
  simp [cartDiv, hxx, hxy, hxz, hyx, hyy, hyz, hzx, hzy, hzz]
  linear_combination hQ

/-- ... whereas the conversion of this tree turns the operators' `z`-component `S` into an
azimuthal one whose `z`-derivative is lost, and differentiates the azimuthal component `r Q`
along `z` instead: the Cartesian divergence is `2 P + r ∂_r P + ∂_z (r Q)`-like; stated for the
field `(0, S, 0)` with `S = z`: divergence `1` on the grid, `0` after conversion
(`(-y, x, 0) z / r` has no divergence; the unnormalised pair keeps the factor `1/r` out) -/
theorem cyl_conversion_loses_axial_divergence (Dx Dy Dz : Derivation K A A) (x y z : A)
    (h : Coords3 Dx Dy Dz x y z) :
    cartDiv [Dx, Dy, Dz] (vectorToCartesian .cylindrical 2 ⟨0, 0, x, y⟩ [0, z, 0]) = 0 ∧
    cartDiv [Dx, Dy, Dz] (vectorToCartesianOp .cylindrical 2 ⟨0, 0, x, y⟩ [0, z, 0]) = 1 := by
  obtain ⟨hxx, hxy, hxz, hyx, hyy, hyz, hzx, hzy, hzz⟩ := h
  constructor <;> la_simp <;> simp [cartDiv, hxx, hxy, hxz, hyx, hyy, hyz, hzx, hzy, hzz]

/-- **C19** conversion commutes with the gradient of a scalar, polar and spherical grids: the
grid gradient of `u = U(r^2)` is `(u', 0[, 0])` with `u' = 2 r U'(r^2)`; converted it equals the
Cartesian gradient of `U(x^2 + y^2 (+ z^2))` -/
theorem conversion_commutes_with_gradient_poly_partial (U : K[X]) :
    (∀ (Dx Dy : Derivation K A A) (x y : A), Coords2 Dx Dy x y →
      vectorToCartesian .polar 1 ⟨0, 0, x, y⟩ [aeval (x ^ 2 + y ^ 2) (2 * derivative U), 0]
        = cartGrad [Dx, Dy] (aeval (x ^ 2 + y ^ 2) U)) ∧
    (∀ (Dx Dy Dz : Derivation K A A) (x y z : A), Coords3 Dx Dy Dz x y z →
      vectorToCartesian .spherical 1 ⟨z, 1, x, y⟩ [aeval (x ^ 2 + y ^ 2 + z ^ 2) (2 * derivative U), 0, 0]
        = cartGrad [Dx, Dy, Dz] (aeval (x ^ 2 + y ^ 2 + z ^ 2) U)) := by
  constructor
  · rintro Dx Dy x y ⟨hxx, hxy, hyx, hyy⟩
    la_simp
    simp [cartGrad, Derivation.leibniz_pow, map_ofNat, hxx, hxy, hyx, hyy]
    constructor <;> ring
  · rintro Dx Dy Dz x y z ⟨hxx, hxy, hxz, hyx, hyy, hyz, hzx, hzy, hzz⟩
    la_simp
    simp [cartGrad, Derivation.leibniz_pow, map_ofNat, hxx, hxy, hxz, hyx, hyy, hyz, hzx, hzy, hzz]
    refine ⟨?_, ?_, ?_⟩ <;> ring

/-- non-vacuity: the polynomial ring in two variables with its partial derivatives satisfies the
hypotheses -/
theorem coords2_mvPolynomial :
    Coords2 (K := K) (MvPolynomial.pderiv (0 : Fin 2)) (MvPolynomial.pderiv (1 : Fin 2))
      (MvPolynomial.X 0) (MvPolynomial.X 1) := by
  constructor <;> simp [MvPolynomial.pderiv_X]

theorem coords3_mvPolynomial :
    Coords3 (K := K) (MvPolynomial.pderiv (0 : Fin 3)) (MvPolynomial.pderiv (1 : Fin 3))
      (MvPolynomial.pderiv (2 : Fin 3)) (MvPolynomial.X 0) (MvPolynomial.X 1) (MvPolynomial.X 2) := by
  constructor <;> simp [MvPolynomial.pderiv_X]

/-- the polar statement for genuine polynomial fields in `x, y` -/
theorem conversion_commutes_with_divergence_mvPolynomial_partial (P Q : K[X]) :
    let x : MvPolynomial (Fin 2) K := MvPolynomial.X 0
    let y : MvPolynomial (Fin 2) K := MvPolynomial.X 1
    cartDiv [MvPolynomial.pderiv 0, MvPolynomial.pderiv 1]
        (vectorToCartesian .polar 1 ⟨0, 0, x, y⟩ [aeval (x ^ 2 + y ^ 2) P, aeval (x ^ 2 + y ^ 2) Q])
      = aeval (x ^ 2 + y ^ 2) (2 * P + 2 * X * derivative P) :=
  (conversion_commutes_with_divergence_poly_polar_partial _ _ _ _ coords2_mvPolynomial P Q).1

end

/-! ### 9. non-vacuity: the hypotheses are satisfiable by concrete non-trivial points -/

/-- the point with `(cos θ, sin θ) = (5/13, 12/13)`, `(cos φ, sin φ) = (3/5, 4/5)` -/
def exAngles : Angles ℚ := ⟨5 / 13, 12 / 13, 3 / 5, 4 / 5⟩

theorem exAngles_wf : exAngles.WF := ⟨by norm_num [exAngles], by norm_num [exAngles]⟩

/-- the spherical basis at the example point, evaluated by the model -/
example : basis .spherical 1 exAngles =
    [[36 / 65, 48 / 65, 5 / 13], [3 / 13, 4 / 13, -12 / 13], [-4 / 5, 3 / 5, 0]] := by
  la_simp; norm_num [exAngles]

/-- the witness at the example point: the axial unit field `(0, 1, 0)` of a cylindrical grid is
converted to `(-4/5, 3/5, 0)`; the contraction by name gives `(0, 0, 1)` -/
example : vectorToCartesian .cylindrical 2 exAngles [0, 1, 0] = [-4 / 5, 3 / 5, 0] ∧
    vectorToCartesianOp .cylindrical 2 exAngles [0, 1, 0] = [0, 0, 1] := by
  constructor <;> la_simp <;> norm_num [exAngles]

/-- a non-trivial field on a polar grid: `(2, 1)` at the example point becomes `(2/5, 11/5)`, with
the same norm -/
example : vectorToCartesian .polar 1 exAngles [2, 1] = [2 / 5, 11 / 5] ∧
    dotVV (vectorToCartesian .polar 1 exAngles [2, 1]) (vectorToCartesian .polar 1 exAngles [2, 1]) = 5 := by
  constructor <;> la_simp <;> norm_num [exAngles]

/-- the bipolar hypotheses are satisfiable: `(cos σ, sin σ) = (3/5, 4/5)`, `(cosh τ, sinh τ) =
(5/4, 3/4)` -/
example : ((3 / 5 : ℚ)) ^ 2 + (4 / 5) ^ 2 = 1 ∧ ((5 / 4 : ℚ)) ^ 2 - (3 / 4) ^ 2 = 1 ∧ (3 / 5 : ℚ) - 5 / 4 ≠ 0 := by
  norm_num

/-- the hypotheses of the divergence statements hold for polynomials over `ℚ` -/
example : Coords2 (K := ℚ) (MvPolynomial.pderiv (0 : Fin 2)) (MvPolynomial.pderiv (1 : Fin 2))
    (MvPolynomial.X 0) (MvPolynomial.X 1) := coords2_mvPolynomial

/-! ### 10. `K = ℝ` with the real `cos`, `sin`: the pairs are genuine and the model's Jacobian is the
derivative of the model's `pos_to_cart` (which C12 ties to the code) -/

section
open Real

/-- the pairs of real angles satisfy the hypotheses of all statements above -/
theorem real_angles_wf (θ φ : ℝ) : (⟨cos θ, sin θ, cos φ, sin φ⟩ : Angles ℝ).WF :=
  ⟨by simp [cos_sq_add_sin_sq], by simp [cos_sq_add_sin_sq]⟩

/-- component `i` of a list-valued map / entry `(i, j)` of a matrix -/
def compAt (i : ℕ) (v : Vec ℝ) : ℝ := v.getD i 0
def entryAt (i j : ℕ) (m : Mat ℝ) : ℝ := (m.getD i []).getD j 0

/-- **C19** `mapping_jacobian` of polar coordinates is the derivative of `pos_to_cart`:
entry `(i, j)` is `∂x_i/∂q_j` -/
theorem polar_jacobian_hasDerivAt (r φ : ℝ) (i : ℕ) (hi : i < 2) :
    HasDerivAt (fun ρ => compAt i (polarToCart ρ (cos φ) (sin φ))) (entryAt i 0 (polarJac r (cos φ) (sin φ))) r ∧
    HasDerivAt (fun ψ => compAt i (polarToCart r (cos ψ) (sin ψ))) (entryAt i 1 (polarJac r (cos φ) (sin φ))) φ := by
  have h : i = 0 ∨ i = 1 := by omega
  rcases h with rfl | rfl <;> simp [compAt, entryAt, polarToCart, polarJac] <;> constructor
  · simpa using (hasDerivAt_id r).mul_const (cos φ)
  · simpa using (hasDerivAt_cos φ).const_mul r
  · simpa using (hasDerivAt_id r).mul_const (sin φ)
  · simpa using (hasDerivAt_sin φ).const_mul r

/-- **C19** the same for cylindrical coordinates `(r, φ, z)` -/
theorem cyl_jacobian_hasDerivAt (r φ z : ℝ) (i : ℕ) (hi : i < 3) :
    HasDerivAt (fun ρ => compAt i (cylToCart ρ (cos φ) (sin φ) z)) (entryAt i 0 (cylJac r (cos φ) (sin φ))) r ∧
    HasDerivAt (fun ψ => compAt i (cylToCart r (cos ψ) (sin ψ) z)) (entryAt i 1 (cylJac r (cos φ) (sin φ))) φ ∧
    HasDerivAt (fun ζ => compAt i (cylToCart r (cos φ) (sin φ) ζ)) (entryAt i 2 (cylJac r (cos φ) (sin φ))) z := by
  have h : i = 0 ∨ i = 1 ∨ i = 2 := by omega
  rcases h with rfl | rfl | rfl <;> simp [compAt, entryAt, cylToCart, cylJac, zero, one] <;> refine ⟨?_, ?_, ?_⟩
  · simpa using (hasDerivAt_id r).mul_const (cos φ)
  · simpa using (hasDerivAt_cos φ).const_mul r
  · exact hasDerivAt_const _ _
  · simpa using (hasDerivAt_id r).mul_const (sin φ)
  · simpa using (hasDerivAt_sin φ).const_mul r
  · exact hasDerivAt_const _ _
  · exact hasDerivAt_const _ _
  · exact hasDerivAt_const _ _
  · exact hasDerivAt_id z

/-- **C19** the same for spherical coordinates `(r, θ, φ)` -/
theorem sph_jacobian_hasDerivAt (r θ φ : ℝ) (i : ℕ) (hi : i < 3) :
    HasDerivAt (fun ρ => compAt i (sphToCart ρ (cos θ) (sin θ) (cos φ) (sin φ)))
      (entryAt i 0 (sphJac r (cos θ) (sin θ) (cos φ) (sin φ))) r ∧
    HasDerivAt (fun ϑ => compAt i (sphToCart r (cos ϑ) (sin ϑ) (cos φ) (sin φ)))
      (entryAt i 1 (sphJac r (cos θ) (sin θ) (cos φ) (sin φ))) θ ∧
    HasDerivAt (fun ψ => compAt i (sphToCart r (cos θ) (sin θ) (cos ψ) (sin ψ)))
      (entryAt i 2 (sphJac r (cos θ) (sin θ) (cos φ) (sin φ))) φ := by
  have h : i = 0 ∨ i = 1 ∨ i = 2 := by omega
  rcases h with rfl | rfl | rfl <;> simp [compAt, entryAt, sphToCart, sphJac, zero] <;> refine ⟨?_, ?_, ?_⟩
  · have := ((hasDerivAt_id r).mul_const (sin θ)).mul_const (cos φ)
    exact this.congr_deriv (by ring)
  · have := ((hasDerivAt_sin θ).const_mul r).mul_const (cos φ)
    exact this.congr_deriv (by ring)
  · have := (hasDerivAt_cos φ).const_mul (r * sin θ)
    exact this.congr_deriv (by ring)
  · have := ((hasDerivAt_id r).mul_const (sin θ)).mul_const (sin φ)
    exact this.congr_deriv (by ring)
  · have := ((hasDerivAt_sin θ).const_mul r).mul_const (sin φ)
    exact this.congr_deriv (by ring)
  · have := (hasDerivAt_sin φ).const_mul (r * sin θ)
    exact this.congr_deriv (by ring)
  · simpa using (hasDerivAt_id r).mul_const (cos θ)
  · have := (hasDerivAt_cos θ).const_mul r
    exact this.congr_deriv (by ring)
  · exact hasDerivAt_const _ _

end

/-! ### 11. conversion commutes with divergence and gradient: arbitrary differentiable fields (`K = ℝ`)

The fields of the symmetric grids are functions of the radius (and of `z` on cylindrical grids).  For ANY
differentiable component profiles - in particular the polynomials `c + a r + b r^2 (+ e z)` the harness uses -
the Cartesian components of the converted field are differentiated along `x`, `y` (, `z`) with Mathlib's
`HasDerivAt`, the point being off the axis (`0 < x^2 + y^2`).  The angles handed to the model of
`_vector_to_cartesian` are the genuine `(cos, sin)` pairs of the point: `(x/ρ, y/ρ)` and `(z/r, ρ/r)`.
Each divergence statement has the form "there are `a, b(, c)` which ARE the partial derivatives (derivatives are
unique) and whose sum is the curvilinear divergence formula".

* polar, spherical: the conversion of the code commutes with divergence and gradient
  (`polar/spherical_conversion_commutes_with_divergence_real`, `..._gradient_real`);
* cylindrical: the contraction by axis name commutes (`cyl_op_conversion_commutes_with_divergence_real`,
  `cyl_op_conversion_commutes_with_gradient_real`); the conversion of the code gives the divergence of the
  field with the components at positions 1 and 2 exchanged (`cyl_conversion_divergence_real`, finding F7).

Still outside: the gradient of a VECTOR field (tensor conversion is not implemented in py-pde), the discrete
operators (C01) and the interpolation (C16): the harness measures the discretisation error. -/

section
open Real

/-- derivative of the radius `√(t² + c)` along one Cartesian coordinate -/
theorem hasDerivAt_radius (x c : ℝ) (h : 0 < x ^ 2 + c) :
    HasDerivAt (fun t : ℝ => √(t ^ 2 + c)) (x / √(x ^ 2 + c)) x := by
  have h1 : HasDerivAt (fun t : ℝ => t ^ 2 + c) (2 * x) x := by
    simpa using ((hasDerivAt_pow 2 x).add_const c)
  have h2 := h1.sqrt (ne_of_gt h)
  refine h2.congr_deriv ?_
  have : √(x ^ 2 + c) ≠ 0 := (Real.sqrt_pos.mpr h).ne'
  field_simp

/-- `F(r) · x/r` along `x`, `r = √(x² + c)` -/
theorem hasDerivAt_radial_comp (F : ℝ → ℝ) (F' x c : ℝ) (h : 0 < x ^ 2 + c)
    (hF : HasDerivAt F F' √(x ^ 2 + c)) :
    HasDerivAt (fun t : ℝ => F √(t ^ 2 + c) * (t / √(t ^ 2 + c)))
      (F' * (x / √(x ^ 2 + c)) ^ 2 + F √(x ^ 2 + c) * (c / √(x ^ 2 + c) ^ 3)) x := by
  have hr := hasDerivAt_radius x c h
  have hne : √(x ^ 2 + c) ≠ 0 := (Real.sqrt_pos.mpr h).ne'
  have hsq : √(x ^ 2 + c) ^ 2 = x ^ 2 + c := Real.sq_sqrt h.le
  have h1 : HasDerivAt (fun t : ℝ => F √(t ^ 2 + c)) (F' * (x / √(x ^ 2 + c))) x := hF.comp x hr
  have h2 : HasDerivAt (fun t : ℝ => t / √(t ^ 2 + c))
      ((1 * √(x ^ 2 + c) - x * (x / √(x ^ 2 + c))) / √(x ^ 2 + c) ^ 2) x := (hasDerivAt_id' x).div hr hne
  refine (h1.mul h2).congr_deriv ?_
  field_simp
  linear_combination (F √(x ^ 2 + c)) * hsq

/-- `G(r) · k/r` along `x` (`k` constant) -/
theorem hasDerivAt_radial_cross (G : ℝ → ℝ) (G' x c k : ℝ) (h : 0 < x ^ 2 + c)
    (hG : HasDerivAt G G' √(x ^ 2 + c)) :
    HasDerivAt (fun t : ℝ => G √(t ^ 2 + c) * (k / √(t ^ 2 + c)))
      (G' * (x / √(x ^ 2 + c)) * (k / √(x ^ 2 + c)) - G √(x ^ 2 + c) * (k * x / √(x ^ 2 + c) ^ 3)) x := by
  have hr := hasDerivAt_radius x c h
  have hne : √(x ^ 2 + c) ≠ 0 := (Real.sqrt_pos.mpr h).ne'
  have h1 : HasDerivAt (fun t : ℝ => G √(t ^ 2 + c)) (G' * (x / √(x ^ 2 + c))) x := hG.comp x hr
  have h2 : HasDerivAt (fun t : ℝ => k / √(t ^ 2 + c))
      ((0 * √(x ^ 2 + c) - k * (x / √(x ^ 2 + c))) / √(x ^ 2 + c) ^ 2) x := (hasDerivAt_const x k).div hr hne
  refine (h1.mul h2).congr_deriv ?_
  field_simp
  ring

/-- `G(r) · k/ρ` along `x` with two radii `r = √(x² + c)`, `ρ = √(x² + c')` (`k` constant) -/
theorem hasDerivAt_radial_cross2 (G : ℝ → ℝ) (G' x c c' k : ℝ) (h : 0 < x ^ 2 + c) (h' : 0 < x ^ 2 + c')
    (hG : HasDerivAt G G' √(x ^ 2 + c)) :
    HasDerivAt (fun t : ℝ => G √(t ^ 2 + c) * (k / √(t ^ 2 + c')))
      (G' * (x / √(x ^ 2 + c)) * (k / √(x ^ 2 + c')) - G √(x ^ 2 + c) * (k * x / √(x ^ 2 + c') ^ 3)) x := by
  have hr := hasDerivAt_radius x c h
  have hr' := hasDerivAt_radius x c' h'
  have hne : √(x ^ 2 + c) ≠ 0 := (Real.sqrt_pos.mpr h).ne'
  have hne' : √(x ^ 2 + c') ≠ 0 := (Real.sqrt_pos.mpr h').ne'
  have h1 : HasDerivAt (fun t : ℝ => G √(t ^ 2 + c)) (G' * (x / √(x ^ 2 + c))) x := hG.comp x hr
  have h2 : HasDerivAt (fun t : ℝ => k / √(t ^ 2 + c'))
      ((0 * √(x ^ 2 + c') - k * (x / √(x ^ 2 + c'))) / √(x ^ 2 + c') ^ 2) x := (hasDerivAt_const x k).div hr' hne'
  refine (h1.mul h2).congr_deriv ?_
  field_simp
  ring

/-- the polar field with radial profiles `f_r = F(r)`, `f_φ = G(r)` converted by the model of
`_vector_to_cartesian` at the Cartesian point `(x, y)`: `(cos φ, sin φ) = (x/r, y/r)` -/
noncomputable def polarFieldCart (F G : ℝ → ℝ) (x y : ℝ) : Vec ℝ :=
  vectorToCartesian .polar 1 ⟨0, 0, x / √(x ^ 2 + y ^ 2), y / √(x ^ 2 + y ^ 2)⟩
    [F √(x ^ 2 + y ^ 2), G √(x ^ 2 + y ^ 2)]

theorem polarFieldCart_eq (F G : ℝ → ℝ) (x y : ℝ) :
    polarFieldCart F G x y =
      [F √(x ^ 2 + y ^ 2) * (x / √(x ^ 2 + y ^ 2)) + G √(x ^ 2 + y ^ 2) * -(y / √(x ^ 2 + y ^ 2)),
       F √(x ^ 2 + y ^ 2) * (y / √(x ^ 2 + y ^ 2)) + G √(x ^ 2 + y ^ 2) * (x / √(x ^ 2 + y ^ 2))] := by
  simp [polarFieldCart, vectorToCartesian, basis, polarBasis, vecMat, addV, smulV]

theorem polar_conversion_commutes_with_divergence_real (F G : ℝ → ℝ) (F' G' x y : ℝ)
    (h : 0 < x ^ 2 + y ^ 2) (hF : HasDerivAt F F' √(x ^ 2 + y ^ 2)) (hG : HasDerivAt G G' √(x ^ 2 + y ^ 2)) :
    ∃ a b, HasDerivAt (fun t => compAt 0 (polarFieldCart F G t y)) a x ∧
      HasDerivAt (fun t => compAt 1 (polarFieldCart F G x t)) b y ∧
      a + b = F' + F √(x ^ 2 + y ^ 2) / √(x ^ 2 + y ^ 2) := by
  have h' : 0 < y ^ 2 + x ^ 2 := by rwa [add_comm]
  have e : y ^ 2 + x ^ 2 = x ^ 2 + y ^ 2 := add_comm _ _
  have hne : √(x ^ 2 + y ^ 2) ≠ 0 := (Real.sqrt_pos.mpr h).ne'
  have hsq : √(x ^ 2 + y ^ 2) ^ 2 = x ^ 2 + y ^ 2 := Real.sq_sqrt h.le
  have ax := (hasDerivAt_radial_comp F F' x (y ^ 2) h hF).add
    (hasDerivAt_radial_cross G G' x (y ^ 2) y h hG).neg
  have by_ := (hasDerivAt_radial_comp F F' y (x ^ 2) h' (by rwa [e])).add
    (hasDerivAt_radial_cross G G' y (x ^ 2) x h' (by rwa [e]))
  refine ⟨_, _, ax.congr_of_eventuallyEq (Filter.Eventually.of_forall fun t => ?_),
    by_.congr_of_eventuallyEq (Filter.Eventually.of_forall fun t => ?_), ?_⟩
  · simp [compAt, polarFieldCart_eq]
  · simp [compAt, polarFieldCart_eq, add_comm (x ^ 2) (t ^ 2)]
  · rw [e]
    field_simp
    linear_combination (-(F' * √(x ^ 2 + y ^ 2) + F √(x ^ 2 + y ^ 2))) * hsq

/-- conversion commutes with the gradient (polar grids, any differentiable radial profile `U`): the grid
gradient `(U'(r), 0)` of `u = U(r)`, converted by the model of `_vector_to_cartesian`, consists of the
partial derivatives of `(x, y) ↦ U(√(x² + y²))` -/
theorem polar_conversion_commutes_with_gradient_real (U : ℝ → ℝ) (U' x y : ℝ) (h : 0 < x ^ 2 + y ^ 2)
    (hU : HasDerivAt U U' √(x ^ 2 + y ^ 2)) :
    HasDerivAt (fun t => U √(t ^ 2 + y ^ 2))
      (compAt 0 (vectorToCartesian .polar 1 ⟨0, 0, x / √(x ^ 2 + y ^ 2), y / √(x ^ 2 + y ^ 2)⟩ [U', 0])) x ∧
    HasDerivAt (fun t => U √(x ^ 2 + t ^ 2))
      (compAt 1 (vectorToCartesian .polar 1 ⟨0, 0, x / √(x ^ 2 + y ^ 2), y / √(x ^ 2 + y ^ 2)⟩ [U', 0])) y := by
  have h' : 0 < y ^ 2 + x ^ 2 := by rwa [add_comm]
  have e : y ^ 2 + x ^ 2 = x ^ 2 + y ^ 2 := add_comm _ _
  constructor
  · refine (hU.comp x (hasDerivAt_radius x (y ^ 2) h)).congr_deriv ?_
    simp [compAt, vectorToCartesian, basis, polarBasis, vecMat, addV, smulV]
  · have hU' : HasDerivAt U U' √(y ^ 2 + x ^ 2) := by rwa [e]
    have := hU'.comp y (hasDerivAt_radius y (x ^ 2) h')
    refine (this.congr_of_eventuallyEq (Filter.Eventually.of_forall fun t => ?_)).congr_deriv ?_
    · simp [add_comm (x ^ 2) (t ^ 2)]
    · simp [compAt, vectorToCartesian, basis, polarBasis, vecMat, addV, smulV, e]

/-- a field on a cylindrical grid with components `F, S, G : (ρ, z) ↦ ℝ` at the positions 0, 1, 2, converted
to Cartesian components at `(x, y, z)` (`(cos φ, sin φ) = (x/ρ, y/ρ)`) as the code does
(`vectorToCartesian`: positions read as `(r, φ, z)`) -/
noncomputable def cylFieldCart (F S G : ℝ → ℝ → ℝ) (x y z : ℝ) : Vec ℝ :=
  vectorToCartesian .cylindrical 2 ⟨0, 0, x / √(x ^ 2 + y ^ 2), y / √(x ^ 2 + y ^ 2)⟩
    [F √(x ^ 2 + y ^ 2) z, S √(x ^ 2 + y ^ 2) z, G √(x ^ 2 + y ^ 2) z]

/-- ... and by axis name (`vectorToCartesianOp`: positions read as `(r, z, φ)`, the operators' order) -/
noncomputable def cylFieldCartOp (F S G : ℝ → ℝ → ℝ) (x y z : ℝ) : Vec ℝ :=
  vectorToCartesianOp .cylindrical 2 ⟨0, 0, x / √(x ^ 2 + y ^ 2), y / √(x ^ 2 + y ^ 2)⟩
    [F √(x ^ 2 + y ^ 2) z, S √(x ^ 2 + y ^ 2) z, G √(x ^ 2 + y ^ 2) z]

theorem cylFieldCart_eq (F S G : ℝ → ℝ → ℝ) (x y z : ℝ) :
    cylFieldCart F S G x y z =
      [F √(x ^ 2 + y ^ 2) z * (x / √(x ^ 2 + y ^ 2)) + S √(x ^ 2 + y ^ 2) z * -(y / √(x ^ 2 + y ^ 2)),
       F √(x ^ 2 + y ^ 2) z * (y / √(x ^ 2 + y ^ 2)) + S √(x ^ 2 + y ^ 2) z * (x / √(x ^ 2 + y ^ 2)),
       G √(x ^ 2 + y ^ 2) z] ∧
    cylFieldCartOp F S G x y z = cylFieldCart F G S x y z := by
  constructor <;>
  simp [cylFieldCart, cylFieldCartOp, vectorToCartesian, vectorToCartesianOp, basisOp, basis, cylBasis, vecMat,
    addV, smulV, zero, one, componentOrder, gridAxes, gridAxesSym, describedIdx, symIdx, csAxes, csIndex, indexOf?,
    List.range, List.range.loop]

/-- the divergence after the conversion the code performs: `∂_ρ F + F/ρ + ∂_z G` - the `z`-derivative is
taken of the component at position 2, although the cylindrical divergence operator differentiates the
component at position 1 along `z` (finding F7) -/
theorem cyl_conversion_divergence_real (F S G : ℝ → ℝ → ℝ) (Fρ Sρ Gz x y z : ℝ) (h : 0 < x ^ 2 + y ^ 2)
    (hF : HasDerivAt (fun s => F s z) Fρ √(x ^ 2 + y ^ 2))
    (hS : HasDerivAt (fun s => S s z) Sρ √(x ^ 2 + y ^ 2))
    (hG : HasDerivAt (fun t => G √(x ^ 2 + y ^ 2) t) Gz z) :
    ∃ a b c, HasDerivAt (fun t => compAt 0 (cylFieldCart F S G t y z)) a x ∧
      HasDerivAt (fun t => compAt 1 (cylFieldCart F S G x t z)) b y ∧
      HasDerivAt (fun t => compAt 2 (cylFieldCart F S G x y t)) c z ∧
      a + b + c = Fρ + F √(x ^ 2 + y ^ 2) z / √(x ^ 2 + y ^ 2) + Gz := by
  obtain ⟨a, b, ha, hb, hab⟩ := polar_conversion_commutes_with_divergence_real (fun s => F s z) (fun s => S s z)
    Fρ Sρ x y h hF hS
  refine ⟨a, b, Gz, ha.congr_of_eventuallyEq (Filter.Eventually.of_forall fun t => ?_),
    hb.congr_of_eventuallyEq (Filter.Eventually.of_forall fun t => ?_),
    hG.congr_of_eventuallyEq (Filter.Eventually.of_forall fun t => ?_), by rw [hab]⟩ <;>
  simp [compAt, (cylFieldCart_eq _ _ _ _ _ _).1, polarFieldCart_eq]

/-- **conversion commutes with the divergence on cylindrical grids for the contraction by axis name**
(arbitrary differentiable components, in the operators' order `(f_r, f_z, f_φ) = (F, S, G)`): the Cartesian
divergence of the converted field is `∂_ρ f_r + f_r/ρ + ∂_z f_z`, the cylindrical divergence -/
theorem cyl_op_conversion_commutes_with_divergence_real (F S G : ℝ → ℝ → ℝ) (Fρ Gρ Sz x y z : ℝ)
    (h : 0 < x ^ 2 + y ^ 2)
    (hF : HasDerivAt (fun s => F s z) Fρ √(x ^ 2 + y ^ 2))
    (hG : HasDerivAt (fun s => G s z) Gρ √(x ^ 2 + y ^ 2))
    (hS : HasDerivAt (fun t => S √(x ^ 2 + y ^ 2) t) Sz z) :
    ∃ a b c, HasDerivAt (fun t => compAt 0 (cylFieldCartOp F S G t y z)) a x ∧
      HasDerivAt (fun t => compAt 1 (cylFieldCartOp F S G x t z)) b y ∧
      HasDerivAt (fun t => compAt 2 (cylFieldCartOp F S G x y t)) c z ∧
      a + b + c = Fρ + F √(x ^ 2 + y ^ 2) z / √(x ^ 2 + y ^ 2) + Sz := by
  simp only [(cylFieldCart_eq _ _ _ _ _ _).2]
  exact cyl_conversion_divergence_real F G S Fρ Gρ Sz x y z h hF hG hS

/-- conversion commutes with the gradient on cylindrical grids for the contraction by axis name: the grid
gradient `(∂_ρ u, ∂_z u, 0)` (operators' order) of `u = U(ρ, z)` is converted to the partial derivatives of
`(x, y, z) ↦ U(√(x² + y²), z)` -/
theorem cyl_op_conversion_commutes_with_gradient_real (U : ℝ → ℝ → ℝ) (Uρ Uz x y z : ℝ) (h : 0 < x ^ 2 + y ^ 2)
    (hρ : HasDerivAt (fun s => U s z) Uρ √(x ^ 2 + y ^ 2))
    (hz : HasDerivAt (fun t => U √(x ^ 2 + y ^ 2) t) Uz z) :
    let v := vectorToCartesianOp .cylindrical 2 ⟨0, 0, x / √(x ^ 2 + y ^ 2), y / √(x ^ 2 + y ^ 2)⟩ [Uρ, Uz, 0]
    HasDerivAt (fun t => U √(t ^ 2 + y ^ 2) z) (compAt 0 v) x ∧
    HasDerivAt (fun t => U √(x ^ 2 + t ^ 2) z) (compAt 1 v) y ∧
    HasDerivAt (fun t => U √(x ^ 2 + y ^ 2) t) (compAt 2 v) z := by
  intro v
  have hv : v = [Uρ * (x / √(x ^ 2 + y ^ 2)), Uρ * (y / √(x ^ 2 + y ^ 2)), Uz] := by
    simp [v, vectorToCartesianOp, basisOp, basis, cylBasis, vecMat, addV, smulV, zero, one, componentOrder,
      gridAxes, gridAxesSym, describedIdx, symIdx, csAxes, csIndex, indexOf?, List.range, List.range.loop]
  have hp := polar_conversion_commutes_with_gradient_real (fun s => U s z) Uρ x y h hρ
  refine ⟨hp.1.congr_deriv ?_, hp.2.congr_deriv ?_, hz.congr_deriv ?_⟩ <;>
  simp [hv, compAt, vectorToCartesian, basis, polarBasis, vecMat, addV, smulV]

/-- the spherical field `F(r) e_r + G(r) e_φ` (the fields the divergence operator of `SphericalSymGrid` admits:
no `θ`-component) converted by the model of `_vector_to_cartesian` at the Cartesian point `(x, y, z)`:
`(cos θ, sin θ) = (z/r, ρ/r)`, `(cos φ, sin φ) = (x/ρ, y/ρ)`, `ρ = √(x² + y²)` -/
noncomputable def sphFieldCart (F G : ℝ → ℝ) (x y z : ℝ) : Vec ℝ :=
  vectorToCartesian .spherical 1
    ⟨z / √(x ^ 2 + y ^ 2 + z ^ 2), √(x ^ 2 + y ^ 2) / √(x ^ 2 + y ^ 2 + z ^ 2),
     x / √(x ^ 2 + y ^ 2), y / √(x ^ 2 + y ^ 2)⟩
    [F √(x ^ 2 + y ^ 2 + z ^ 2), 0, G √(x ^ 2 + y ^ 2 + z ^ 2)]

/-- off the polar axis the converted field is `F(r) (x, y, z)/r + G(r) (-y, x, 0)/ρ` -/
theorem sphFieldCart_eq (F G : ℝ → ℝ) (x y z : ℝ) (h : 0 < x ^ 2 + y ^ 2) :
    sphFieldCart F G x y z =
      [F √(x ^ 2 + y ^ 2 + z ^ 2) * (x / √(x ^ 2 + y ^ 2 + z ^ 2)) +
         -(G √(x ^ 2 + y ^ 2 + z ^ 2) * (y / √(x ^ 2 + y ^ 2))),
       F √(x ^ 2 + y ^ 2 + z ^ 2) * (y / √(x ^ 2 + y ^ 2 + z ^ 2)) +
         G √(x ^ 2 + y ^ 2 + z ^ 2) * (x / √(x ^ 2 + y ^ 2)),
       F √(x ^ 2 + y ^ 2 + z ^ 2) * (z / √(x ^ 2 + y ^ 2 + z ^ 2))] := by
  have hne : √(x ^ 2 + y ^ 2) ≠ 0 := (Real.sqrt_pos.mpr h).ne'
  simp [sphFieldCart, vectorToCartesian, basis, sphBasis, vecMat, addV, smulV, zero]
  refine ⟨?_, ?_⟩ <;> left <;> field_simp

/-- **conversion commutes with the divergence on spherical grids** (any differentiable profiles `f_r = F(r)`,
`f_φ = G(r)`, `f_θ = 0`): the Cartesian divergence of the converted field is `F'(r) + 2 F(r)/r`, the value of
the spherical divergence `(1/r²) d(r² f_r)/dr` (the azimuthal component does not contribute), at every point
off the polar axis -/
theorem spherical_conversion_commutes_with_divergence_real (F G : ℝ → ℝ) (F' G' x y z : ℝ)
    (h : 0 < x ^ 2 + y ^ 2) (hF : HasDerivAt F F' √(x ^ 2 + y ^ 2 + z ^ 2))
    (hG : HasDerivAt G G' √(x ^ 2 + y ^ 2 + z ^ 2)) :
    ∃ a b c, HasDerivAt (fun t => compAt 0 (sphFieldCart F G t y z)) a x ∧
      HasDerivAt (fun t => compAt 1 (sphFieldCart F G x t z)) b y ∧
      HasDerivAt (fun t => compAt 2 (sphFieldCart F G x y t)) c z ∧
      a + b + c = F' + 2 * F √(x ^ 2 + y ^ 2 + z ^ 2) / √(x ^ 2 + y ^ 2 + z ^ 2) := by
  have hz2 : 0 ≤ z ^ 2 := sq_nonneg z
  have h3 : 0 < x ^ 2 + y ^ 2 + z ^ 2 := by linarith
  have h' : 0 < y ^ 2 + x ^ 2 := by rwa [add_comm]
  have e0 : y ^ 2 + x ^ 2 = x ^ 2 + y ^ 2 := add_comm _ _
  have e1 : x ^ 2 + (y ^ 2 + z ^ 2) = x ^ 2 + y ^ 2 + z ^ 2 := by ring
  have e2 : y ^ 2 + (x ^ 2 + z ^ 2) = x ^ 2 + y ^ 2 + z ^ 2 := by ring
  have e3 : z ^ 2 + (x ^ 2 + y ^ 2) = x ^ 2 + y ^ 2 + z ^ 2 := by ring
  have hne : √(x ^ 2 + y ^ 2 + z ^ 2) ≠ 0 := (Real.sqrt_pos.mpr h3).ne'
  have hne2 : √(x ^ 2 + y ^ 2) ≠ 0 := (Real.sqrt_pos.mpr h).ne'
  have hsq : √(x ^ 2 + y ^ 2 + z ^ 2) ^ 2 = x ^ 2 + y ^ 2 + z ^ 2 := Real.sq_sqrt h3.le
  have dx := (hasDerivAt_radial_comp F F' x (y ^ 2 + z ^ 2) (by rwa [e1]) (by rwa [e1])).add
    (hasDerivAt_radial_cross2 G G' x (y ^ 2 + z ^ 2) (y ^ 2) y (by rwa [e1]) h (by rwa [e1])).neg
  have dy := (hasDerivAt_radial_comp F F' y (x ^ 2 + z ^ 2) (by rwa [e2]) (by rwa [e2])).add
    (hasDerivAt_radial_cross2 G G' y (x ^ 2 + z ^ 2) (x ^ 2) x (by rwa [e2]) h' (by rwa [e2]))
  have dz := hasDerivAt_radial_comp F F' z (x ^ 2 + y ^ 2) (by rwa [e3]) (by rwa [e3])
  have nx : ∀ᶠ t in nhds x, 0 < t ^ 2 + y ^ 2 :=
    ContinuousAt.eventually_lt continuousAt_const (by fun_prop) h
  have ny : ∀ᶠ t in nhds y, 0 < x ^ 2 + t ^ 2 :=
    ContinuousAt.eventually_lt continuousAt_const (by fun_prop) h
  refine ⟨_, _, _, dx.congr_of_eventuallyEq (nx.mono fun t ht => ?_),
    dy.congr_of_eventuallyEq (ny.mono fun t ht => ?_),
    dz.congr_of_eventuallyEq (Filter.Eventually.of_forall fun t => ?_), ?_⟩
  · simp [compAt, sphFieldCart_eq F G t y z ht, add_assoc]
  · simp [compAt, sphFieldCart_eq F G x t z ht, add_comm (x ^ 2) (t ^ 2), add_assoc]
  · simp [compAt, sphFieldCart_eq F G x y t h, show x ^ 2 + y ^ 2 + t ^ 2 = t ^ 2 + (x ^ 2 + y ^ 2) by ring]
  · rw [e0, e1, e2, e3]
    have key : F' * (x / √(x ^ 2 + y ^ 2 + z ^ 2)) ^ 2 +
          F √(x ^ 2 + y ^ 2 + z ^ 2) * ((y ^ 2 + z ^ 2) / √(x ^ 2 + y ^ 2 + z ^ 2) ^ 3) +
        (F' * (y / √(x ^ 2 + y ^ 2 + z ^ 2)) ^ 2 +
          F √(x ^ 2 + y ^ 2 + z ^ 2) * ((x ^ 2 + z ^ 2) / √(x ^ 2 + y ^ 2 + z ^ 2) ^ 3)) +
        (F' * (z / √(x ^ 2 + y ^ 2 + z ^ 2)) ^ 2 +
          F √(x ^ 2 + y ^ 2 + z ^ 2) * ((x ^ 2 + y ^ 2) / √(x ^ 2 + y ^ 2 + z ^ 2) ^ 3)) =
        F' + 2 * F √(x ^ 2 + y ^ 2 + z ^ 2) / √(x ^ 2 + y ^ 2 + z ^ 2) := by
      field_simp
      linear_combination (-(F' * √(x ^ 2 + y ^ 2 + z ^ 2) + 2 * F √(x ^ 2 + y ^ 2 + z ^ 2))) * hsq
    linear_combination key

/-- conversion commutes with the gradient on spherical grids: the grid gradient `(U'(r), 0, 0)` of `u = U(r)`,
converted by the model of `_vector_to_cartesian`, consists of the partial derivatives of
`(x, y, z) ↦ U(√(x² + y² + z²))` (off the polar axis) -/
theorem spherical_conversion_commutes_with_gradient_real (U : ℝ → ℝ) (U' x y z : ℝ) (h : 0 < x ^ 2 + y ^ 2)
    (hU : HasDerivAt U U' √(x ^ 2 + y ^ 2 + z ^ 2)) :
    let v := sphFieldCart (fun _ => U') (fun _ => 0) x y z
    HasDerivAt (fun t => U √(t ^ 2 + y ^ 2 + z ^ 2)) (compAt 0 v) x ∧
    HasDerivAt (fun t => U √(x ^ 2 + t ^ 2 + z ^ 2)) (compAt 1 v) y ∧
    HasDerivAt (fun t => U √(x ^ 2 + y ^ 2 + t ^ 2)) (compAt 2 v) z := by
  intro v
  have hz2 : 0 ≤ z ^ 2 := sq_nonneg z
  have h3 : 0 < x ^ 2 + y ^ 2 + z ^ 2 := by linarith
  have e1 : x ^ 2 + (y ^ 2 + z ^ 2) = x ^ 2 + y ^ 2 + z ^ 2 := by ring
  have e2 : y ^ 2 + (x ^ 2 + z ^ 2) = x ^ 2 + y ^ 2 + z ^ 2 := by ring
  have e3 : z ^ 2 + (x ^ 2 + y ^ 2) = x ^ 2 + y ^ 2 + z ^ 2 := by ring
  have dx := (show HasDerivAt U U' √(x ^ 2 + (y ^ 2 + z ^ 2)) by rwa [e1]).comp x
    (hasDerivAt_radius x (y ^ 2 + z ^ 2) (by rwa [e1]))
  have dy := (show HasDerivAt U U' √(y ^ 2 + (x ^ 2 + z ^ 2)) by rwa [e2]).comp y
    (hasDerivAt_radius y (x ^ 2 + z ^ 2) (by rwa [e2]))
  have dz := (show HasDerivAt U U' √(z ^ 2 + (x ^ 2 + y ^ 2)) by rwa [e3]).comp z
    (hasDerivAt_radius z (x ^ 2 + y ^ 2) (by rwa [e3]))
  refine ⟨(dx.congr_of_eventuallyEq (Filter.Eventually.of_forall fun t => ?_)).congr_deriv ?_,
    (dy.congr_of_eventuallyEq (Filter.Eventually.of_forall fun t => ?_)).congr_deriv ?_,
    (dz.congr_of_eventuallyEq (Filter.Eventually.of_forall fun t => ?_)).congr_deriv ?_⟩
  · simp [add_assoc]
  · simp [v, compAt, sphFieldCart_eq _ _ x y z h, e1]
  · simp [show x ^ 2 + t ^ 2 + z ^ 2 = t ^ 2 + (x ^ 2 + z ^ 2) by ring]
  · simp [v, compAt, sphFieldCart_eq _ _ x y z h, e2]
  · simp [show x ^ 2 + y ^ 2 + t ^ 2 = t ^ 2 + (x ^ 2 + y ^ 2) by ring]
  · simp [v, compAt, sphFieldCart_eq _ _ x y z h, e3]

/-- the hypotheses are satisfiable by the fields the harness uses: `f_r = 1 + 2 r + 3 r^2`, `f_φ = 2 - r` at the
point `(3, 4)` (`r = 5`): the Cartesian divergence of the converted field is `f_r' + f_r/r = 32 + 86/5` -/
example : ∃ a b : ℝ,
    HasDerivAt (fun t => compAt 0 (polarFieldCart (fun r => 1 + 2 * r + 3 * r ^ 2) (fun r => 2 - r) t 4)) a 3 ∧
    HasDerivAt (fun t => compAt 1 (polarFieldCart (fun r => 1 + 2 * r + 3 * r ^ 2) (fun r => 2 - r) 3 t)) b 4 ∧
    a + b = (2 + 6 * √(3 ^ 2 + 4 ^ 2)) +
      (1 + 2 * √(3 ^ 2 + 4 ^ 2) + 3 * √(3 ^ 2 + 4 ^ 2) ^ 2) / √(3 ^ 2 + 4 ^ 2) := by
  refine polar_conversion_commutes_with_divergence_real _ _ _ (-1) 3 4 (by norm_num) ?_ ?_
  · have h := ((hasDerivAt_id' √((3:ℝ) ^ 2 + 4 ^ 2)).const_mul 2).const_add 1 |>.add
      (((hasDerivAt_pow 2 √((3:ℝ) ^ 2 + 4 ^ 2))).const_mul 3)
    refine h.congr_deriv ?_
    norm_num
    ring
  · simpa using (hasDerivAt_id' √((3:ℝ) ^ 2 + 4 ^ 2)).const_sub 2

end

end PdeVerif.Coords
