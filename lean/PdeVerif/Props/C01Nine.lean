import PdeVerif.Model.Stencil
import PdeVerif.Model.Conserve
import PdeVerif.Props.C05
import Mathlib.Tactic.FieldSimp
import Mathlib.Tactic.Ring
import Mathlib.Tactic.NormNum
import Mathlib.Tactic.IntervalCases
/-
C01 / C05 (continued) - the documented 9-point variants of the 2-d Cartesian Laplacian (`corner_weight ≠ 0`).
* the corner-point setter does what its three branches document (`withCorners_*`; the periodic-y branch is the
  one repaired by fix a7bb703: two of its four assignments copied from the wrong cells),
* the stencil is the 5-point Laplacian for `w = 0`, splits into `(1-w)` times the 5-point Laplacian plus the
  diagonal part, is exact on cubic polynomials for isotropic spacings (second-order consistent) and is NOT
  consistent for `dx ≠ dy` (the code warns about this; witness),
* with conserving ghost cells INCLUDING the corner points the volume-weighted sum vanishes for every `n × m`,
  every spacing and every weight (`stencil9_integral_zero`), and the corner-point setter establishes the corner
  relations in each of its branches (`cartLaplace9_integral_zero_*`).
-/
namespace PdeVerif.Stencil
open PdeVerif PdeVerif.Conserve

variable {K : Type} [Field K] [CharZero K]

/-! ### the corner-point setter -/

theorem withCorners_inner (px py : Bool) (nx ny : Nat) (a : Arr K) (i j : Int)
    (h : ¬ ((i = 0 ∨ i = (nx:Int) + 1) ∧ (j = 0 ∨ j = (ny:Int) + 1))) :
    withCorners px py nx ny a [i, j] = a [i, j] := by
  simp only [withCorners]
  split_ifs with h1 h2 h3 h4 <;> first | rfl | (exfalso; apply h; omega)

/-- periodic x-axis: the corners are the periodic images along x of the (already set) ghost cells of the y-faces -/
theorem withCorners_periodic_x (py : Bool) (nx ny : Nat) (a : Arr K) :
    withCorners true py nx ny a [0, 0] = a [(nx:Int), 0]
    ∧ withCorners true py nx ny a [(nx:Int) + 1, 0] = a [1, 0]
    ∧ withCorners true py nx ny a [0, (ny:Int) + 1] = a [(nx:Int), (ny:Int) + 1]
    ∧ withCorners true py nx ny a [(nx:Int) + 1, (ny:Int) + 1] = a [1, (ny:Int) + 1] := by
  have hx : ¬ ((nx:Int) + 1 = 0) := by omega
  have hy : ¬ ((ny:Int) + 1 = 0) := by omega
  have hx' : ¬ ((0:Int) = (nx:Int) + 1) := by omega
  have hy' : ¬ ((0:Int) = (ny:Int) + 1) := by omega
  refine ⟨?_, ?_, ?_, ?_⟩ <;> simp [withCorners, cornerValue, hx, hy, hx', hy']

/-- only the y-axis periodic: the corners are the periodic images along y of the ghost cells of the x-faces
(the branch repaired by fix a7bb703) -/
theorem withCorners_periodic_y (nx ny : Nat) (a : Arr K) :
    withCorners false true nx ny a [0, 0] = a [0, (ny:Int)]
    ∧ withCorners false true nx ny a [(nx:Int) + 1, 0] = a [(nx:Int) + 1, (ny:Int)]
    ∧ withCorners false true nx ny a [0, (ny:Int) + 1] = a [0, 1]
    ∧ withCorners false true nx ny a [(nx:Int) + 1, (ny:Int) + 1] = a [(nx:Int) + 1, 1] := by
  have hx : ¬ ((nx:Int) + 1 = 0) := by omega
  have hy : ¬ ((ny:Int) + 1 = 0) := by omega
  have hx' : ¬ ((0:Int) = (nx:Int) + 1) := by omega
  have hy' : ¬ ((0:Int) = (ny:Int) + 1) := by omega
  refine ⟨?_, ?_, ?_, ?_⟩ <;> simp [withCorners, cornerValue, hx, hy, hx', hy']

/-- no periodic axis: the corners are the mean of the two adjacent ghost cells -/
theorem withCorners_interpolated (nx ny : Nat) (a : Arr K) :
    withCorners false false nx ny a [0, 0] = (a [0, 1] + a [1, 0]) / 2
    ∧ withCorners false false nx ny a [(nx:Int) + 1, 0] = (a [(nx:Int) + 1, 1] + a [(nx:Int), 0]) / 2
    ∧ withCorners false false nx ny a [0, (ny:Int) + 1] = (a [0, (ny:Int)] + a [1, (ny:Int) + 1]) / 2
    ∧ withCorners false false nx ny a [(nx:Int) + 1, (ny:Int) + 1]
        = (a [(nx:Int) + 1, (ny:Int)] + a [(nx:Int), (ny:Int) + 1]) / 2 := by
  have hx : ¬ ((nx:Int) + 1 = 0) := by omega
  have hy : ¬ ((ny:Int) + 1 = 0) := by omega
  have hx' : ¬ ((0:Int) = (nx:Int) + 1) := by omega
  have hy' : ¬ ((0:Int) = (ny:Int) + 1) := by omega
  refine ⟨?_, ?_, ?_, ?_⟩ <;> simp [withCorners, cornerValue, hx, hy, hx', hy']

/-! ### the stencil -/

/-- `corner_weight = 0` is the 5-point Laplacian -/
theorem stencil9_zero_weight (dx dy : K) (b : Arr K) (i j : Int) :
    stencil9 0 dx dy b i j =
      (b [i - 1, j] - 2 * b [i, j] + b [i + 1, j]) / (dx * dx) + (b [i, j - 1] - 2 * b [i, j] + b [i, j + 1]) / (dy * dy) := by
  simp only [stencil9]; push_cast; ring

/-- 9-point = `(1-w)` × 5-point + `w (dx⁻² + dy⁻²)/4` × (corner sum - 4 centre) -/
theorem stencil9_decomposition (w dx dy : K) (b : Arr K) (i j : Int) :
    stencil9 w dx dy b i j =
      (1 - w) * stencil9 0 dx dy b i j
      + (1 / (dx * dx) + 1 / (dy * dy)) * w / 4
          * (b [i - 1, j - 1] + b [i - 1, j + 1] + b [i + 1, j - 1] + b [i + 1, j + 1] - 4 * b [i, j]) := by
  simp only [stencil9]; push_cast; ring

/-- samples of a bivariate cubic polynomial with coefficients `c p q` (`p + q ≤ 3`) on the lattice `(x0 + i h, y0 + j k)` -/
def cubic2 (c : Nat → Nat → K) (x y : K) : K :=
  c 0 0 + c 1 0 * x + c 0 1 * y + c 2 0 * x^2 + c 1 1 * x * y + c 0 2 * y^2
    + c 3 0 * x^3 + c 2 1 * x^2 * y + c 1 2 * x * y^2 + c 0 3 * y^3

def cubic2Lap (c : Nat → Nat → K) (x y : K) : K :=
  2 * c 2 0 + 2 * c 0 2 + 6 * c 3 0 * x + 2 * c 2 1 * y + 2 * c 1 2 * x + 6 * c 0 3 * y

def latticeSample2 (f : K → K → K) (x0 y0 h k : K) : Arr K := fun idx =>
  match idx with
  | [i, j] => f (x0 + (i:K) * h) (y0 + (j:K) * k)
  | _ => 0

/-- **isotropic spacing: the 9-point stencil with any corner weight is exact on cubic polynomials**, i.e. it is
a second-order consistent discretisation of the Laplacian (the first neglected terms are of fourth degree) -/
theorem stencil9_cubic_exact_isotropic (w h : K) (hh : h ≠ 0) (c : Nat → Nat → K) (x0 y0 : K) (i j : Int) :
    stencil9 w h h (latticeSample2 (cubic2 c) x0 y0 h h) i j = cubic2Lap c (x0 + (i:K) * h) (y0 + (j:K) * h) := by
  simp only [stencil9, latticeSample2, cubic2, cubic2Lap]
  push_cast
  field_simp
  ring

/-- quartic terms: for `f = x⁴` the error against `f_xx = 12 x²` is exactly `2 h²`, for every corner weight -/
theorem stencil9_quartic_remainder (w h : K) (hh : h ≠ 0) (x0 y0 : K) (i j : Int) :
    stencil9 w h h (latticeSample2 (fun x _ => x^4) x0 y0 h h) i j
      = 12 * (x0 + (i:K) * h)^2 + 2 * h^2 := by
  simp only [stencil9, latticeSample2]
  push_cast
  field_simp
  ring

/-- **anisotropic spacing: the 9-point stencil is not consistent** (the code warns: "not tested and might
produce wrong results"): on `f = x²` it returns `2 + w (dx²/dy² - 1)` instead of `2` -/
theorem stencil9_anisotropic_inconsistent (w dx dy : K) (hdx : dx ≠ 0) (hdy : dy ≠ 0) (x0 y0 : K) (i j : Int) :
    stencil9 w dx dy (latticeSample2 (fun x _ => x^2) x0 y0 dx dy) i j = 2 + w * (dx^2 / dy^2 - 1) := by
  simp only [stencil9, latticeSample2]
  push_cast
  field_simp
  ring

end PdeVerif.Stencil


/-! ### conservation (C05): the 9-point Laplacian integrates to zero with conserving ghost cells incl. corners -/
namespace PdeVerif.Conserve
open PdeVerif PdeVerif.Stencil

variable {K : Type} [Field K] [CharZero K]

/-- volume-weighted sum of the 9-point stencil over all `n × m` valid cells of a padded array -/
def intStencil9 (w dx dy : K) (b : Arr K) (n m : Nat) : K :=
  sumTo (fun i => sumTo (fun j => dx * dy * stencil9 w dx dy b (i:Int) (j:Int)) m) n

theorem sumTo_d2 (f : Int → K) (n : Nat) :
    sumTo (fun i => f ((i:Int) + 1) - 2 * f (i:Int) + f ((i:Int) - 1)) n
      = (f ((n:Int) + 1) - f (n:Int)) - (f 1 - f 0) := by
  have := sumTo_telescope (fun i => f ((i:Int) + 1) - 2 * f (i:Int) + f ((i:Int) - 1))
    (fun i => f ((i:Int) + 1) - f (i:Int)) (by
      intro i
      push_cast
      have e1 : ((i:Int) + 1 - 1) = (i:Int) := by ring
      rw [e1]; ring) n
  rw [this]; simp

theorem sumTo_lin3 (f g h : Nat → K) (n : Nat) :
    sumTo (fun i => f i - 2 * g i + h i) n = sumTo f n - 2 * sumTo g n + sumTo h n := by
  induction n with
  | zero => simp [sumTo]
  | succ n ih => simp only [sumTo]; rw [ih]; ring

theorem sumTo_lin3c (p q r : K) (f g h : Nat → K) (n : Nat) :
    sumTo (fun i => p * f i + q * g i + r * h i) n = p * sumTo f n + q * sumTo g n + r * sumTo h n := by
  induction n with
  | zero => simp [sumTo]
  | succ n ih => simp only [sumTo]; rw [ih]; ring

/-- second difference along x at `(i, j)` -/
def dxx (b : Arr K) (i j : Int) : K := b [i + 1, j] - 2 * b [i, j] + b [i - 1, j]
def dyy (b : Arr K) (i j : Int) : K := b [i, j + 1] - 2 * b [i, j] + b [i, j - 1]

/-- the stencil in terms of second differences: `P δx² + Q δy² + R δy²(δx²)` -/
theorem stencil9_second_differences (w dx dy : K) (b : Arr K) (i j : Int) :
    stencil9 w dx dy b i j =
      ((1 - w) / (dx * dx) + (1 / (dx * dx) + 1 / (dy * dy)) * w / 2) * dxx b i j
      + ((1 - w) / (dy * dy) + (1 / (dx * dx) + 1 / (dy * dy)) * w / 2) * dyy b i j
      + ((1 / (dx * dx) + 1 / (dy * dy)) * w / 4) * (dxx b i (j + 1) - 2 * dxx b i j + dxx b i (j - 1)) := by
  simp only [stencil9, dxx, dyy]; push_cast; ring

/-- **the 9-point Laplacian conserves the integral**: if the padded array is closed along x on every row
`0 ≤ j ≤ m+1` (this includes the two ghost rows, i.e. the four corner points) and closed along y on every
interior column, the volume-weighted sum over all cells vanishes - any `n × m`, any spacings, any corner weight.
"Closed" = the fluxes through the two opposite faces cancel, which holds for zero-flux as well as for periodic
ghost cells. -/
theorem stencil9_integral_zero (w dx dy : K) (b : Arr K) (n m : Nat)
    (hx : ∀ j : Int, 0 ≤ j → j ≤ (m:Int) + 1 → (b [(n:Int) + 1, j] - b [(n:Int), j]) - (b [1, j] - b [0, j]) = 0)
    (hy : ∀ i : Int, 1 ≤ i → i ≤ (n:Int) → (b [i, (m:Int) + 1] - b [i, (m:Int)]) - (b [i, 1] - b [i, 0]) = 0) :
    intStencil9 w dx dy b n m = 0 := by
  unfold intStencil9
  -- column sums of the x-differences vanish on every row 0..m+1
  have g0 : ∀ j : Int, 0 ≤ j → j ≤ (m:Int) + 1 → sumTo (fun i : Nat => dxx b (i:Int) j) n = 0 := by
    intro j h0 h1
    have := sumTo_d2 (fun i => b [i, j]) n
    simp only [dxx]
    rw [this]; exact hx j h0 h1
  set P := (1 - w) / (dx * dx) + (1 / (dx * dx) + 1 / (dy * dy)) * w / 2 with hP
  set Q := (1 - w) / (dy * dy) + (1 / (dx * dx) + 1 / (dy * dy)) * w / 2 with hQ
  set R := (1 / (dx * dx) + 1 / (dy * dy)) * w / 4 with hR
  have e : ∀ i j : Nat, dx * dy * stencil9 w dx dy b (i:Int) (j:Int) =
      (dx * dy * P) * dxx b (i:Int) (j:Int) + (dx * dy * Q) * dyy b (i:Int) (j:Int)
      + (dx * dy * R) * (dxx b (i:Int) ((j:Int) + 1) - 2 * dxx b (i:Int) (j:Int) + dxx b (i:Int) ((j:Int) - 1)) := by
    intro i j; rw [stencil9_second_differences]; ring
  simp only [e]
  -- split the double sum
  have s1 : sumTo (fun i : Nat => sumTo (fun j : Nat => dxx b (i:Int) (j:Int)) m) n = 0 := by
    rw [sumTo_comm]
    rw [sumTo_congr _ (fun _ => (0:K)) m (by intro j h1 h2; exact g0 (j:Int) (by omega) (by omega)), sumTo_zero]
  have s2 : sumTo (fun i : Nat => sumTo (fun j : Nat => dyy b (i:Int) (j:Int)) m) n = 0 := by
    rw [sumTo_congr _ (fun _ => (0:K)) n (by
      intro i h1 h2
      have := sumTo_d2 (fun j => b [(i:Int), j]) m
      simp only [dyy]
      rw [this]; exact hy (i:Int) (by omega) (by omega)), sumTo_zero]
  have s3 : sumTo (fun i : Nat => sumTo (fun j : Nat =>
      dxx b (i:Int) ((j:Int) + 1) - 2 * dxx b (i:Int) (j:Int) + dxx b (i:Int) ((j:Int) - 1)) m) n = 0 := by
    rw [sumTo_comm]
    rw [sumTo_congr _ (fun _ => (0:K)) m (by
      intro j h1 h2
      rw [sumTo_lin3, g0 ((j:Int) + 1) (by omega) (by omega), g0 (j:Int) (by omega) (by omega),
        g0 ((j:Int) - 1) (by omega) (by omega)]
      ring), sumTo_zero]
  have split : ∀ i : Nat, sumTo (fun j : Nat =>
      (dx * dy * P) * dxx b (i:Int) (j:Int) + (dx * dy * Q) * dyy b (i:Int) (j:Int)
      + (dx * dy * R) * (dxx b (i:Int) ((j:Int) + 1) - 2 * dxx b (i:Int) (j:Int) + dxx b (i:Int) ((j:Int) - 1))) m
      = (dx * dy * P) * sumTo (fun j : Nat => dxx b (i:Int) (j:Int)) m
        + (dx * dy * Q) * sumTo (fun j : Nat => dyy b (i:Int) (j:Int)) m
        + (dx * dy * R) * sumTo (fun j : Nat =>
            dxx b (i:Int) ((j:Int) + 1) - 2 * dxx b (i:Int) (j:Int) + dxx b (i:Int) ((j:Int) - 1)) m := by
    intro i; exact sumTo_lin3c _ _ _ _ _ _ m
  simp only [split]
  rw [sumTo_lin3c, s1, s2, s3]; ring

/-- zero-flux ghost cells on the four faces, corners set by the interpolating branch of the setter:
the operator conserves the integral -/
theorem cartLaplace9_integral_zero_neumann (w dx dy : K) (a : Arr K) (n m : Nat) (hn : 1 ≤ n) (hm : 1 ≤ m)
    (hx0 : ∀ j : Int, 1 ≤ j → j ≤ (m:Int) → a [0, j] = a [1, j])
    (hx1 : ∀ j : Int, 1 ≤ j → j ≤ (m:Int) → a [(n:Int) + 1, j] = a [(n:Int), j])
    (hy0 : ∀ i : Int, 1 ≤ i → i ≤ (n:Int) → a [i, 0] = a [i, 1])
    (hy1 : ∀ i : Int, 1 ≤ i → i ≤ (n:Int) → a [i, (m:Int) + 1] = a [i, (m:Int)]) :
    intStencil9 w dx dy (withCorners false false n m a) n m = 0 := by
  obtain ⟨c00, c10, c01, c11⟩ := withCorners_interpolated n m a
  apply stencil9_integral_zero
  · intro j h0 h1
    rcases (by omega : j = 0 ∨ j = (m:Int) + 1 ∨ (1 ≤ j ∧ j ≤ (m:Int))) with hj | hj | hj
    · subst hj
      rw [c00, c10]
      rw [withCorners_inner _ _ _ _ _ (n:Int) 0 (by omega), withCorners_inner _ _ _ _ _ 1 0 (by omega)]
      rw [hx0 1 (by omega) (by omega), hx1 1 (by omega) (by omega), hy0 1 (by omega) (by omega),
        hy0 (n:Int) (by omega) (by omega)]
      ring
    · subst hj
      rw [c01, c11]
      rw [withCorners_inner _ _ _ _ _ (n:Int) ((m:Int) + 1) (by omega), withCorners_inner _ _ _ _ _ 1 ((m:Int) + 1) (by omega)]
      rw [hx0 (m:Int) (by omega) (by omega), hx1 (m:Int) (by omega) (by omega), hy1 1 (by omega) (by omega),
        hy1 (n:Int) (by omega) (by omega)]
      ring
    · rw [withCorners_inner _ _ _ _ _ _ j (by omega), withCorners_inner _ _ _ _ _ _ j (by omega),
        withCorners_inner _ _ _ _ _ _ j (by omega), withCorners_inner _ _ _ _ _ _ j (by omega)]
      rw [hx0 j hj.1 hj.2, hx1 j hj.1 hj.2]; ring
  · intro i h0 h1
    rw [withCorners_inner _ _ _ _ _ i _ (by omega), withCorners_inner _ _ _ _ _ i _ (by omega),
      withCorners_inner _ _ _ _ _ i _ (by omega), withCorners_inner _ _ _ _ _ i _ (by omega)]
    rw [hy0 i h0 h1, hy1 i h0 h1]; ring

/-- only the y-axis periodic (zero-flux ghost cells on the x-faces): with the corner points as set by the
periodic-y branch the operator conserves the integral.  This is the branch repaired by fix a7bb703; with the
former assignments (`arr[-1,0] = arr[-1,1]`, `arr[0,-1] = arr[0,-2]`) the hypothesis `hx` of
`stencil9_integral_zero` fails on the two ghost rows. -/
theorem cartLaplace9_integral_zero_periodic_y (w dx dy : K) (a : Arr K) (n m : Nat) (hn : 1 ≤ n) (hm : 1 ≤ m)
    (hx0 : ∀ j : Int, 1 ≤ j → j ≤ (m:Int) → a [0, j] = a [1, j])
    (hx1 : ∀ j : Int, 1 ≤ j → j ≤ (m:Int) → a [(n:Int) + 1, j] = a [(n:Int), j])
    (hy0 : ∀ i : Int, 1 ≤ i → i ≤ (n:Int) → a [i, 0] = a [i, (m:Int)])
    (hy1 : ∀ i : Int, 1 ≤ i → i ≤ (n:Int) → a [i, (m:Int) + 1] = a [i, 1]) :
    intStencil9 w dx dy (withCorners false true n m a) n m = 0 := by
  obtain ⟨c00, c10, c01, c11⟩ := withCorners_periodic_y n m a
  apply stencil9_integral_zero
  · intro j h0 h1
    rcases (by omega : j = 0 ∨ j = (m:Int) + 1 ∨ (1 ≤ j ∧ j ≤ (m:Int))) with hj | hj | hj
    · subst hj
      rw [c00, c10]
      rw [withCorners_inner _ _ _ _ _ (n:Int) 0 (by omega), withCorners_inner _ _ _ _ _ 1 0 (by omega)]
      rw [hx0 (m:Int) (by omega) (by omega), hx1 (m:Int) (by omega) (by omega), hy0 1 (by omega) (by omega),
        hy0 (n:Int) (by omega) (by omega)]
      ring
    · subst hj
      rw [c01, c11]
      rw [withCorners_inner _ _ _ _ _ (n:Int) ((m:Int) + 1) (by omega), withCorners_inner _ _ _ _ _ 1 ((m:Int) + 1) (by omega)]
      rw [hx0 1 (by omega) (by omega), hx1 1 (by omega) (by omega), hy1 1 (by omega) (by omega),
        hy1 (n:Int) (by omega) (by omega)]
      ring
    · rw [withCorners_inner _ _ _ _ _ _ j (by omega), withCorners_inner _ _ _ _ _ _ j (by omega),
        withCorners_inner _ _ _ _ _ _ j (by omega), withCorners_inner _ _ _ _ _ _ j (by omega)]
      rw [hx0 j hj.1 hj.2, hx1 j hj.1 hj.2]; ring
  · intro i h0 h1
    rw [withCorners_inner _ _ _ _ _ i _ (by omega), withCorners_inner _ _ _ _ _ i _ (by omega),
      withCorners_inner _ _ _ _ _ i _ (by omega), withCorners_inner _ _ _ _ _ i _ (by omega)]
    rw [hy0 i h0 h1, hy1 i h0 h1]; ring

/-- the x-axis periodic (the y-axis periodic or zero-flux): conservation with the periodic-x branch of the setter -/
theorem cartLaplace9_integral_zero_periodic_x (w dx dy : K) (py : Bool) (a : Arr K) (n m : Nat) (hn : 1 ≤ n) (hm : 1 ≤ m)
    (hx0' : ∀ j : Int, 1 ≤ j → j ≤ (m:Int) → a [0, j] = a [(n:Int), j])
    (hx1' : ∀ j : Int, 1 ≤ j → j ≤ (m:Int) → a [(n:Int) + 1, j] = a [1, j])
    (hy : ∀ i : Int, 1 ≤ i → i ≤ (n:Int) → (a [i, (m:Int) + 1] - a [i, (m:Int)]) - (a [i, 1] - a [i, 0]) = 0) :
    intStencil9 w dx dy (withCorners true py n m a) n m = 0 := by
  obtain ⟨c00, c10, c01, c11⟩ := withCorners_periodic_x py n m a
  apply stencil9_integral_zero
  · intro j h0 h1
    rcases (by omega : j = 0 ∨ j = (m:Int) + 1 ∨ (1 ≤ j ∧ j ≤ (m:Int))) with hj | hj | hj
    · subst hj
      rw [c00, c10]
      rw [withCorners_inner _ _ _ _ _ (n:Int) 0 (by omega), withCorners_inner _ _ _ _ _ 1 0 (by omega)]
      ring
    · subst hj
      rw [c01, c11]
      rw [withCorners_inner _ _ _ _ _ (n:Int) ((m:Int) + 1) (by omega), withCorners_inner _ _ _ _ _ 1 ((m:Int) + 1) (by omega)]
      ring
    · rw [withCorners_inner _ _ _ _ _ _ j (by omega), withCorners_inner _ _ _ _ _ _ j (by omega),
        withCorners_inner _ _ _ _ _ _ j (by omega), withCorners_inner _ _ _ _ _ _ j (by omega)]
      rw [hx0' j hj.1 hj.2, hx1' j hj.1 hj.2]; ring
  · intro i h0 h1
    rw [withCorners_inner _ _ _ _ _ i _ (by omega), withCorners_inner _ _ _ _ _ i _ (by omega),
      withCorners_inner _ _ _ _ _ i _ (by omega), withCorners_inner _ _ _ _ _ i _ (by omega)]
    exact hy i h0 h1

/-- the hypotheses are satisfiable by a non-constant field: a 2 × 2 grid with mirrored (zero-flux) ghost cells -/
example : intStencil9 (1/2 : ℚ) 1 2 (withCorners false false 2 2
    (fun idx => match idx with
      | [i, j] => ((max 1 (min i 2) : Int) : ℚ) * 3 + ((max 1 (min j 2) : Int) : ℚ) ^ 2
      | _ => 0)) 2 2 = 0 := by
  apply cartLaplace9_integral_zero_neumann <;> first | omega | (intro k h0 h1; interval_cases k <;> norm_num)

end PdeVerif.Conserve
