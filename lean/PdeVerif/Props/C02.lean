import PdeVerif.Model.BC
import PdeVerif.Model.BCParse
import PdeVerif.Lemmas.Basic
import Mathlib.Tactic.LinearCombination
/-
C02 - boundary conditions hold exactly at the discrete boundary.
Theorems about `PdeVerif.BC` (model of pde/grids/boundaries/local.py and the compiled
re-implementation in pde/backends/numba/_boundaries.py) and `PdeVerif.BCParse` (axes.py, axis.py).

* one face point: `*_exact`; the data `MixedBC` really returns: `vpMixedCode_*`, `robin_code_*`;
  `robin_singular_unsatisfiable` (why the coefficient -2/dx cannot be imposed by any virtual point);
* one face: `setGhost_*` (every class; `setGhost_robin_*` for the coefficients as the user gives
  them: finite regular -> Robin equation, infinite or singular -> boundary value 0);
* all faces: `setGhostAll_frame`, `setGhostAll_written`, `setGhostAll_perm`, and the end state
  `setGhostAll_fixed`, **`setGhostAll_holds`** (the defining equation `HoldsAt` of every face in the
  final array), `setGhostAll_dirichlet`, `setGhostAll_robin`, `setGhostAll_normal_untouched`;
* specifications: precedence, unknown keys, the `{"low","high"}` / sequence / legacy formats,
  errors instead of silent defaults, periodicity of every accepted result (`parse_periodicity_consistent`).
-/
namespace PdeVerif.BC
open PdeVerif

section scalar
variable {K : Type} [Field K] [CharZero K]

/-! ### the defining equations on one face (any values) -/

/-- value condition: `(ghost + cell)/2 = v` -/
theorem dirichlet_exact (v cell : K) : (ghost1 (vpDirichlet v) cell + cell) / 2 = v := by
  unfold ghost1 vpDirichlet; push_cast; ring

/-- derivative condition: `(ghost - cell)/dx = d` (outward derivative) -/
theorem neumann_exact (dx d cell : K) (hdx : dx ≠ 0) :
    (ghost1 (vpNeumann dx d) cell - cell) / dx = d := by
  unfold ghost1 vpNeumann; push_cast; field_simp; ring

/-- Robin condition `∂ₙc + γ c = β` with the boundary value `(ghost+cell)/2` -/
theorem robin_exact (dx g b cell : K) (hdx : dx ≠ 0) (hg : 2 + dx * g ≠ 0) :
    (ghost1 (vpMixed dx g b) cell - cell) / dx + g * ((ghost1 (vpMixed dx g b) cell + cell) / 2) = b := by
  unfold ghost1 vpMixed; push_cast; field_simp; ring

/-- the non-finite branch (`γ = ∞`) imposes the value 0 -/
theorem robin_infinite_is_dirichlet0 (cell : K) : (ghost1 (vpMixedInf : K × K) cell + cell) / 2 = 0 := by
  unfold ghost1 vpMixedInf; push_cast; ring

/-- a finite coefficient with `2 + dx γ = 0` is *singular*: the discrete Robin expression does not
depend on the virtual point at all (it equals `γ * cell`), so no virtual point can impose
`∂ₙc + γ c = β` unless `γ * cell = β` happens to hold -/
theorem robin_singular_unsatisfiable (dx g cell ghost : K) (hdx : dx ≠ 0) (hs : 2 + dx * g = 0) :
    (ghost - cell) / dx + g * ((ghost + cell) / 2) = g * cell := by
  have hg : g = -2 / dx := by field_simp; linear_combination hs
  subst hg; field_simp; ring

section code
variable [DecidableEq K]

/-- `MixedBC.get_virtual_point_data` takes the documented formula for every finite, regular `γ` -/
theorem vpMixedCode_finite (dx g b : K) (h : 2 + dx * g ≠ 0) :
    vpMixedCode dx (.fin g) b = vpMixed dx g b := by
  simp [vpMixedCode, vpMixedSel, Coef.nonFinite, Coef.val, h]

/-- `γ = ±∞` takes the corrected branch `(0, -1)` -/
theorem vpMixedCode_inf (dx b : K) : vpMixedCode dx (.inf : Coef K) b = vpMixedInf := by
  simp [vpMixedCode, vpMixedSel, Coef.nonFinite]

/-- a singular finite `γ` also takes the corrected branch `(0, -1)`: the code then imposes the
value 0 instead of the (unsatisfiable, see `robin_singular_unsatisfiable`) Robin condition -/
theorem vpMixedCode_singular (dx g b : K) (h : 2 + dx * g = 0) :
    vpMixedCode dx (.fin g) b = vpMixedInf := by
  simp [vpMixedCode, vpMixedSel, Coef.nonFinite, h]

/-- the Robin equation holds for every finite regular coefficient of the code's own data -/
theorem robin_code_exact (dx g b cell : K) (hdx : dx ≠ 0) (hg : 2 + dx * g ≠ 0) :
    (ghost1 (vpMixedCode dx (.fin g) b) cell - cell) / dx
      + g * ((ghost1 (vpMixedCode dx (.fin g) b) cell + cell) / 2) = b := by
  rw [vpMixedCode_finite dx g b hg]; exact robin_exact dx g b cell hdx hg

/-- an infinite coefficient imposes the value 0 (the limit `γ → ∞` of `∂ₙc/γ + c = β/γ`) -/
theorem robin_code_infinite (dx b cell : K) :
    (ghost1 (vpMixedCode dx (.inf : Coef K) b) cell + cell) / 2 = 0 := by
  rw [vpMixedCode_inf]; exact robin_infinite_is_dirichlet0 cell
end code

/-- `γ = 0` is the derivative condition -/
theorem robin_zero_is_neumann (dx b cell : K) :
    ghost1 (vpMixed dx 0 b) cell = ghost1 (vpNeumann dx b) cell := by
  unfold ghost1 vpMixed vpNeumann; push_cast; field_simp; ring

/-- curvature condition: `(ghost - 2 c1 + c2)/dx² = k` -/
theorem curvature_exact (dx k c1 c2 : K) (hdx : dx ≠ 0) :
    (ghost2 (vpCurvature dx k) c1 c2 - 2 * c1 + c2) / (dx * dx) = k := by
  unfold ghost2 vpCurvature; push_cast; field_simp; ring

theorem periodic_exact (opp : K) : ghost1 (vpPeriodic false) opp = opp := by
  unfold ghost1 vpPeriodic; simp

theorem antiperiodic_exact (opp : K) : ghost1 (vpPeriodic true) opp = -opp := by
  unfold ghost1 vpPeriodic; simp

/-! ### expression targets -/
theorem exprValue_exact (v cell : K) : (exprValue v cell + cell) / 2 = v := by
  unfold exprValue; push_cast; ring

theorem exprDerivative_exact (dx v cell : K) (hdx : dx ≠ 0) :
    (exprDerivative dx v cell - cell) / dx = v := by
  unfold exprDerivative; field_simp; ring

theorem exprMixed_exact (dx g b cell : K) (hdx : dx ≠ 0) (hg : g * dx + 2 ≠ 0) :
    (exprMixed dx g b cell - cell) / dx + g * ((exprMixed dx g b cell + cell) / 2) = b := by
  have h2 : 2 + dx * g ≠ 0 := by rwa [add_comm, mul_comm] at hg
  unfold exprMixed; push_cast
  rw [show g * dx + 2 = 2 + dx * g by ring]
  field_simp; ring

/-- the expression target `mixed` is the same law as the constant `MixedBC` -/
theorem exprMixed_eq_mixed (dx g b cell : K) (hg : g * dx + 2 ≠ 0) :
    exprMixed dx g b cell = ghost1 (vpMixed dx g b) cell := by
  have h2 : 2 + dx * g ≠ 0 := by rwa [add_comm, mul_comm] at hg
  unfold exprMixed ghost1 vpMixed; push_cast
  rw [show g * dx + 2 = 2 + dx * g by ring]
  field_simp
end scalar

/-! ### which entries a face writes (index bookkeeping, no arithmetic) -/

/-- well-formed face: axis exists, at least one cell along it -/
def Face.WF (f : Face) : Prop := f.axis < f.shape.length ∧ 1 ≤ f.N

theorem getD_setAt_same (l : List Int) (i : Nat) (x : Int) (h : i < l.length) :
    (setAt l i x).getD i 0 = x := by
  unfold setAt
  simp [List.getD_eq_getElem?_getD, h]

theorem getD_setAt_other (l : List Int) (i j : Nat) (x : Int) (h : i ≠ j) :
    (setAt l i x).getD j 0 = l.getD j 0 := by
  unfold setAt
  simp [List.getD_eq_getElem?_getD, List.getElem?_set_ne h]

theorem length_setAt (l : List Int) (i : Nat) (x : Int) : (setAt l i x).length = l.length := by
  unfold setAt; simp

theorem Face.length_at (f : Face) (idx : List Int) (c : Int) : (f.at idx c).length = idx.length := by
  unfold Face.at
  simp only [List.length_append, List.length_take, length_setAt, List.length_drop]
  omega

theorem Face.take_at (f : Face) (idx : List Int) (c : Int) (h : f.rank ≤ idx.length) :
    (f.at idx c).take f.rank = idx.take f.rank := by
  unfold Face.at
  rw [List.take_append_of_le_length (by simp [h])]
  simp [List.take_take]

theorem Face.drop_at (f : Face) (idx : List Int) (c : Int) (h : f.rank ≤ idx.length) :
    (f.at idx c).drop f.rank = setAt (idx.drop f.rank) f.axis c := by
  unfold Face.at
  have : (idx.take f.rank).length = f.rank := by simp [h]
  rw [List.drop_append_of_le_length (by omega), List.drop_of_length_le (by omega)]
  simp

/-- the own-axis coordinate of a written index is the ghost coordinate -/
theorem Face.writes_ghost (f : Face) (idx : List Int) (h : f.writes idx = true) :
    (idx.drop f.rank).getD f.axis 0 = ghostIdx f.N f.side ∧ idx.length = f.rank + f.shape.length := by
  unfold Face.writes at h
  simp only [Bool.and_eq_true, beq_iff_eq] at h
  exact ⟨h.1.1.2, h.1.1.1⟩

/-- an index whose own-axis coordinate is a valid cell `1..N` is never written -/
theorem Face.not_writes_of_valid (f : Face) (idx : List Int)
    (hv : 1 ≤ (idx.drop f.rank).getD f.axis 0 ∧ (idx.drop f.rank).getD f.axis 0 ≤ f.N) :
    f.writes idx = false := by
  by_contra h
  have h' : f.writes idx = true := by simpa using h
  have := (f.writes_ghost idx h').1
  rw [this] at hv
  cases hs : f.side <;> rw [hs] at hv <;> simp only [ghostIdx] at hv <;> omega

/-- replacing the own-axis coordinate by a valid cell gives an index that is not written -/
theorem Face.not_writes_at (f : Face) (idx : List Int) (c : Int) (hw : f.writes idx = true)
    (hf : f.WF) (hc : 1 ≤ c ∧ c ≤ f.N) : f.writes (f.at idx c) = false := by
  obtain ⟨_, hlen⟩ := f.writes_ghost idx hw
  apply f.not_writes_of_valid
  rw [f.drop_at idx c (by omega), getD_setAt_same _ _ _ (by simp; have := hf.1; omega)]
  exact hc

theorem nearIdx_valid (N : Nat) (s : Side) (h : 1 ≤ N) : 1 ≤ nearIdx N s ∧ nearIdx N s ≤ N := by
  cases s <;> simp [nearIdx] <;> omega

theorem oppIdx_valid (N : Nat) (s : Side) (h : 1 ≤ N) : 1 ≤ oppIdx N s ∧ oppIdx N s ≤ N := by
  cases s <;> simp [oppIdx] <;> omega

theorem near2Idx_valid (N : Nat) (s : Side) (h : 2 ≤ N) : 1 ≤ near2Idx N s ∧ near2Idx N s ≤ N := by
  cases s <;> simp [near2Idx] <;> omega

section array
variable {K : Type} [Field K] [CharZero K]

/-! ### frame properties of `set_ghost_cells` -/

/-- only written entries change -/
theorem setGhost_frame (f : Face) (dx : K) (c : Cond K) (a : List Int → K) (idx : List Int)
    (h : f.writes idx = false) : setGhost f dx c a idx = a idx := by
  unfold setGhost; simp [h]

/-- all valid cells (own-axis coordinate in `1..N`) keep their value -/
theorem setGhost_valid_unchanged (f : Face) (dx : K) (c : Cond K) (a : List Int → K) (idx : List Int)
    (hv : 1 ≤ (idx.drop f.rank).getD f.axis 0 ∧ (idx.drop f.rank).getD f.axis 0 ≤ f.N) :
    setGhost f dx c a idx = a idx :=
  setGhost_frame f dx c a idx (f.not_writes_of_valid idx hv)

/-- **normal-only conditions leave every other component untouched** (all entries, ghost
cells included, of components whose last tensor index is not the boundary's axis) -/
theorem normal_only_touches_normal (f : Face) (dx : K) (c : Cond K) (a : List Int → K)
    (idx : List Int) (hn : f.normal = true)
    (hcomp : (idx.take f.rank).getD (f.rank - 1) 0 ≠ (f.axis : Int)) :
    setGhost f dx c a idx = a idx := by
  apply setGhost_frame
  unfold Face.writes
  have : ((idx.take f.rank).getD (f.rank - 1) 0 == (f.axis : Int)) = false := by simpa using hcomp
  simp only [hn, this, Bool.not_true, Bool.false_or, Bool.and_false]

/-- a written entry lies on the boundary face: ghost coordinate on the own axis, valid
coordinates on all other axes (edges and corners are never written) -/
theorem setGhost_writes_exactly_face (f : Face) (idx : List Int) (h : f.writes idx = true) :
    (idx.drop f.rank).getD f.axis 0 = ghostIdx f.N f.side ∧
    ∀ j, j < f.shape.length → j ≠ f.axis →
      1 ≤ (idx.drop f.rank).getD j 0 ∧ (idx.drop f.rank).getD j 0 ≤ (f.shape.getD j 0 : Int) := by
  refine ⟨(f.writes_ghost idx h).1, ?_⟩
  intro j hj hne
  unfold Face.writes at h
  simp only [Bool.and_eq_true, List.all_eq_true, List.mem_range, Bool.or_eq_true, beq_iff_eq,
    decide_eq_true_eq] at h
  have := h.1.2 j hj
  rcases this with h1 | h1
  · exact absurd h1 hne
  · exact h1

/-! ### the conditions hold on every face point after `set_ghost_cells` -/

/-- value (Dirichlet) condition on the whole face, for constants, tensors, per-face arrays -/
theorem setGhost_dirichlet (f : Face) (dx : K) (v : List Int → K) (a : List Int → K)
    (idx : List Int) (hw : f.writes idx = true) (hf : f.WF) :
    let a' := setGhost f dx (.dirichlet v) a
    (a' idx + a' (f.at idx (nearIdx f.N f.side))) / 2 = v (f.valueIdx idx) := by
  intro a'
  have hnear := f.not_writes_at idx _ hw hf (nearIdx_valid f.N f.side hf.2)
  show (setGhost f dx (.dirichlet v) a idx + setGhost f dx (.dirichlet v) a _) / 2 = _
  rw [setGhost_frame _ _ _ _ _ hnear]
  unfold setGhost; simp only [hw, ↓reduceIte, ghostValue]
  exact dirichlet_exact _ _

/-- derivative (Neumann) condition on the whole face -/
theorem setGhost_neumann (f : Face) (dx : K) (hdx : dx ≠ 0) (d : List Int → K) (a : List Int → K)
    (idx : List Int) (hw : f.writes idx = true) (hf : f.WF) :
    let a' := setGhost f dx (.neumann d) a
    (a' idx - a' (f.at idx (nearIdx f.N f.side))) / dx = d (f.valueIdx idx) := by
  intro a'
  have hnear := f.not_writes_at idx _ hw hf (nearIdx_valid f.N f.side hf.2)
  show (setGhost f dx (.neumann d) a idx - setGhost f dx (.neumann d) a _) / dx = _
  rw [setGhost_frame _ _ _ _ _ hnear]
  unfold setGhost; simp only [hw, ↓reduceIte, ghostValue]
  exact neumann_exact _ _ _ hdx

/-- Robin condition on the whole face, at the points where the code takes the regular branch -/
theorem setGhost_mixed (f : Face) (dx : K) (hdx : dx ≠ 0) (nf : List Int → Bool) (g b : List Int → K)
    (a : List Int → K) (idx : List Int) (hw : f.writes idx = true) (hf : f.WF)
    (hnf : nf (f.valueIdx idx) = false) (hg : 2 + dx * g (f.valueIdx idx) ≠ 0) :
    let a' := setGhost f dx (.mixed nf g b) a
    let cell := a' (f.at idx (nearIdx f.N f.side))
    (a' idx - cell) / dx + g (f.valueIdx idx) * ((a' idx + cell) / 2) = b (f.valueIdx idx) := by
  intro a' cell
  have hnear := f.not_writes_at idx _ hw hf (nearIdx_valid f.N f.side hf.2)
  have hc : cell = a (f.at idx (nearIdx f.N f.side)) := setGhost_frame _ _ _ _ _ hnear
  have hg' : a' idx = ghost1 (vpMixed dx (g (f.valueIdx idx)) (b (f.valueIdx idx)))
      (a (f.at idx (nearIdx f.N f.side))) := by
    show setGhost f dx (.mixed nf g b) a idx = _
    unfold setGhost; simp only [hw, ↓reduceIte, ghostValue, vpMixedSel, hnf, Bool.false_eq_true]
  rw [hc, hg']
  exact robin_exact _ _ _ _ hdx hg

/-- at the points where the code takes the corrected branch the boundary value 0 is imposed -/
theorem setGhost_mixed_nonfinite (f : Face) (dx : K) (nf : List Int → Bool) (g b : List Int → K)
    (a : List Int → K) (idx : List Int) (hw : f.writes idx = true) (hf : f.WF)
    (hnf : nf (f.valueIdx idx) = true) :
    let a' := setGhost f dx (.mixed nf g b) a
    (a' idx + a' (f.at idx (nearIdx f.N f.side))) / 2 = 0 := by
  intro a'
  have hnear := f.not_writes_at idx _ hw hf (nearIdx_valid f.N f.side hf.2)
  show (setGhost f dx (.mixed nf g b) a idx + setGhost f dx (.mixed nf g b) a _) / 2 = _
  rw [setGhost_frame _ _ _ _ _ hnear]
  unfold setGhost; simp only [hw, ↓reduceIte, ghostValue, vpMixedSel, hnf]
  exact robin_infinite_is_dirichlet0 _

/-- **`MixedBC` as the code decides it** (`Cond.robin`): every finite regular coefficient gives
the Robin equation ... -/
theorem setGhost_robin_finite [DecidableEq K] (f : Face) (dx : K) (hdx : dx ≠ 0)
    (g : List Int → Coef K) (b : List Int → K) (a : List Int → K) (idx : List Int)
    (hw : f.writes idx = true) (hf : f.WF) (γ : K) (hγ : g (f.valueIdx idx) = .fin γ)
    (hreg : 2 + dx * γ ≠ 0) :
    let a' := setGhost f dx (Cond.robin dx g b) a
    let cell := a' (f.at idx (nearIdx f.N f.side))
    (a' idx - cell) / dx + γ * ((a' idx + cell) / 2) = b (f.valueIdx idx) := by
  have := setGhost_mixed f dx hdx (fun vi => (g vi).nonFinite dx) (fun vi => (g vi).val) b a idx hw hf
    (by simp [hγ, Coef.nonFinite, hreg]) (by simpa [hγ, Coef.val] using hreg)
  simpa [Cond.robin, hγ, Coef.val] using this

/-- ... and an infinite coefficient gives the boundary value 0, at each point separately -/
theorem setGhost_robin_infinite [DecidableEq K] (f : Face) (dx : K)
    (g : List Int → Coef K) (b : List Int → K) (a : List Int → K) (idx : List Int)
    (hw : f.writes idx = true) (hf : f.WF) (hγ : g (f.valueIdx idx) = .inf) :
    let a' := setGhost f dx (Cond.robin dx g b) a
    (a' idx + a' (f.at idx (nearIdx f.N f.side))) / 2 = 0 :=
  setGhost_mixed_nonfinite f dx (fun vi => (g vi).nonFinite dx) (fun vi => (g vi).val) b a idx hw hf
    (by simp [hγ, Coef.nonFinite])

/-- a singular finite coefficient makes the code impose the boundary value 0 as well (the
requested Robin condition cannot be imposed: `robin_singular_unsatisfiable`) -/
theorem setGhost_robin_singular [DecidableEq K] (f : Face) (dx : K)
    (g : List Int → Coef K) (b : List Int → K) (a : List Int → K) (idx : List Int)
    (hw : f.writes idx = true) (hf : f.WF) (γ : K) (hγ : g (f.valueIdx idx) = .fin γ)
    (hs : 2 + dx * γ = 0) :
    let a' := setGhost f dx (Cond.robin dx g b) a
    (a' idx + a' (f.at idx (nearIdx f.N f.side))) / 2 = 0 := by
  exact setGhost_mixed_nonfinite f dx (fun vi => (g vi).nonFinite dx) (fun vi => (g vi).val) b a idx hw hf
    (by simp [hγ, Coef.nonFinite, hs])

/-- curvature condition on the whole face (needs two cells, the case the code rejects otherwise) -/
theorem setGhost_curvature (f : Face) (dx : K) (hdx : dx ≠ 0) (k : List Int → K) (a : List Int → K)
    (idx : List Int) (hw : f.writes idx = true) (hf : f.WF) (h2 : 2 ≤ f.N) :
    let a' := setGhost f dx (.curvature k) a
    (a' idx - 2 * a' (f.at idx (nearIdx f.N f.side)) + a' (f.at idx (near2Idx f.N f.side))) / (dx * dx)
      = k (f.valueIdx idx) := by
  intro a'
  have hnear := f.not_writes_at idx _ hw hf (nearIdx_valid f.N f.side hf.2)
  have hnear2 := f.not_writes_at idx _ hw hf (near2Idx_valid f.N f.side h2)
  show (setGhost f dx (.curvature k) a idx - 2 * setGhost f dx (.curvature k) a _ +
    setGhost f dx (.curvature k) a _) / (dx * dx) = _
  rw [setGhost_frame _ _ _ _ _ hnear, setGhost_frame _ _ _ _ _ hnear2]
  unfold setGhost; simp only [hw, ↓reduceIte, ghostValue]
  exact curvature_exact _ _ _ _ hdx

/-- periodic / anti-periodic: the ghost cell is `±` the cell at the opposite end -/
theorem setGhost_periodic (f : Face) (dx : K) (flip : Bool) (a : List Int → K)
    (idx : List Int) (hw : f.writes idx = true) (hf : f.WF) :
    let a' := setGhost f dx (.periodic flip) a
    a' idx = (if flip then -1 else 1) * a' (f.at idx (oppIdx f.N f.side)) := by
  intro a'
  have hopp := f.not_writes_at idx _ hw hf (oppIdx_valid f.N f.side hf.2)
  show setGhost f dx (.periodic flip) a idx = _ * setGhost f dx (.periodic flip) a _
  rw [setGhost_frame _ _ _ _ _ hopp]
  unfold setGhost; simp only [hw, ↓reduceIte, ghostValue, ghost1, vpPeriodic]
  cases flip <;> simp

/-- expression conditions (values = arbitrary functions of boundary coordinates and time) -/
theorem setGhost_exprValue (f : Face) (dx : K) (v : List Int → K) (a : List Int → K)
    (idx : List Int) (hw : f.writes idx = true) (hf : f.WF) :
    let a' := setGhost f dx (.exprValue v) a
    (a' idx + a' (f.at idx (nearIdx f.N f.side))) / 2 = v (f.valueIdx idx) := by
  intro a'
  have hnear := f.not_writes_at idx _ hw hf (nearIdx_valid f.N f.side hf.2)
  show (setGhost f dx (.exprValue v) a idx + setGhost f dx (.exprValue v) a _) / 2 = _
  rw [setGhost_frame _ _ _ _ _ hnear]
  unfold setGhost; simp only [hw, ↓reduceIte, ghostValue]
  exact exprValue_exact _ _

theorem setGhost_exprDerivative (f : Face) (dx : K) (hdx : dx ≠ 0) (v : List Int → K)
    (a : List Int → K) (idx : List Int) (hw : f.writes idx = true) (hf : f.WF) :
    let a' := setGhost f dx (.exprDerivative v) a
    (a' idx - a' (f.at idx (nearIdx f.N f.side))) / dx = v (f.valueIdx idx) := by
  intro a'
  have hnear := f.not_writes_at idx _ hw hf (nearIdx_valid f.N f.side hf.2)
  show (setGhost f dx (.exprDerivative v) a idx - setGhost f dx (.exprDerivative v) a _) / dx = _
  rw [setGhost_frame _ _ _ _ _ hnear]
  unfold setGhost; simp only [hw, ↓reduceIte, ghostValue]
  exact exprDerivative_exact _ _ _ hdx

theorem setGhost_exprMixed (f : Face) (dx : K) (hdx : dx ≠ 0) (g b : List Int → K)
    (a : List Int → K) (idx : List Int) (hw : f.writes idx = true) (hf : f.WF)
    (hg : g (f.valueIdx idx) * dx + 2 ≠ 0) :
    let a' := setGhost f dx (.exprMixed g b) a
    let cell := a' (f.at idx (nearIdx f.N f.side))
    (a' idx - cell) / dx + g (f.valueIdx idx) * ((a' idx + cell) / 2) = b (f.valueIdx idx) := by
  intro a' cell
  have hnear := f.not_writes_at idx _ hw hf (nearIdx_valid f.N f.side hf.2)
  have hc : cell = a (f.at idx (nearIdx f.N f.side)) := setGhost_frame _ _ _ _ _ hnear
  have hg' : a' idx = exprMixed dx (g (f.valueIdx idx)) (b (f.valueIdx idx))
      (a (f.at idx (nearIdx f.N f.side))) := by
    show setGhost f dx (.exprMixed g b) a idx = _
    unfold setGhost; simp only [hw, ↓reduceIte, ghostValue]
  rw [hc, hg']
  exact exprMixed_exact _ _ _ _ hdx hg

/-- the expression target `mixed` divides by zero exactly at the singular coefficients -/
theorem divByZero_iff [DecidableEq K] (f : Face) (dx : K) (g b : List Int → K) (idx : List Int) :
    divByZero f dx (.exprMixed g b) idx = true ↔ g (f.valueIdx idx) * dx + 2 = 0 := by
  simp [divByZero]

/-! ### all faces together: the order of the faces is irrelevant -/

/-- the value a face writes depends only on entries that no face writes: if two arrays agree
on all indices whose own-axis coordinate is a valid cell, the written values agree -/
theorem ghostValue_congr (f : Face) (dx : K) (c : Cond K) (a b : List Int → K) (idx : List Int)
    (hw : f.writes idx = true) (hf : f.WF) (h2 : ∀ k, c = .curvature k → 2 ≤ f.N)
    (hab : ∀ cc : Int, 1 ≤ cc → cc ≤ f.N → a (f.at idx cc) = b (f.at idx cc)) :
    ghostValue f dx c a idx = ghostValue f dx c b idx := by
  have hn := nearIdx_valid f.N f.side hf.2
  have ho := oppIdx_valid f.N f.side hf.2
  cases c with
  | curvature k =>
    have hn2 := near2Idx_valid f.N f.side (h2 k rfl)
    simp only [ghostValue, hab _ hn.1 hn.2, hab _ hn2.1 hn2.2]
  | periodic flip => simp only [ghostValue, hab _ ho.1 ho.2]
  | _ => simp only [ghostValue, hab _ hn.1 hn.2]

/-- a consistent set of faces of one field: same shape and rank, well-formed, pairwise
different (axis, side), two cells where a curvature condition is used -/
structure Compatible (faces : List (Face × K × Cond K)) : Prop where
  same : ∀ fc ∈ faces, ∀ gc ∈ faces, fc.1.shape = gc.1.shape ∧ fc.1.rank = gc.1.rank
  wf : ∀ fc ∈ faces, fc.1.WF
  distinct : faces.Pairwise (fun fc gc => ¬ (fc.1.axis = gc.1.axis ∧ fc.1.side = gc.1.side))
  curv : ∀ fc ∈ faces, ∀ k, fc.2.2 = .curvature k → 2 ≤ fc.1.N

/-- no face writes an entry that another face (or itself) reads -/
theorem Face.not_writes_at_other (f g : Face) (idx : List Int) (c : Int)
    (hs : f.shape = g.shape) (hr : f.rank = g.rank) (hf : f.WF) (hg : g.WF)
    (hw : g.writes idx = true) (hc : 1 ≤ c ∧ c ≤ g.N) : f.writes (g.at idx c) = false := by
  obtain ⟨hgh, hlen⟩ := g.writes_ghost idx hw
  apply f.not_writes_of_valid
  rw [hr, g.drop_at idx c (by omega)]
  by_cases hax : f.axis = g.axis
  · rw [hax, getD_setAt_same _ _ _ (by simp; have := hg.1; omega)]
    have : f.N = g.N := by unfold Face.N; rw [hs, hax]
    rw [this]; exact hc
  · rw [getD_setAt_other _ _ _ _ (Ne.symm hax)]
    have := (setGhost_writes_exactly_face g idx hw).2 f.axis (by rw [← hs]; exact hf.1) hax
    unfold Face.N; rw [hs]; exact this

/-- two compatible faces never write the same entry -/
theorem Face.writes_disjoint (f g : Face) (idx : List Int)
    (hs : f.shape = g.shape) (hr : f.rank = g.rank) (hf : f.WF)
    (hwf : f.writes idx = true) (hwg : g.writes idx = true) :
    f.axis = g.axis ∧ f.side = g.side := by
  by_cases hax : f.axis = g.axis
  · refine ⟨hax, ?_⟩
    have h1 := (f.writes_ghost idx hwf).1
    have h2 := (g.writes_ghost idx hwg).1
    have hN : f.N = g.N := by unfold Face.N; rw [hs, hax]
    rw [hr, hax, h2, hN] at h1
    cases hsf : f.side <;> cases hsg : g.side <;> rw [hsf, hsg] at h1 <;>
      simp only [ghostIdx] at h1 <;> first | rfl | omega
  · exfalso
    have := (setGhost_writes_exactly_face g idx hwg).2 f.axis (by rw [← hs]; exact hf.1) hax
    have h1 := (f.writes_ghost idx hwf).1
    rw [hr] at h1
    rw [h1] at this
    have hN : (g.shape.getD f.axis 0) = f.N := by unfold Face.N; rw [hs]
    rw [hN] at this
    cases hsf : f.side <;> rw [hsf] at this <;> simp only [ghostIdx] at this <;> omega

/-- **entries no face writes keep their value** (all valid cells, edges, corners, and for
normal conditions all other components) -/
theorem setGhostAll_frame (faces : List (Face × K × Cond K)) (a : List Int → K) (idx : List Int)
    (h : ∀ fc ∈ faces, fc.1.writes idx = false) : setGhostAll faces a idx = a idx := by
  unfold setGhostAll
  induction faces generalizing a with
  | nil => rfl
  | cons fc rest ih =>
    simp only [List.foldl_cons]
    rw [ih _ (fun gc hg => h gc (List.mem_cons_of_mem _ hg))]
    exact setGhost_frame _ _ _ _ _ (h fc List.mem_cons_self)

/-- **every face's entry gets that face's value computed from the valid cells of the
original array, whatever the order in which the faces are processed** -/
theorem setGhostAll_written (faces : List (Face × K × Cond K)) (hc : Compatible faces)
    (a : List Int → K) (idx : List Int) (fc : Face × K × Cond K) (hfc : fc ∈ faces)
    (hw : fc.1.writes idx = true) :
    setGhostAll faces a idx = ghostValue fc.1 fc.2.1 fc.2.2 a idx := by
  unfold setGhostAll
  induction faces generalizing a with
  | nil => cases hfc
  | cons gc rest ih =>
    simp only [List.foldl_cons]
    have hc' : Compatible rest :=
      ⟨fun x hx y hy => hc.same x (List.mem_cons_of_mem _ hx) y (List.mem_cons_of_mem _ hy),
       fun x hx => hc.wf x (List.mem_cons_of_mem _ hx),
       (List.pairwise_cons.mp hc.distinct).2,
       fun x hx => hc.curv x (List.mem_cons_of_mem _ hx)⟩
    rcases List.mem_cons.mp hfc with rfl | hmem
    · -- the first face writes idx; no later face does
      have hnone : ∀ x ∈ rest, x.1.writes idx = false := by
        intro x hx
        by_contra hcon
        have hwx : x.1.writes idx = true := by simpa using hcon
        obtain ⟨hs, hr⟩ := hc.same fc List.mem_cons_self x (List.mem_cons_of_mem _ hx)
        have := Face.writes_disjoint fc.1 x.1 idx hs hr (hc.wf fc List.mem_cons_self) hw hwx
        exact (List.pairwise_cons.mp hc.distinct).1 x hx this
      have := setGhostAll_frame rest (setGhost fc.1 fc.2.1 fc.2.2 a) idx hnone
      unfold setGhostAll at this
      rw [this]
      unfold setGhost; simp [hw]
    · rw [ih hc' (setGhost gc.1 gc.2.1 gc.2.2 a) hmem]
      apply ghostValue_congr _ _ _ _ _ _ hw (hc.wf fc hfc) (hc.curv fc hfc)
      intro cc h1 h2
      obtain ⟨hs, hr⟩ := hc.same gc List.mem_cons_self fc hfc
      exact setGhost_frame _ _ _ _ _
        (Face.not_writes_at_other gc.1 fc.1 idx cc hs hr (hc.wf gc List.mem_cons_self)
          (hc.wf fc hfc) hw ⟨h1, h2⟩)

/-- the order in which the faces are processed is irrelevant -/
theorem setGhostAll_perm (faces faces' : List (Face × K × Cond K)) (hp : faces.Perm faces')
    (hc : Compatible faces) (hc' : Compatible faces') (a : List Int → K) :
    setGhostAll faces a = setGhostAll faces' a := by
  funext idx
  by_cases h : ∃ fc ∈ faces, fc.1.writes idx = true
  · obtain ⟨fc, hfc, hw⟩ := h
    rw [setGhostAll_written faces hc a idx fc hfc hw,
      setGhostAll_written faces' hc' a idx fc (hp.mem_iff.mp hfc) hw]
  · have h1 : ∀ fc ∈ faces, fc.1.writes idx = false := by
      intro fc hfc
      by_contra hcon
      exact h ⟨fc, hfc, by simpa using hcon⟩
    rw [setGhostAll_frame faces a idx h1,
      setGhostAll_frame faces' a idx (fun fc hfc => h1 fc (hp.mem_iff.mpr hfc))]

/-! ### the end state: after `setGhostAll` every face satisfies its defining equation -/

/-- the defining equation of condition `c` at the ghost entry `idx` of face `f`, read off the
padded array `A` (the statement of the property for one face point):
value `(ghost+cell)/2 = v`, derivative `(ghost-cell)/dx = d`, Robin `∂ₙc + γ c = β` (value 0 where
the coefficient is infinite/singular, i.e. where the code takes the corrected branch), curvature
`(ghost - 2 c₁ + c₂)/dx² = k`, periodic `ghost = ± opposite cell` -/
def HoldsAt (f : Face) (dx : K) (c : Cond K) (A : List Int → K) (idx : List Int) : Prop :=
  let vi := f.valueIdx idx
  let ghost := A idx
  let cell := A (f.at idx (nearIdx f.N f.side))
  match c with
  | .dirichlet v => (ghost + cell) / 2 = v vi
  | .neumann d => (ghost - cell) / dx = d vi
  | .mixed nf g b =>
    if nf vi then (ghost + cell) / 2 = 0
    else (ghost - cell) / dx + g vi * ((ghost + cell) / 2) = b vi
  | .curvature k => (ghost - 2 * cell + A (f.at idx (near2Idx f.N f.side))) / (dx * dx) = k vi
  | .periodic flip => ghost = (if flip then -1 else 1) * A (f.at idx (oppIdx f.N f.side))
  | .exprValue v => (ghost + cell) / 2 = v vi
  | .exprDerivative v => (ghost - cell) / dx = v vi
  | .exprMixed g b => (ghost - cell) / dx + g vi * ((ghost + cell) / 2) = b vi

/-- the coefficients for which the Robin equation determines the virtual point -/
def RegularAt (f : Face) (dx : K) (c : Cond K) (idx : List Int) : Prop :=
  match c with
  | .mixed nf g _ => nf (f.valueIdx idx) = false → 2 + dx * g (f.valueIdx idx) ≠ 0
  | .exprMixed g _ => g (f.valueIdx idx) * dx + 2 ≠ 0
  | _ => True

/-- an array whose ghost entry equals the value the face computes *from that same array*
satisfies the defining equation -/
theorem holdsAt_of_fixed (f : Face) (dx : K) (hdx : dx ≠ 0) (c : Cond K) (A : List Int → K)
    (idx : List Int) (hreg : RegularAt f dx c idx) (hfix : A idx = ghostValue f dx c A idx) :
    HoldsAt f dx c A idx := by
  cases c with
  | dirichlet v => simp only [HoldsAt]; rw [hfix]; exact dirichlet_exact _ _
  | neumann d => simp only [HoldsAt]; rw [hfix]; exact neumann_exact _ _ _ hdx
  | mixed nf g b =>
    simp only [HoldsAt]
    by_cases hnf : nf (f.valueIdx idx) = true
    · rw [if_pos hnf, hfix]
      simp only [ghostValue, vpMixedSel, hnf, ↓reduceIte]
      exact robin_infinite_is_dirichlet0 _
    · have hnf' : nf (f.valueIdx idx) = false := by simpa using hnf
      rw [if_neg hnf, hfix]
      simp only [ghostValue, vpMixedSel, hnf', Bool.false_eq_true, ↓reduceIte]
      exact robin_exact _ _ _ _ hdx (hreg hnf')
  | curvature k => simp only [HoldsAt]; rw [hfix]; exact curvature_exact _ _ _ _ hdx
  | periodic flip =>
    simp only [HoldsAt]; rw [hfix]
    cases flip <;> simp [ghostValue, ghost1, vpPeriodic]
  | exprValue v => simp only [HoldsAt]; rw [hfix]; exact exprValue_exact _ _
  | exprDerivative v => simp only [HoldsAt]; rw [hfix]; exact exprDerivative_exact _ _ _ hdx
  | exprMixed g b => simp only [HoldsAt]; rw [hfix]; exact exprMixed_exact _ _ _ _ hdx hreg

/-- **the final array is a fixed point of every face**: each written entry equals the value its
face computes from the *final* array (no face disturbs what another face - or itself - reads) -/
theorem setGhostAll_fixed (faces : List (Face × K × Cond K)) (hc : Compatible faces)
    (a : List Int → K) (idx : List Int) (fc : Face × K × Cond K) (hfc : fc ∈ faces)
    (hw : fc.1.writes idx = true) :
    setGhostAll faces a idx = ghostValue fc.1 fc.2.1 fc.2.2 (setGhostAll faces a) idx := by
  rw [setGhostAll_written faces hc a idx fc hfc hw]
  apply ghostValue_congr _ _ _ _ _ _ hw (hc.wf fc hfc) (hc.curv fc hfc)
  intro cc h1 h2
  symm
  apply setGhostAll_frame
  intro gc hgc
  obtain ⟨hs, hr⟩ := hc.same gc hgc fc hfc
  exact Face.not_writes_at_other gc.1 fc.1 idx cc hs hr (hc.wf gc hgc) (hc.wf fc hfc) hw ⟨h1, h2⟩

/-- **C02, composed over all faces**: after `setGhostAll` (the model of
`BoundariesList.set_ghost_cells` and of the compiled setter) the defining equation of every
face's condition holds at every point of that face, in the final array, for any compatible list
of faces, any field contents and any values -/
theorem setGhostAll_holds (faces : List (Face × K × Cond K)) (hc : Compatible faces)
    (a : List Int → K) (idx : List Int) (fc : Face × K × Cond K) (hfc : fc ∈ faces)
    (hw : fc.1.writes idx = true) (hdx : fc.2.1 ≠ 0) (hreg : RegularAt fc.1 fc.2.1 fc.2.2 idx) :
    HoldsAt fc.1 fc.2.1 fc.2.2 (setGhostAll faces a) idx :=
  holdsAt_of_fixed fc.1 fc.2.1 hdx fc.2.2 _ idx hreg (setGhostAll_fixed faces hc a idx fc hfc hw)

/-- the composed statement for the value condition, spelled out -/
theorem setGhostAll_dirichlet (faces : List (Face × K × Cond K)) (hc : Compatible faces)
    (a : List Int → K) (idx : List Int) (f : Face) (dx : K) (v : List Int → K)
    (hfc : (f, dx, Cond.dirichlet v) ∈ faces) (hw : f.writes idx = true) (hdx : dx ≠ 0) :
    (setGhostAll faces a idx + setGhostAll faces a (f.at idx (nearIdx f.N f.side))) / 2
      = v (f.valueIdx idx) :=
  setGhostAll_holds faces hc a idx (f, dx, .dirichlet v) hfc hw hdx trivial

/-- the composed statement for `MixedBC` with the coefficients as the user gives them: the Robin
equation at every finite regular coefficient, the value 0 at every infinite one -/
theorem setGhostAll_robin [DecidableEq K] (faces : List (Face × K × Cond K)) (hc : Compatible faces)
    (a : List Int → K) (idx : List Int) (f : Face) (dx : K) (g : List Int → Coef K)
    (b : List Int → K) (hfc : (f, dx, Cond.robin dx g b) ∈ faces) (hw : f.writes idx = true)
    (hdx : dx ≠ 0) :
    let A := setGhostAll faces a
    let cell := A (f.at idx (nearIdx f.N f.side))
    (∀ γ, g (f.valueIdx idx) = .fin γ → 2 + dx * γ ≠ 0 →
        (A idx - cell) / dx + γ * ((A idx + cell) / 2) = b (f.valueIdx idx)) ∧
    (g (f.valueIdx idx) = .inf → (A idx + cell) / 2 = 0) := by
  intro A cell
  have hfix := setGhostAll_fixed faces hc a idx (f, dx, Cond.robin dx g b) hfc hw
  constructor
  · intro γ hγ hreg
    have h := holdsAt_of_fixed f dx hdx (Cond.robin dx g b) A idx
      (by simp [RegularAt, Cond.robin, hγ, Coef.val, hreg]) hfix
    simpa [HoldsAt, Cond.robin, hγ, Coef.nonFinite, Coef.val, hreg] using h
  · intro hγ
    have h := holdsAt_of_fixed f dx hdx (Cond.robin dx g b) A idx
      (by simp [RegularAt, Cond.robin, hγ, Coef.nonFinite]) hfix
    simpa [HoldsAt, Cond.robin, hγ, Coef.nonFinite] using h

/-- normal-only conditions, composed: a component whose last tensor index differs from the axis
of every `normal` face, at an index that no non-normal face writes, keeps its value - ghost
cells included -/
theorem setGhostAll_normal_untouched (faces : List (Face × K × Cond K)) (a : List Int → K)
    (idx : List Int)
    (h : ∀ fc ∈ faces, (fc.1.normal = true ∧
        (idx.take fc.1.rank).getD (fc.1.rank - 1) 0 ≠ (fc.1.axis : Int)) ∨ fc.1.writes idx = false) :
    setGhostAll faces a idx = a idx := by
  apply setGhostAll_frame
  intro fc hfc
  rcases h fc hfc with ⟨hn, hcomp⟩ | hw
  · unfold Face.writes
    have : ((idx.take fc.1.rank).getD (fc.1.rank - 1) 0 == (fc.1.axis : Int)) = false := by
      simpa using hcomp
    simp only [hn, this, Bool.not_true, Bool.false_or, Bool.and_false]
  · exact hw

end array

/-! ### non-vacuity -/
example : ({ shape := [3, 2], rank := 1, axis := 0, side := .upper, normal := true } : Face).WF := by
  unfold Face.WF Face.N; simp
example : ({ shape := [3, 2], rank := 1, axis := 0, side := .upper, normal := true } : Face).writes
    [0, 4, 2] = true := by decide
example : ({ shape := [3, 2], rank := 1, axis := 0, side := .upper, normal := true } : Face).writes
    [1, 4, 2] = false := by decide
example : setGhost ({ shape := [3], rank := 0, axis := 0, side := .lower, normal := false } : Face)
    (1/2 : Rat) (.neumann (fun _ => 3)) (fun i => (i.getD 0 0 : Rat)) [0] = 5/2 := by
  decide +kernel

/-- both faces of a 3-cell axis: value 3 below; above a Robin condition whose coefficient `-4` is
singular for `dx = 1/2` (`2 + dx γ = 0`) -/
def exFaces : List (Face × Rat × Cond Rat) :=
  [({ shape := [3], rank := 0, axis := 0, side := .lower, normal := false }, 1/2,
      .dirichlet (fun _ => 3)),
   ({ shape := [3], rank := 0, axis := 0, side := .upper, normal := false }, 1/2,
      Cond.robin (1/2) (fun _ => .fin (-4)) (fun _ => 1))]

/-- the hypotheses of the composed theorems are satisfiable -/
example : Compatible exFaces :=
  ⟨by simp [exFaces], by simp [exFaces, Face.WF, Face.N], by simp [exFaces],
   by simp [exFaces, Cond.robin]⟩
example : setGhostAll exFaces (fun i => (i.getD 0 0 : Rat)) [0] = 5 := by decide +kernel
/-- at the singular coefficient the code writes `-cell` (boundary value 0) -/
example : setGhostAll exFaces (fun i => (i.getD 0 0 : Rat)) [4] = -3 := by decide +kernel
/-- a regular negative coefficient (`γ = -2`, `dx = 1/2`, `β = 1`): ghost = 1 + 3*cell -/
example : setGhost ({ shape := [3], rank := 0, axis := 0, side := .upper, normal := false } : Face)
    (1/2 : Rat) (Cond.robin (1/2) (fun _ => .fin (-2)) (fun _ => 1)) (fun i => (i.getD 0 0 : Rat)) [4]
    = 10 := by decide +kernel
/-- an infinite coefficient -/
example : setGhost ({ shape := [3], rank := 0, axis := 0, side := .upper, normal := false } : Face)
    (1/2 : Rat) (Cond.robin (1/2) (fun _ => .inf) (fun _ => 1)) (fun i => (i.getD 0 0 : Rat)) [4]
    = -3 := by decide +kernel

end PdeVerif.BC

/-! ## resolution of boundary-condition specifications -/
namespace PdeVerif.BCParse

/-- declarative precedence: named boundary > `axis-`/`axis+` > `axis` > `*`
(`get` skips missing keys and falsy values, the wildcard is taken as it is) -/
def pick (g : GridNames) (d : Data) (ax : Nat) (upper : Bool) : Option Entry :=
  let axName := g.axes.getD ax ""
  let names := g.sides.filter (fun e => e.2.1 == ax && e.2.2 == upper)
  (names.reverse.findSome? (fun e => get d e.1)) <|>
    get d (axName ++ (if upper then "+" else "-")) <|> get d axName <|> d.lookup "*"

theorem foldl_override (d : Data) (names : List (String × Nat × Bool)) (init : Option Entry) :
    names.foldl (fun acc e => get d e.1 <|> acc) init
      = ((names.reverse.findSome? (fun e => get d e.1)) <|> init) := by
  induction names generalizing init with
  | nil => simp
  | cons e es ih =>
    simp only [List.foldl_cons, List.reverse_cons, List.findSome?_append]
    rw [ih]
    cases h1 : es.reverse.findSome? (fun e => get d e.1) with
    | some s => simp
    | none =>
      cases h2 : get d e.1 with
      | some s => simp [h2]
      | none => simp [h2]

/-- **the most specific specification wins** - the imperative overwriting order of
`_parse_from_dict` realises the declarative precedence -/
theorem parse_most_specific_wins (g : GridNames) (d : Data) (ax : Nat) (upper : Bool) :
    resolveSide g d ax upper = pick g d ax upper := by
  unfold resolveSide pick
  simp only
  rw [foldl_override]

/-- **keys the grid does not know are ignored** (an axis name of another grid, a misspelt side):
adding such an item to the dictionary changes no side -/
theorem unknown_key_ignored (g : GridNames) (d : Data) (ax : Nat) (upper : Bool) (k : String)
    (e : Entry) (hstar : k ≠ "*") (hax : k ≠ g.axes.getD ax "")
    (hside : k ≠ g.axes.getD ax "" ++ (if upper then "+" else "-"))
    (hnames : ∀ s ∈ g.sides, s.1 ≠ k) :
    resolveSide g ((k, e) :: d) ax upper = resolveSide g d ax upper := by
  have hl : ∀ k', k' ≠ k → List.lookup k' ((k, e) :: d) = List.lookup k' d := by
    intro k' hk
    have hb : (k' == k) = false := by simpa using hk
    simp [List.lookup_cons, hb]
  have hg : ∀ k', k' ≠ k → get ((k, e) :: d) k' = get d k' := by
    intro k' hk; unfold get; rw [hl k' hk]
  unfold resolveSide
  simp only
  rw [hl "*" (Ne.symm hstar), hg _ (Ne.symm hax), hg _ (Ne.symm hside)]
  generalize (get d (g.axes.getD ax "" ++ if upper = true then "+" else "-") <|>
    get d (g.axes.getD ax "") <|> List.lookup "*" d) = init
  have hsub : ∀ s ∈ g.sides.filter (fun e => e.2.1 == ax && e.2.2 == upper), s.1 ≠ k :=
    fun s hs => hnames s (List.mem_of_mem_filter hs)
  generalize g.sides.filter (fun e => e.2.1 == ax && e.2.2 == upper) = names at hsub
  induction names generalizing init with
  | nil => rfl
  | cons s ss ih =>
    simp only [List.foldl_cons]
    rw [hg s.1 (hsub s List.mem_cons_self)]
    exact ih _ (fun t ht => hsub t (List.mem_cons_of_mem _ ht))

theorem sideBC_ok (per : Bool) (s : Option Spec) (r : Kind × Nat) (h : sideBC per s = .ok r) :
    per = false := by
  unfold sideBC at h
  split at h
  · split at h
    · split_ifs at h with hp
      simpa using hp
    · cases h
  · cases h

theorem pairOf_ok (per : Bool) (lo hi : Option Spec) (r : AxisBC) (h : pairOf per lo hi = .ok r) :
    per = false ∧ ∃ l hh, r = .pair l hh := by
  unfold pairOf at h
  cases hl : sideBC per lo with
  | error e => simp [hl] at h
  | ok l =>
    cases hh : sideBC per hi with
    | error e => simp [hl, hh] at h
    | ok h' =>
      simp only [hl, hh] at h
      cases h
      exact ⟨sideBC_ok per lo l hl, l, h', rfl⟩

theorem lowHighBC_ok (per : Bool) (lo hi : Option Spec) (extra : Bool) (r : AxisBC)
    (h : lowHighBC per lo hi extra = .ok r) :
    per = false ∧ extra = false ∧ ∃ l hh, r = .pair l hh := by
  unfold lowHighBC at h
  cases lo with
  | none => cases h
  | some l =>
    simp only at h
    cases hl : sideBC per (some l) with
    | error e => simp [hl] at h
    | ok L =>
      simp only [hl] at h
      cases hi with
      | none => cases h
      | some hh =>
        simp only at h
        cases hh' : sideBC per (some hh) with
        | error e => simp [hh'] at h
        | ok H =>
          simp only [hh'] at h
          split_ifs at h with hx
          cases h
          exact ⟨sideBC_ok per _ L hl, by simpa using hx, L, H, rfl⟩

/-- the `{"low": lo, "high": hi}` format denotes the pair of its two conditions -/
theorem lowHigh_is_pair (per : Bool) (lo hi : Spec) :
    entryBC per (.lowHigh (some lo) (some hi) false) = pairOf per (some lo) (some hi) := by
  simp only [entryBC, lowHighBC, pairOf]
  cases sideBC per (some lo) with
  | error e => rfl
  | ok L =>
    cases sideBC per (some hi) with
    | error e => rfl
    | ok H => simp

/-- a two-element sequence denotes the pair of its two conditions (a lone "periodic" is an error) -/
theorem seq_is_pair (per : Bool) (lo hi : Spec) (h1 : lo ≠ .periodic) (h2 : hi ≠ .periodic) :
    entryBC per (.seq [lo, hi]) = pairOf per (some lo) (some hi) := by
  simp [entryBC, h1, h2]

/-- **the three ways to write two different conditions for the two sides of an axis agree**:
`{"x": {"low": A, "high": B}}`, `{"x": (A, B)}` and `{"x-": A, "x+": B}` -/
theorem formats_agree (per : Bool) (A B : Spec) (hne : A ≠ B) (hA : A ≠ .periodic) (hB : B ≠ .periodic) :
    axisOfSides per (some (.lowHigh (some A) (some B) false)) (some (.lowHigh (some A) (some B) false))
      = axisOfSides per (some (.one A)) (some (.one B)) ∧
    axisOfSides per (some (.seq [A, B])) (some (.seq [A, B]))
      = axisOfSides per (some (.one A)) (some (.one B)) := by
  have h1 : ¬ ((some (Entry.one A) : Option Entry) = some (.one B)) := by simpa using hne
  have hpA : Entry.isPeriodic (some (.one A)) = false := by
    cases A <;> simp_all [Entry.isPeriodic]
  have hpB : Entry.isPeriodic (some (.one B)) = false := by
    cases B <;> simp_all [Entry.isPeriodic]
  have rhs : axisOfSides per (some (.one A)) (some (.one B)) = pairOf per (some A) (some B) := by
    simp [axisOfSides, h1, hpA, hpB, Entry.asSide]
  rw [rhs]
  constructor
  · simp only [axisOfSides, ↓reduceIte]
    exact lowHigh_is_pair per A B
  · simp only [axisOfSides, ↓reduceIte]
    exact seq_is_pair per A B hA hB

/-- a `{"low", "high"}` dictionary with a missing side or with left-over items is an error -/
theorem lowHigh_incomplete_is_error (per : Bool) (lo hi : Option Spec) (extra : Bool)
    (h : lo = none ∨ hi = none ∨ extra = true) : ∃ e, lowHighBC per lo hi extra = .error e := by
  cases hr : lowHighBC per lo hi extra with
  | error e => exact ⟨e, rfl⟩
  | ok r =>
    exfalso
    unfold lowHighBC at hr
    cases lo with
    | none => cases hr
    | some l =>
      simp only at hr
      cases hl : sideBC per (some l) with
      | error e => simp [hl] at hr
      | ok L =>
        simp only [hl] at hr
        cases hi with
        | none => cases hr
        | some hh =>
          simp only at hr
          cases hh' : sideBC per (some hh) with
          | error e => simp [hh'] at hr
          | ok H =>
            simp only [hh'] at hr
            rcases h with h | h | h
            · cases h
            · cases h
            · simp [h] at hr

/-- sequences of any other length are errors -/
theorem seq_wrong_length_is_error (per : Bool) (l : List Spec) (h : l.length ≠ 2) :
    entryBC per (.seq l) = .error .bcdata := by
  match l, h with
  | [], _ => rfl
  | [_], _ => rfl
  | [_, _], h => exact absurd rfl h
  | _ :: _ :: _ :: _, _ => rfl

/-- a side for which nothing at all is specified is an error, never a silent default -/
theorem unspecified_is_error (per : Bool) (hi : Option Spec) : ∃ e, axisBC per none hi = .error e := by
  unfold axisBC
  by_cases h : (none : Option Spec) = hi
  · subst h; exact ⟨.bcdata, by simp [single, pairOf, sideBC]⟩
  · simp only [h, ↓reduceIte]
    by_cases h2 : (none : Option Spec) = some Spec.periodic ∨ hi = some Spec.periodic
    · rw [if_pos h2]; exact ⟨_, rfl⟩
    · rw [if_neg h2]; exact ⟨.bcdata, by simp [pairOf, sideBC]⟩

/-- the same for the sides resolved from a dictionary (whatever format the other side has) -/
theorem unspecified_side_is_error (per : Bool) (other : Option Entry) :
    (∃ e, axisOfSides per none other = .error e) ∧ (∃ e, axisOfSides per other none = .error e) := by
  constructor
  · unfold axisOfSides
    by_cases h : (none : Option Entry) = other
    · subst h; exact ⟨.bcdata, by simp⟩
    · simp only [h, ↓reduceIte]
      split_ifs
      · exact ⟨_, rfl⟩
      · exact ⟨.bcdata, by simp [pairOf, sideBC, Entry.asSide]⟩
  · unfold axisOfSides
    by_cases h : other = (none : Option Entry)
    · subst h; exact ⟨.bcdata, by simp⟩
    · simp only [h, ↓reduceIte]
      split_ifs
      · exact ⟨_, rfl⟩
      · cases hl : sideBC per (Entry.asSide other) with
        | error e => exact ⟨e, by simp [pairOf, hl]⟩
        | ok L => exact ⟨.bcdata, by unfold pairOf; rw [hl]; simp [sideBC, Entry.asSide]⟩

/-- `auto_periodic_<name>` is `periodic` on periodic axes and `<name>` otherwise -/
theorem auto_periodic_resolves (per : Bool) (n : String) (v : Nat) :
    axisBC per (some (.auto n v)) (some (.auto n v)) =
      if per then .ok .periodic else axisBC false (some (.named n v)) (some (.named n v)) := by
  cases per <;> simp [axisBC, single]

def AxisBC.isPeriodic : AxisBC → Bool
  | .periodic => true
  | .antiperiodic => true
  | .pair _ _ => false

theorem single_consistent (per : Bool) (s : Option Spec) (r : AxisBC) (h : single per s = .ok r) :
    per = r.isPeriodic := by
  unfold single at h
  split at h
  · split_ifs at h with hp
    cases h; simp [hp, AxisBC.isPeriodic]
  · split_ifs at h with hp
    cases h; simp [hp, AxisBC.isPeriodic]
  · split_ifs at h with hp
    · cases h; simp [hp, AxisBC.isPeriodic]
    · obtain ⟨h1, l, hh, h2⟩ := pairOf_ok _ _ _ _ h
      subst h2; simp [h1, AxisBC.isPeriodic]
  · obtain ⟨h1, l, hh, h2⟩ := pairOf_ok _ _ _ _ h
    subst h2; simp [h1, AxisBC.isPeriodic]

theorem pairOf_consistent (per : Bool) (lo hi : Option Spec) (r : AxisBC)
    (h : pairOf per lo hi = .ok r) : per = r.isPeriodic := by
  obtain ⟨h1, l, hh, h2⟩ := pairOf_ok _ _ _ _ h
  subst h2; simp [h1, AxisBC.isPeriodic]

theorem axisBC_consistent (per : Bool) (lo hi : Option Spec) (r : AxisBC)
    (h : axisBC per lo hi = .ok r) : per = r.isPeriodic := by
  unfold axisBC at h
  split_ifs at h
  · exact single_consistent _ _ _ h
  · exact pairOf_consistent _ _ _ _ h

theorem lowHighBC_consistent (per : Bool) (lo hi : Option Spec) (extra : Bool) (r : AxisBC)
    (h : lowHighBC per lo hi extra = .ok r) : per = r.isPeriodic := by
  obtain ⟨h1, _, l, hh, h2⟩ := lowHighBC_ok _ _ _ _ _ h
  subst h2; simp [h1, AxisBC.isPeriodic]

theorem entryBC_consistent (per : Bool) (e : Entry) (r : AxisBC) (h : entryBC per e = .ok r) :
    per = r.isPeriodic := by
  unfold entryBC at h
  split at h
  · exact single_consistent _ _ _ h
  · exact lowHighBC_consistent _ _ _ _ _ h
  · split_ifs at h
    exact pairOf_consistent _ _ _ _ h
  · cases h

theorem axisOfSides_consistent (per : Bool) (lo hi : Option Entry) (r : AxisBC)
    (h : axisOfSides per lo hi = .ok r) : per = r.isPeriodic := by
  unfold axisOfSides at h
  split_ifs at h
  · split at h
    · cases h
    · exact entryBC_consistent _ _ _ h
  · exact pairOf_consistent _ _ _ _ h

theorem axisOfData_consistent (per : Bool) (e : Entry) (r : AxisBC) (h : axisOfData per e = .ok r) :
    per = r.isPeriodic := by
  unfold axisOfData at h
  split at h
  · split_ifs at h
    · exact single_consistent _ _ _ h
    · exact entryBC_consistent _ _ _ h
  · exact entryBC_consistent _ _ _ h

/-- whatever is accepted for an axis agrees with the periodicity of the grid axis -/
theorem periodicity_consistent (per : Bool) (lo hi : Option Spec) (r : AxisBC)
    (h : axisBC per lo hi = .ok r) :
    (per = true ↔ (r = .periodic ∨ r = .antiperiodic)) := by
  have := axisBC_consistent per lo hi r h
  cases r <;> simp_all [AxisBC.isPeriodic]

theorem mapM_except_length {α β ε : Type} (f : α → Except ε β) (l : List α) (r : List β)
    (h : l.mapM f = .ok r) : r.length = l.length := by
  induction l generalizing r with
  | nil => simp [List.mapM_nil, pure, Except.pure] at h; subst h; rfl
  | cons x xs ih =>
    rw [List.mapM_cons] at h
    cases hx : f x with
    | error e => simp [hx, bind, Except.bind] at h
    | ok y =>
      cases hxs : xs.mapM f with
      | error e => simp [hx, hxs, bind, Except.bind] at h
      | ok ys =>
        simp only [hx, hxs, bind, Except.bind, pure, Except.pure] at h
        cases h
        simp [ih ys hxs]

theorem mapM_except_getElem {α β ε : Type} (f : α → Except ε β) (l : List α) (r : List β)
    (h : l.mapM f = .ok r) (i : Nat) (hi : i < l.length) :
    ∃ y, f l[i] = .ok y ∧ r[i]? = some y := by
  induction l generalizing r i with
  | nil => simp at hi
  | cons x xs ih =>
    rw [List.mapM_cons] at h
    cases hx : f x with
    | error e => simp [hx, bind, Except.bind] at h
    | ok y =>
      cases hxs : xs.mapM f with
      | error e => simp [hx, hxs, bind, Except.bind] at h
      | ok ys =>
        simp only [hx, hxs, bind, Except.bind, pure, Except.pure] at h
        cases h
        cases i with
        | zero => exact ⟨y, by simpa using hx, by simp⟩
        | succ j =>
          obtain ⟨z, hz1, hz2⟩ := ih ys hxs j (by simpa using hi)
          exact ⟨z, by simpa using hz1, by simpa using hz2⟩

/-- a successful parse yields exactly one result per axis -/
theorem parse_length (g : GridNames) (t : Top) (r : List AxisBC) (h : parse g t = .ok r) :
    r.length = g.axes.length := by
  unfold parse at h
  cases t with
  | all s =>
    simp only at h
    have := mapM_except_length _ _ _ h
    simpa using this
  | lowHigh lo hi extra =>
    simp only at h
    have := mapM_except_length _ _ _ h
    simpa using this
  | dict d =>
    simp only [bind, Except.bind] at h
    split at h
    · cases h
    · have := mapM_except_length _ _ _ h
      simpa using this
  | list l =>
    simp only at h
    split_ifs at h with h1 h2
    · have := mapM_except_length _ _ _ h
      simpa using this
    · split at h
      · simp only [bind, Except.bind, pure, Except.pure] at h
        split at h
        · cases h
        · cases h; simp [h2.1]
      · cases h

/-- **whatever format is used, every accepted specification agrees with the periodicity of the
grid on every axis**: axis `ax` of the result is (anti-)periodic iff the grid axis is periodic -/
theorem parse_periodicity_consistent (g : GridNames) (t : Top) (r : List AxisBC)
    (h : parse g t = .ok r) (ax : Nat) (hax : ax < g.axes.length) :
    ∃ b, r[ax]? = some b ∧ g.periodic.getD ax false = b.isPeriodic := by
  unfold parse at h
  cases t with
  | all s =>
    simp only at h
    obtain ⟨y, hy1, hy2⟩ := mapM_except_getElem _ _ _ h ax (by simpa using hax)
    simp only [List.getElem_range] at hy1
    exact ⟨y, hy2, axisBC_consistent _ _ _ _ hy1⟩
  | lowHigh lo hi extra =>
    simp only at h
    obtain ⟨y, hy1, hy2⟩ := mapM_except_getElem _ _ _ h ax (by simpa using hax)
    simp only [List.getElem_range] at hy1
    exact ⟨y, hy2, lowHighBC_consistent _ _ _ _ _ hy1⟩
  | dict d =>
    simp only [bind, Except.bind] at h
    split at h
    · cases h
    · obtain ⟨y, hy1, hy2⟩ := mapM_except_getElem _ _ _ h ax (by simpa using hax)
      simp only [List.getElem_range] at hy1
      exact ⟨y, hy2, axisOfSides_consistent _ _ _ _ hy1⟩
  | list l =>
    simp only at h
    split_ifs at h with h1 h2
    · obtain ⟨y, hy1, hy2⟩ := mapM_except_getElem _ _ _ h ax (by simpa using hax)
      simp only [List.getElem_range] at hy1
      refine ⟨y, hy2, ?_⟩
      split at hy1
      · exact axisOfData_consistent _ _ _ hy1
      · cases hy1
    · split at h
      · simp only [bind, Except.bind, pure, Except.pure] at h
        split at h
        · cases h
        · rename_i y hy
          cases h
          have : ax = 0 := by have := h2.1; omega
          subst this
          exact ⟨y, by simp, axisOfSides_consistent _ _ _ _ hy⟩
      · cases h

/-- every alias denotes the class the documentation lists (finite table) -/
theorem alias_table_classes :
    kindOf "value" = some .dirichlet ∧ kindOf "dirichlet" = some .dirichlet ∧
    kindOf "derivative" = some .neumann ∧ kindOf "neumann" = some .neumann ∧
    kindOf "mixed" = some .mixed ∧ kindOf "robin" = some .mixed ∧
    kindOf "curvature" = some .curvature ∧ kindOf "second_derivative" = some .curvature ∧
    kindOf "extrapolate" = some .curvature ∧
    kindOf "normal_value" = some .normalDirichlet ∧ kindOf "normal_derivative" = some .normalNeumann ∧
    kindOf "normal_mixed" = some .normalMixed ∧ kindOf "normal_curvature" = some .normalCurvature ∧
    kindOf "periodic" = none := by decide

example : parse ⟨["x", "y"], [], [("left", 0, false), ("right", 0, true)], [false, true]⟩
    (.dict [("*", .one (.named "value" 0)), ("left", .one (.named "neumann" 1)), ("y", .one .periodic)])
    = .ok [.pair (.neumann, 1) (.dirichlet, 0), .periodic] := by decide

/-- the low/high dictionary, a two-element sequence, an ignored unknown key and an ignored falsy value -/
example : parse ⟨["x", "y"], [], [("left", 0, false), ("right", 0, true)], [false, false]⟩
    (.dict [("x", .lowHigh (some (.named "value" 1)) (some (.named "neumann" 2)) false),
            ("y", .seq [.named "mixed" 3, .named "curvature" 4]), ("z", .one (.named "value" 5)),
            ("right", .seq [])])
    = .ok [.pair (.dirichlet, 1) (.neumann, 2), .pair (.mixed, 3) (.curvature, 4)] := by decide

/-- legacy list format: one entry per axis; two identical conditions are reduced to one -/
example : parse ⟨["x", "y"], [], [], [true, false]⟩
    (.list [.seq [.periodic, .periodic], .lowHigh (some (.named "value" 1)) (some (.named "value" 2)) false])
    = .ok [.periodic, .pair (.dirichlet, 1) (.dirichlet, 2)] := by decide

/-- the same two-element sequence written under an axis key is NOT reduced -/
example : parse ⟨["x"], [], [], [true]⟩ (.dict [("x", .seq [.periodic, .periodic])])
    = .error .bcdata := by decide

end PdeVerif.BCParse
