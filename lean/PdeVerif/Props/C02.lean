import PdeVerif.Model.BC
import PdeVerif.Model.BCParse
import PdeVerif.Lemmas.Basic
/-
C02 - boundary conditions hold exactly at the discrete boundary.
Theorems about `PdeVerif.BC` (model of pde/grids/boundaries/local.py and the compiled
re-implementation in pde/backends/numba/_boundaries.py).
-/
namespace PdeVerif.BC
open PdeVerif

section scalar
variable {K : Type} [Field K] [CharZero K]

/-! ### the defining equations on one face (any values) -/

/-- value condition: `(ghost + cell)/2 = v` -/
theorem dirichlet_exact (v cell : K) : (ghost1 (vpDirichlet v) cell + cell) / 2 = v := by
  unfold ghost1 vpDirichlet; push_cast; ring

/-- derivative condition: `(ghost - cell)/dx = d` (outward derivative) -/
theorem neumann_exact (dx d cell : K) (hdx : dx ≠ 0) :
    (ghost1 (vpNeumann dx d) cell - cell) / dx = d := by
  unfold ghost1 vpNeumann; push_cast; field_simp; ring

/-- Robin condition `∂ₙc + γ c = β` with the boundary value `(ghost+cell)/2` -/
theorem robin_exact (dx g b cell : K) (hdx : dx ≠ 0) (hg : 2 + dx * g ≠ 0) :
    (ghost1 (vpMixed dx g b) cell - cell) / dx + g * ((ghost1 (vpMixed dx g b) cell + cell) / 2) = b := by
  unfold ghost1 vpMixed; push_cast; field_simp; ring

/-- the non-finite branch (`γ = ∞`) imposes the value 0 -/
theorem robin_infinite_is_dirichlet0 (cell : K) : (ghost1 (vpMixedInf : K × K) cell + cell) / 2 = 0 := by
  unfold ghost1 vpMixedInf; push_cast; ring

/-- `γ = 0` is the derivative condition -/
theorem robin_zero_is_neumann (dx b cell : K) :
    ghost1 (vpMixed dx 0 b) cell = ghost1 (vpNeumann dx b) cell := by
  unfold ghost1 vpMixed vpNeumann; push_cast; field_simp; ring

/-- curvature condition: `(ghost - 2 c1 + c2)/dx² = k` -/
theorem curvature_exact (dx k c1 c2 : K) (hdx : dx ≠ 0) :
    (ghost2 (vpCurvature dx k) c1 c2 - 2 * c1 + c2) / (dx * dx) = k := by
  unfold ghost2 vpCurvature; push_cast; field_simp; ring

theorem periodic_exact (opp : K) : ghost1 (vpPeriodic false) opp = opp := by
  unfold ghost1 vpPeriodic; simp

theorem antiperiodic_exact (opp : K) : ghost1 (vpPeriodic true) opp = -opp := by
  unfold ghost1 vpPeriodic; simp

/-! ### expression targets -/
theorem exprValue_exact (v cell : K) : (exprValue v cell + cell) / 2 = v := by
  unfold exprValue; push_cast; ring

theorem exprDerivative_exact (dx v cell : K) (hdx : dx ≠ 0) :
    (exprDerivative dx v cell - cell) / dx = v := by
  unfold exprDerivative; field_simp; ring

theorem exprMixed_exact (dx g b cell : K) (hdx : dx ≠ 0) (hg : g * dx + 2 ≠ 0) :
    (exprMixed dx g b cell - cell) / dx + g * ((exprMixed dx g b cell + cell) / 2) = b := by
  have h2 : 2 + dx * g ≠ 0 := by rwa [add_comm, mul_comm] at hg
  unfold exprMixed; push_cast
  rw [show g * dx + 2 = 2 + dx * g by ring]
  field_simp; ring

/-- the expression target `mixed` is the same law as the constant `MixedBC` -/
theorem exprMixed_eq_mixed (dx g b cell : K) (hg : g * dx + 2 ≠ 0) :
    exprMixed dx g b cell = ghost1 (vpMixed dx g b) cell := by
  have h2 : 2 + dx * g ≠ 0 := by rwa [add_comm, mul_comm] at hg
  unfold exprMixed ghost1 vpMixed; push_cast
  rw [show g * dx + 2 = 2 + dx * g by ring]
  field_simp
end scalar

/-! ### which entries a face writes (index bookkeeping, no arithmetic) -/

/-- well-formed face: axis exists, at least one cell along it -/
def Face.WF (f : Face) : Prop := f.axis < f.shape.length ∧ 1 ≤ f.N

theorem getD_setAt_same (l : List Int) (i : Nat) (x : Int) (h : i < l.length) :
    (setAt l i x).getD i 0 = x := by
  unfold setAt
  simp [List.getD_eq_getElem?_getD, h]

theorem getD_setAt_other (l : List Int) (i j : Nat) (x : Int) (h : i ≠ j) :
    (setAt l i x).getD j 0 = l.getD j 0 := by
  unfold setAt
  simp [List.getD_eq_getElem?_getD, List.getElem?_set_ne h]

theorem length_setAt (l : List Int) (i : Nat) (x : Int) : (setAt l i x).length = l.length := by
  unfold setAt; simp

theorem Face.length_at (f : Face) (idx : List Int) (c : Int) : (f.at idx c).length = idx.length := by
  unfold Face.at
  simp only [List.length_append, List.length_take, length_setAt, List.length_drop]
  omega

theorem Face.take_at (f : Face) (idx : List Int) (c : Int) (h : f.rank ≤ idx.length) :
    (f.at idx c).take f.rank = idx.take f.rank := by
  unfold Face.at
  rw [List.take_append_of_le_length (by simp [h])]
  simp [List.take_take]

theorem Face.drop_at (f : Face) (idx : List Int) (c : Int) (h : f.rank ≤ idx.length) :
    (f.at idx c).drop f.rank = setAt (idx.drop f.rank) f.axis c := by
  unfold Face.at
  have : (idx.take f.rank).length = f.rank := by simp [h]
  rw [List.drop_append_of_le_length (by omega), List.drop_of_length_le (by omega)]
  simp

/-- the own-axis coordinate of a written index is the ghost coordinate -/
theorem Face.writes_ghost (f : Face) (idx : List Int) (h : f.writes idx = true) :
    (idx.drop f.rank).getD f.axis 0 = ghostIdx f.N f.side ∧ idx.length = f.rank + f.shape.length := by
  unfold Face.writes at h
  simp only [Bool.and_eq_true, beq_iff_eq] at h
  exact ⟨h.1.1.2, h.1.1.1⟩

/-- an index whose own-axis coordinate is a valid cell `1..N` is never written -/
theorem Face.not_writes_of_valid (f : Face) (idx : List Int)
    (hv : 1 ≤ (idx.drop f.rank).getD f.axis 0 ∧ (idx.drop f.rank).getD f.axis 0 ≤ f.N) :
    f.writes idx = false := by
  by_contra h
  have h' : f.writes idx = true := by simpa using h
  have := (f.writes_ghost idx h').1
  rw [this] at hv
  cases hs : f.side <;> rw [hs] at hv <;> simp only [ghostIdx] at hv <;> omega

/-- replacing the own-axis coordinate by a valid cell gives an index that is not written -/
theorem Face.not_writes_at (f : Face) (idx : List Int) (c : Int) (hw : f.writes idx = true)
    (hf : f.WF) (hc : 1 ≤ c ∧ c ≤ f.N) : f.writes (f.at idx c) = false := by
  obtain ⟨_, hlen⟩ := f.writes_ghost idx hw
  apply f.not_writes_of_valid
  rw [f.drop_at idx c (by omega), getD_setAt_same _ _ _ (by simp; have := hf.1; omega)]
  exact hc

theorem nearIdx_valid (N : Nat) (s : Side) (h : 1 ≤ N) : 1 ≤ nearIdx N s ∧ nearIdx N s ≤ N := by
  cases s <;> simp [nearIdx] <;> omega

theorem oppIdx_valid (N : Nat) (s : Side) (h : 1 ≤ N) : 1 ≤ oppIdx N s ∧ oppIdx N s ≤ N := by
  cases s <;> simp [oppIdx] <;> omega

theorem near2Idx_valid (N : Nat) (s : Side) (h : 2 ≤ N) : 1 ≤ near2Idx N s ∧ near2Idx N s ≤ N := by
  cases s <;> simp [near2Idx] <;> omega

section array
variable {K : Type} [Field K] [CharZero K]

/-! ### frame properties of `set_ghost_cells` -/

/-- only written entries change -/
theorem setGhost_frame (f : Face) (dx : K) (c : Cond K) (a : List Int → K) (idx : List Int)
    (h : f.writes idx = false) : setGhost f dx c a idx = a idx := by
  unfold setGhost; simp [h]

/-- all valid cells (own-axis coordinate in `1..N`) keep their value -/
theorem setGhost_valid_unchanged (f : Face) (dx : K) (c : Cond K) (a : List Int → K) (idx : List Int)
    (hv : 1 ≤ (idx.drop f.rank).getD f.axis 0 ∧ (idx.drop f.rank).getD f.axis 0 ≤ f.N) :
    setGhost f dx c a idx = a idx :=
  setGhost_frame f dx c a idx (f.not_writes_of_valid idx hv)

/-- **normal-only conditions leave every other component untouched** (all entries, ghost
cells included, of components whose last tensor index is not the boundary's axis) -/
theorem normal_only_touches_normal (f : Face) (dx : K) (c : Cond K) (a : List Int → K)
    (idx : List Int) (hn : f.normal = true)
    (hcomp : (idx.take f.rank).getD (f.rank - 1) 0 ≠ (f.axis : Int)) :
    setGhost f dx c a idx = a idx := by
  apply setGhost_frame
  unfold Face.writes
  have : ((idx.take f.rank).getD (f.rank - 1) 0 == (f.axis : Int)) = false := by simpa using hcomp
  simp only [hn, this, Bool.not_true, Bool.false_or, Bool.and_false]

/-- a written entry lies on the boundary face: ghost coordinate on the own axis, valid
coordinates on all other axes (edges and corners are never written) -/
theorem setGhost_writes_exactly_face (f : Face) (idx : List Int) (h : f.writes idx = true) :
    (idx.drop f.rank).getD f.axis 0 = ghostIdx f.N f.side ∧
    ∀ j, j < f.shape.length → j ≠ f.axis →
      1 ≤ (idx.drop f.rank).getD j 0 ∧ (idx.drop f.rank).getD j 0 ≤ (f.shape.getD j 0 : Int) := by
  refine ⟨(f.writes_ghost idx h).1, ?_⟩
  intro j hj hne
  unfold Face.writes at h
  simp only [Bool.and_eq_true, List.all_eq_true, List.mem_range, Bool.or_eq_true, beq_iff_eq,
    decide_eq_true_eq] at h
  have := h.1.2 j hj
  rcases this with h1 | h1
  · exact absurd h1 hne
  · exact h1

/-! ### the conditions hold on every face point after `set_ghost_cells` -/

/-- value (Dirichlet) condition on the whole face, for constants, tensors, per-face arrays -/
theorem setGhost_dirichlet (f : Face) (dx : K) (v : List Int → K) (a : List Int → K)
    (idx : List Int) (hw : f.writes idx = true) (hf : f.WF) :
    let a' := setGhost f dx (.dirichlet v) a
    (a' idx + a' (f.at idx (nearIdx f.N f.side))) / 2 = v (f.valueIdx idx) := by
  intro a'
  have hnear := f.not_writes_at idx _ hw hf (nearIdx_valid f.N f.side hf.2)
  show (setGhost f dx (.dirichlet v) a idx + setGhost f dx (.dirichlet v) a _) / 2 = _
  rw [setGhost_frame _ _ _ _ _ hnear]
  unfold setGhost; simp only [hw, ↓reduceIte, ghostValue]
  exact dirichlet_exact _ _

/-- derivative (Neumann) condition on the whole face -/
theorem setGhost_neumann (f : Face) (dx : K) (hdx : dx ≠ 0) (d : List Int → K) (a : List Int → K)
    (idx : List Int) (hw : f.writes idx = true) (hf : f.WF) :
    let a' := setGhost f dx (.neumann d) a
    (a' idx - a' (f.at idx (nearIdx f.N f.side))) / dx = d (f.valueIdx idx) := by
  intro a'
  have hnear := f.not_writes_at idx _ hw hf (nearIdx_valid f.N f.side hf.2)
  show (setGhost f dx (.neumann d) a idx - setGhost f dx (.neumann d) a _) / dx = _
  rw [setGhost_frame _ _ _ _ _ hnear]
  unfold setGhost; simp only [hw, ↓reduceIte, ghostValue]
  exact neumann_exact _ _ _ hdx

/-- Robin condition on the whole face -/
theorem setGhost_mixed (f : Face) (dx : K) (hdx : dx ≠ 0) (g b : List Int → K) (a : List Int → K)
    (idx : List Int) (hw : f.writes idx = true) (hf : f.WF)
    (hg : 2 + dx * g (f.valueIdx idx) ≠ 0) :
    let a' := setGhost f dx (.mixed g b) a
    let cell := a' (f.at idx (nearIdx f.N f.side))
    (a' idx - cell) / dx + g (f.valueIdx idx) * ((a' idx + cell) / 2) = b (f.valueIdx idx) := by
  intro a' cell
  have hnear := f.not_writes_at idx _ hw hf (nearIdx_valid f.N f.side hf.2)
  have hc : cell = a (f.at idx (nearIdx f.N f.side)) := setGhost_frame _ _ _ _ _ hnear
  have hg' : a' idx = ghost1 (vpMixed dx (g (f.valueIdx idx)) (b (f.valueIdx idx)))
      (a (f.at idx (nearIdx f.N f.side))) := by
    show setGhost f dx (.mixed g b) a idx = _
    unfold setGhost; simp only [hw, ↓reduceIte, ghostValue]
  rw [hc, hg']
  exact robin_exact _ _ _ _ hdx hg

/-- curvature condition on the whole face (needs two cells, the case the code rejects otherwise) -/
theorem setGhost_curvature (f : Face) (dx : K) (hdx : dx ≠ 0) (k : List Int → K) (a : List Int → K)
    (idx : List Int) (hw : f.writes idx = true) (hf : f.WF) (h2 : 2 ≤ f.N) :
    let a' := setGhost f dx (.curvature k) a
    (a' idx - 2 * a' (f.at idx (nearIdx f.N f.side)) + a' (f.at idx (near2Idx f.N f.side))) / (dx * dx)
      = k (f.valueIdx idx) := by
  intro a'
  have hnear := f.not_writes_at idx _ hw hf (nearIdx_valid f.N f.side hf.2)
  have hnear2 := f.not_writes_at idx _ hw hf (near2Idx_valid f.N f.side h2)
  show (setGhost f dx (.curvature k) a idx - 2 * setGhost f dx (.curvature k) a _ +
    setGhost f dx (.curvature k) a _) / (dx * dx) = _
  rw [setGhost_frame _ _ _ _ _ hnear, setGhost_frame _ _ _ _ _ hnear2]
  unfold setGhost; simp only [hw, ↓reduceIte, ghostValue]
  exact curvature_exact _ _ _ _ hdx

/-- periodic / anti-periodic: the ghost cell is `±` the cell at the opposite end -/
theorem setGhost_periodic (f : Face) (dx : K) (flip : Bool) (a : List Int → K)
    (idx : List Int) (hw : f.writes idx = true) (hf : f.WF) :
    let a' := setGhost f dx (.periodic flip) a
    a' idx = (if flip then -1 else 1) * a' (f.at idx (oppIdx f.N f.side)) := by
  intro a'
  have hopp := f.not_writes_at idx _ hw hf (oppIdx_valid f.N f.side hf.2)
  show setGhost f dx (.periodic flip) a idx = _ * setGhost f dx (.periodic flip) a _
  rw [setGhost_frame _ _ _ _ _ hopp]
  unfold setGhost; simp only [hw, ↓reduceIte, ghostValue, ghost1, vpPeriodic]
  cases flip <;> simp

/-- expression conditions (values = arbitrary functions of boundary coordinates and time) -/
theorem setGhost_exprValue (f : Face) (dx : K) (v : List Int → K) (a : List Int → K)
    (idx : List Int) (hw : f.writes idx = true) (hf : f.WF) :
    let a' := setGhost f dx (.exprValue v) a
    (a' idx + a' (f.at idx (nearIdx f.N f.side))) / 2 = v (f.valueIdx idx) := by
  intro a'
  have hnear := f.not_writes_at idx _ hw hf (nearIdx_valid f.N f.side hf.2)
  show (setGhost f dx (.exprValue v) a idx + setGhost f dx (.exprValue v) a _) / 2 = _
  rw [setGhost_frame _ _ _ _ _ hnear]
  unfold setGhost; simp only [hw, ↓reduceIte, ghostValue]
  exact exprValue_exact _ _

theorem setGhost_exprDerivative (f : Face) (dx : K) (hdx : dx ≠ 0) (v : List Int → K)
    (a : List Int → K) (idx : List Int) (hw : f.writes idx = true) (hf : f.WF) :
    let a' := setGhost f dx (.exprDerivative v) a
    (a' idx - a' (f.at idx (nearIdx f.N f.side))) / dx = v (f.valueIdx idx) := by
  intro a'
  have hnear := f.not_writes_at idx _ hw hf (nearIdx_valid f.N f.side hf.2)
  show (setGhost f dx (.exprDerivative v) a idx - setGhost f dx (.exprDerivative v) a _) / dx = _
  rw [setGhost_frame _ _ _ _ _ hnear]
  unfold setGhost; simp only [hw, ↓reduceIte, ghostValue]
  exact exprDerivative_exact _ _ _ hdx

/-! ### all faces together: the order of the faces is irrelevant -/

/-- the value a face writes depends only on entries that no face writes: if two arrays agree
on all indices whose own-axis coordinate is a valid cell, the written values agree -/
theorem ghostValue_congr (f : Face) (dx : K) (c : Cond K) (a b : List Int → K) (idx : List Int)
    (hw : f.writes idx = true) (hf : f.WF) (h2 : ∀ k, c = .curvature k → 2 ≤ f.N)
    (hab : ∀ cc : Int, 1 ≤ cc → cc ≤ f.N → a (f.at idx cc) = b (f.at idx cc)) :
    ghostValue f dx c a idx = ghostValue f dx c b idx := by
  have hn := nearIdx_valid f.N f.side hf.2
  have ho := oppIdx_valid f.N f.side hf.2
  cases c with
  | curvature k =>
    have hn2 := near2Idx_valid f.N f.side (h2 k rfl)
    simp only [ghostValue, hab _ hn.1 hn.2, hab _ hn2.1 hn2.2]
  | periodic flip => simp only [ghostValue, hab _ ho.1 ho.2]
  | _ => simp only [ghostValue, hab _ hn.1 hn.2]

/-- a consistent set of faces of one field: same shape and rank, well-formed, pairwise
different (axis, side), two cells where a curvature condition is used -/
structure Compatible (faces : List (Face × K × Cond K)) : Prop where
  same : ∀ fc ∈ faces, ∀ gc ∈ faces, fc.1.shape = gc.1.shape ∧ fc.1.rank = gc.1.rank
  wf : ∀ fc ∈ faces, fc.1.WF
  distinct : faces.Pairwise (fun fc gc => ¬ (fc.1.axis = gc.1.axis ∧ fc.1.side = gc.1.side))
  curv : ∀ fc ∈ faces, ∀ k, fc.2.2 = .curvature k → 2 ≤ fc.1.N

/-- no face writes an entry that another face (or itself) reads -/
theorem Face.not_writes_at_other (f g : Face) (idx : List Int) (c : Int)
    (hs : f.shape = g.shape) (hr : f.rank = g.rank) (hf : f.WF) (hg : g.WF)
    (hw : g.writes idx = true) (hc : 1 ≤ c ∧ c ≤ g.N) : f.writes (g.at idx c) = false := by
  obtain ⟨hgh, hlen⟩ := g.writes_ghost idx hw
  apply f.not_writes_of_valid
  rw [hr, g.drop_at idx c (by omega)]
  by_cases hax : f.axis = g.axis
  · rw [hax, getD_setAt_same _ _ _ (by simp; have := hg.1; omega)]
    have : f.N = g.N := by unfold Face.N; rw [hs, hax]
    rw [this]; exact hc
  · rw [getD_setAt_other _ _ _ _ (Ne.symm hax)]
    have := (setGhost_writes_exactly_face g idx hw).2 f.axis (by rw [← hs]; exact hf.1) hax
    unfold Face.N; rw [hs]; exact this

/-- two compatible faces never write the same entry -/
theorem Face.writes_disjoint (f g : Face) (idx : List Int)
    (hs : f.shape = g.shape) (hr : f.rank = g.rank) (hf : f.WF)
    (hwf : f.writes idx = true) (hwg : g.writes idx = true) :
    f.axis = g.axis ∧ f.side = g.side := by
  by_cases hax : f.axis = g.axis
  · refine ⟨hax, ?_⟩
    have h1 := (f.writes_ghost idx hwf).1
    have h2 := (g.writes_ghost idx hwg).1
    have hN : f.N = g.N := by unfold Face.N; rw [hs, hax]
    rw [hr, hax, h2, hN] at h1
    cases hsf : f.side <;> cases hsg : g.side <;> rw [hsf, hsg] at h1 <;>
      simp only [ghostIdx] at h1 <;> first | rfl | omega
  · exfalso
    have := (setGhost_writes_exactly_face g idx hwg).2 f.axis (by rw [← hs]; exact hf.1) hax
    have h1 := (f.writes_ghost idx hwf).1
    rw [hr] at h1
    rw [h1] at this
    have hN : (g.shape.getD f.axis 0) = f.N := by unfold Face.N; rw [hs]
    rw [hN] at this
    cases hsf : f.side <;> rw [hsf] at this <;> simp only [ghostIdx] at this <;> omega

/-- **entries no face writes keep their value** (all valid cells, edges, corners, and for
normal conditions all other components) -/
theorem setGhostAll_frame (faces : List (Face × K × Cond K)) (a : List Int → K) (idx : List Int)
    (h : ∀ fc ∈ faces, fc.1.writes idx = false) : setGhostAll faces a idx = a idx := by
  unfold setGhostAll
  induction faces generalizing a with
  | nil => rfl
  | cons fc rest ih =>
    simp only [List.foldl_cons]
    rw [ih _ (fun gc hg => h gc (List.mem_cons_of_mem _ hg))]
    exact setGhost_frame _ _ _ _ _ (h fc List.mem_cons_self)

/-- **every face's entry gets that face's value computed from the valid cells of the
original array, whatever the order in which the faces are processed** -/
theorem setGhostAll_written (faces : List (Face × K × Cond K)) (hc : Compatible faces)
    (a : List Int → K) (idx : List Int) (fc : Face × K × Cond K) (hfc : fc ∈ faces)
    (hw : fc.1.writes idx = true) :
    setGhostAll faces a idx = ghostValue fc.1 fc.2.1 fc.2.2 a idx := by
  unfold setGhostAll
  induction faces generalizing a with
  | nil => cases hfc
  | cons gc rest ih =>
    simp only [List.foldl_cons]
    have hc' : Compatible rest :=
      ⟨fun x hx y hy => hc.same x (List.mem_cons_of_mem _ hx) y (List.mem_cons_of_mem _ hy),
       fun x hx => hc.wf x (List.mem_cons_of_mem _ hx),
       (List.pairwise_cons.mp hc.distinct).2,
       fun x hx => hc.curv x (List.mem_cons_of_mem _ hx)⟩
    rcases List.mem_cons.mp hfc with rfl | hmem
    · -- the first face writes idx; no later face does
      have hnone : ∀ x ∈ rest, x.1.writes idx = false := by
        intro x hx
        by_contra hcon
        have hwx : x.1.writes idx = true := by simpa using hcon
        obtain ⟨hs, hr⟩ := hc.same fc List.mem_cons_self x (List.mem_cons_of_mem _ hx)
        have := Face.writes_disjoint fc.1 x.1 idx hs hr (hc.wf fc List.mem_cons_self) hw hwx
        exact (List.pairwise_cons.mp hc.distinct).1 x hx this
      have := setGhostAll_frame rest (setGhost fc.1 fc.2.1 fc.2.2 a) idx hnone
      unfold setGhostAll at this
      rw [this]
      unfold setGhost; simp [hw]
    · rw [ih hc' (setGhost gc.1 gc.2.1 gc.2.2 a) hmem]
      apply ghostValue_congr _ _ _ _ _ _ hw (hc.wf fc hfc) (hc.curv fc hfc)
      intro cc h1 h2
      obtain ⟨hs, hr⟩ := hc.same gc List.mem_cons_self fc hfc
      exact setGhost_frame _ _ _ _ _
        (Face.not_writes_at_other gc.1 fc.1 idx cc hs hr (hc.wf gc List.mem_cons_self)
          (hc.wf fc hfc) hw ⟨h1, h2⟩)

/-- the order in which the faces are processed is irrelevant -/
theorem setGhostAll_perm (faces faces' : List (Face × K × Cond K)) (hp : faces.Perm faces')
    (hc : Compatible faces) (hc' : Compatible faces') (a : List Int → K) :
    setGhostAll faces a = setGhostAll faces' a := by
  funext idx
  by_cases h : ∃ fc ∈ faces, fc.1.writes idx = true
  · obtain ⟨fc, hfc, hw⟩ := h
    rw [setGhostAll_written faces hc a idx fc hfc hw,
      setGhostAll_written faces' hc' a idx fc (hp.mem_iff.mp hfc) hw]
  · have h1 : ∀ fc ∈ faces, fc.1.writes idx = false := by
      intro fc hfc
      by_contra hcon
      exact h ⟨fc, hfc, by simpa using hcon⟩
    rw [setGhostAll_frame faces a idx h1,
      setGhostAll_frame faces' a idx (fun fc hfc => h1 fc (hp.mem_iff.mpr hfc))]

end array

/-! ### non-vacuity -/
example : ({ shape := [3, 2], rank := 1, axis := 0, side := .upper, normal := true } : Face).WF := by
  unfold Face.WF Face.N; simp
example : ({ shape := [3, 2], rank := 1, axis := 0, side := .upper, normal := true } : Face).writes
    [0, 4, 2] = true := by decide
example : ({ shape := [3, 2], rank := 1, axis := 0, side := .upper, normal := true } : Face).writes
    [1, 4, 2] = false := by decide
example : setGhost ({ shape := [3], rank := 0, axis := 0, side := .lower, normal := false } : Face)
    (1/2 : Rat) (.neumann (fun _ => 3)) (fun i => (i.getD 0 0 : Rat)) [0] = 5/2 := by
  decide +kernel

end PdeVerif.BC

/-! ## resolution of boundary-condition specifications -/
namespace PdeVerif.BCParse

/-- declarative precedence: named boundary > `axis-`/`axis+` > `axis` > `*` -/
def pick (g : GridNames) (d : Data) (ax : Nat) (upper : Bool) : Option Spec :=
  let axName := g.axes.getD ax ""
  let names := g.sides.filter (fun e => e.2.1 == ax && e.2.2 == upper)
  (names.reverse.findSome? (fun e => d.lookup e.1)) <|>
    d.lookup (axName ++ (if upper then "+" else "-")) <|> d.lookup axName <|> d.lookup "*"

theorem foldl_override (d : Data) (names : List (String × Nat × Bool)) (init : Option Spec) :
    names.foldl (fun acc e => d.lookup e.1 <|> acc) init
      = ((names.reverse.findSome? (fun e => d.lookup e.1)) <|> init) := by
  induction names generalizing init with
  | nil => simp
  | cons e es ih =>
    simp only [List.foldl_cons, List.reverse_cons, List.findSome?_append]
    rw [ih]
    cases h1 : es.reverse.findSome? (fun e => d.lookup e.1) with
    | some s => simp
    | none =>
      cases h2 : d.lookup e.1 with
      | some s => simp [h2]
      | none => simp [h2]

/-- **the most specific specification wins** - the imperative overwriting order of
`_parse_from_dict` realises the declarative precedence -/
theorem parse_most_specific_wins (g : GridNames) (d : Data) (ax : Nat) (upper : Bool) :
    resolveSide g d ax upper = pick g d ax upper := by
  unfold resolveSide pick
  simp only
  rw [foldl_override]

theorem pairOf_ok (per : Bool) (lo hi : Option Spec) (r : AxisBC) (h : pairOf per lo hi = .ok r) :
    per = false ∧ ∃ l hh, r = .pair l hh := by
  unfold pairOf at h
  cases hl : sideBC per lo with
  | error e => simp [hl] at h
  | ok l =>
    cases hh : sideBC per hi with
    | error e => simp [hl, hh] at h
    | ok h' =>
      simp only [hl, hh] at h
      cases h
      refine ⟨?_, l, h', rfl⟩
      unfold sideBC at hl
      split at hl
      · split at hl
        · split_ifs at hl with hp
          simpa using hp
        · cases hl
      · cases hl

/-- a side for which nothing at all is specified is an error, never a silent default -/
theorem unspecified_is_error (per : Bool) (hi : Option Spec) : ∃ e, axisBC per none hi = .error e := by
  unfold axisBC
  by_cases h : (none : Option Spec) = hi
  · subst h; exact ⟨.bcdata, by simp [single, pairOf, sideBC]⟩
  · simp only [h, ↓reduceIte]
    by_cases h2 : (none : Option Spec) = some Spec.periodic ∨ hi = some Spec.periodic
    · rw [if_pos h2]; exact ⟨_, rfl⟩
    · rw [if_neg h2]; exact ⟨.bcdata, by simp [pairOf, sideBC]⟩

/-- `auto_periodic_<name>` is `periodic` on periodic axes and `<name>` otherwise -/
theorem auto_periodic_resolves (per : Bool) (n : String) (v : Nat) :
    axisBC per (some (.auto n v)) (some (.auto n v)) =
      if per then .ok .periodic else axisBC false (some (.named n v)) (some (.named n v)) := by
  cases per <;> simp [axisBC, single]

/-- whatever is accepted agrees with the periodicity of the grid axis -/
theorem periodicity_consistent (per : Bool) (lo hi : Option Spec) (r : AxisBC)
    (h : axisBC per lo hi = .ok r) :
    (per = true ↔ (r = .periodic ∨ r = .antiperiodic)) := by
  have frompair : ∀ lo hi, pairOf per lo hi = .ok r → (per = true ↔ (r = .periodic ∨ r = .antiperiodic)) := by
    intro lo hi hp
    obtain ⟨h1, l, hh, h2⟩ := pairOf_ok per lo hi r hp
    subst h2; simp [h1]
  unfold axisBC at h
  split_ifs at h with h1 h2
  · unfold single at h
    split at h
    · split_ifs at h with hp
      cases h; simp [hp]
    · split_ifs at h with hp
      cases h; simp [hp]
    · split_ifs at h with hp
      · cases h; simp [hp]
      · exact frompair _ _ h
    · exact frompair _ _ h
  · exact frompair _ _ h

theorem mapM_except_length {α β ε : Type} (f : α → Except ε β) (l : List α) (r : List β)
    (h : l.mapM f = .ok r) : r.length = l.length := by
  induction l generalizing r with
  | nil => simp [List.mapM_nil, pure, Except.pure] at h; subst h; rfl
  | cons x xs ih =>
    rw [List.mapM_cons] at h
    cases hx : f x with
    | error e => simp [hx, bind, Except.bind] at h
    | ok y =>
      cases hxs : xs.mapM f with
      | error e => simp [hx, hxs, bind, Except.bind] at h
      | ok ys =>
        simp only [hx, hxs, bind, Except.bind, pure, Except.pure] at h
        cases h
        simp [ih ys hxs]

/-- a successful parse yields exactly one result per axis -/
theorem parse_length (g : GridNames) (t : Top) (r : List AxisBC) (h : parse g t = .ok r) :
    r.length = g.axes.length := by
  unfold parse at h
  cases t with
  | all s =>
    simp only at h
    have := mapM_except_length _ _ _ h
    simpa using this
  | dict d =>
    simp only [bind, Except.bind] at h
    split at h
    · cases h
    · have := mapM_except_length _ _ _ h
      simpa using this

/-- every alias denotes the class the documentation lists (finite table) -/
theorem alias_table_classes :
    kindOf "value" = some .dirichlet ∧ kindOf "dirichlet" = some .dirichlet ∧
    kindOf "derivative" = some .neumann ∧ kindOf "neumann" = some .neumann ∧
    kindOf "mixed" = some .mixed ∧ kindOf "robin" = some .mixed ∧
    kindOf "curvature" = some .curvature ∧ kindOf "second_derivative" = some .curvature ∧
    kindOf "extrapolate" = some .curvature ∧
    kindOf "normal_value" = some .normalDirichlet ∧ kindOf "normal_derivative" = some .normalNeumann ∧
    kindOf "normal_mixed" = some .normalMixed ∧ kindOf "normal_curvature" = some .normalCurvature ∧
    kindOf "periodic" = none := by decide

example : parse ⟨["x", "y"], [], [("left", 0, false), ("right", 0, true)], [false, true]⟩
    (.dict [("*", .named "value" 0), ("left", .named "neumann" 1), ("y", .periodic)])
    = .ok [.pair (.neumann, 1) (.dirichlet, 0), .periodic] := by decide

end PdeVerif.BCParse
