import PdeVerif.Model.PDEs
import PdeVerif.Lemmas.Basic
import PdeVerif.Lemmas.ExprField
import Mathlib.Tactic.LinearCombination
/-
C10 - interpreted rate, compiled rate and advertised expression agree.

The theorems fix what the three things *mean* and how they are related for all parameter
values, all operators-with-boundary-conditions (arbitrary maps on states) and all states:
* the class rate equals the field semantics (`rhsValue`, i.e. `PdeVerif.Ex.eval` at the number
  type of fields) of the class's advertised expression - unconditionally for the classes whose
  text applies every operator to a plain field or uses one operator name per boundary
  condition, and for additive/homogeneous operators for Kuramoto-Sivashinsky and
  Swift-Hohenberg, whose text groups `c + nu*lap(c)` under one Laplacian;
* for affine operators `L x = A x + b` that grouping changes the value by exactly `nu*b`
  (`2*kc2*b`), and an affine operator commutes with negation only if `b = 0` (the lemma behind
  the repaired compiled Kuramoto-Sivashinsky rate).
sympy / numba are external; the equality of numpy rate, compiled rate and `PDE(expression)`
with this model is checked by the differential run of `harness/c10.py`.
-/
set_option linter.unusedSectionVars false
namespace PdeVerif.PDEs
open PdeVerif PdeVerif.Ex

section
variable {ι K : Type} [Field K]

/-! ### bridging lemmas specific to the PDE model -/

@[simp] theorem two_eq : (two : K) = 2 := by simp [two]

@[simp] theorem half_eq [CharZero K] : (half : K) = 1 / 2 := by
  simp [half]

@[simp] theorem pdeTab_laplace (T : FunTab K) (lap g : Op ι K) (x : Fld ι K) :
    (pdeTab T lap g).f1 "laplace" x = ⟨lap x.val⟩ := by
  simp [pdeTab, opsTab, opsTabF, opTab, List.lookup]

@[simp] theorem pdeTab_gradsq (T : FunTab K) (lap g : Op ι K) (x : Fld ι K) :
    (pdeTab T lap g).f1 "gradient_squared" x = ⟨g x.val⟩ := by
  simp [pdeTab, opsTab, opsTabF, opTab, List.lookup]

@[simp] theorem fieldEnv_one (n : String) (c : St ι K) :
    ((fieldEnv [(n, c)] : Env (Fld ι K)).sc n).val = c := by
  simp [fieldEnv, fieldEnvS, List.lookup]

/-- `rhsValue` (what the driver evaluates for the advertised texts) is `Ex.eval` at the number
type of fields with the two-operator table and the environment of the fields -/
theorem rhsValue_def (T : FunTab K) (lap g : Op ι K) (vars : List (String × St ι K)) (e : Expr) :
    rhsValue T lap g vars e = (eval (pdeTab T lap g) (fieldEnv vars) e).val := rfl

/-- `expr_prod(f, e)` means `f * e` in all four of its branches -/
theorem exprProd_sound (T : FunTab (Fld ι K)) (env : Env (Fld ι K)) (f : Rat) (e : Expr) :
    (eval T env (exprProd (Fac.exact f) e)).val = fun i => (f : K) * (eval T env e).val i := by
  unfold exprProd Fac.exact
  simp only
  split_ifs with h0 h1 hm hn
  · subst h0; funext i; simp [eval]
  · subst h1; funext i; simp
  · subst hm; funext i; simp [eval]
  · funext i; simp [eval]
  · funext i; simp [eval]

/-- with a rounded printed value the text means `printed * e` outside the three special
branches (this is where the six printed digits enter leg B's tolerance) -/
theorem exprProd_printed (T : FunTab (Fld ι K)) (env : Env (Fld ι K)) (f : Fac) (e : Expr)
    (h0 : f.actual ≠ 0) (h1 : f.actual ≠ 1) (hm : f.actual ≠ -1) :
    (eval T env (exprProd f e)).val = fun i => (f.printed : K) * (eval T env e).val i := by
  unfold exprProd
  simp only [h0, h1, hm, if_false]
  split_ifs with hn
  · funext i; simp [eval]
  · funext i; simp [eval]

end

/-! ### class_rate_eq_expression_semantics -/
section
variable {ι K : Type} [Field K] [CharZero K]

/-- Diffusion: for every diffusivity, operator and state -/
theorem diffusion_rate_eq_expression (T : FunTab K) (D : Rat) (lap g : Op ι K) (c : St ι K) :
    rhsValue T lap g [("c", c)] (diffusionExpr (Fac.exact D)) = diffusionRate (D : K) lap c := by
  simp only [rhsValue_def]; unfold diffusionExpr
  rw [exprProd_sound]
  funext i
  simp [eval, lapE, vC, diffusionRate]

/-- Allen-Cahn, with and without the printed mobility factor -/
theorem allenCahn_rate_eq_expression (T : FunTab K) (γ mob : Rat) (lap g : Op ι K) (c : St ι K) :
    rhsValue T lap g [("c", c)] (allenCahnExpr (Fac.exact γ) (Fac.exact mob) false) = allenCahnRate (γ : K) (mob : K) lap c ∧
    rhsValue T lap g [("c", c)] (allenCahnExpr (Fac.exact γ) (Fac.exact mob) true) = allenCahnRate (γ : K) 1 lap c := by
  constructor
  · simp only [rhsValue_def]; unfold allenCahnExpr
    simp only [Bool.false_eq_true, if_false]
    rw [exprProd_sound]
    funext i
    simp only [eval, Fld.add_val, Fld.sub_val, exprProd_sound]
    simp [eval, lapE, vC, allenCahnRate]
  · simp only [rhsValue_def]; unfold allenCahnExpr
    simp only [if_true]
    funext i
    simp only [eval, Fld.add_val, Fld.sub_val, exprProd_sound]
    simp [eval, lapE, vC, allenCahnRate]

/-- Cahn-Hilliard: the text has one operator name, so it denotes the class rate with
`bc_c = bc_mu` (any operator, affine or not) -/
theorem cahnHilliard_rate_eq_expression (T : FunTab K) (γ : Rat) (lap g : Op ι K) (c : St ι K) :
    rhsValue T lap g [("c", c)] (cahnHilliardExpr (Fac.exact γ)) = cahnHilliardRate (γ : K) lap lap c := by
  simp only [rhsValue_def]; unfold cahnHilliardExpr cahnHilliardRate cahnHilliardMu
  simp only [lapE, eval, pdeTab_laplace, Fld.sub_val, exprProd_sound]
  simp [eval, vC]

/-- KPZ interface -/
theorem kpz_rate_eq_expression (T : FunTab K) (ν lam : Rat) (lap g : Op ι K) (c : St ι K) :
    rhsValue T lap g [("c", c)] (kpzExpr (Fac.exact ν) (Fac.exact lam)) = kpzRate (ν : K) (lam : K) lap g c := by
  simp only [rhsValue_def]; unfold kpzExpr
  funext i
  simp only [eval, Fld.add_val, exprProd_sound]
  simp [eval, lapE, gradsqE, vC, kpzRate]

/-- Wave equation as a first-order system: both components -/
theorem wave_rate_eq_expression (T : FunTab K) (speed : K) (speed2 : Rat)
    (h2 : (speed2 : K) = speed ^ 2) (lap g : Op ι K) (u v : St ι K) :
    rhsValue T lap g [("u", u), ("v", v)] (waveExprs (Fac.exact speed2)).1 = (waveRate speed lap u v).1 ∧
    rhsValue T lap g [("u", u), ("v", v)] (waveExprs (Fac.exact speed2)).2 = (waveRate speed lap u v).2 := by
  constructor
  · funext i; simp [rhsValue_def, fieldEnvS, waveExprs, waveRate, vV, eval, fieldEnv, List.lookup]
  · simp only [rhsValue_def]; unfold waveExprs
    simp only
    rw [exprProd_sound]
    funext i
    simp [eval, lapE, vU, waveRate, fieldEnv, fieldEnvS, List.lookup, h2]

/-- Klein-Gordon, with and without the mass term in the text -/
theorem kleinGordon_rate_eq_expression (T : FunTab K) (speed mass : K) (speed2 mass2 : Rat)
    (h2 : (speed2 : K) = speed ^ 2) (hm : (mass2 : K) = mass ^ 2) (lap g : Op ι K)
    (u v : St ι K) :
    rhsValue T lap g [("u", u), ("v", v)] (kleinGordonExprs (Fac.exact speed2) (Fac.exact mass2) false).1 =
      (kleinGordonRate speed mass lap u v).1 ∧
    rhsValue T lap g [("u", u), ("v", v)] (kleinGordonExprs (Fac.exact speed2) (Fac.exact mass2) false).2 =
      (kleinGordonRate speed mass lap u v).2 ∧
    (mass = 0 → rhsValue T lap g [("u", u), ("v", v)] (kleinGordonExprs (Fac.exact speed2) (Fac.exact mass2) true).2 =
      (kleinGordonRate speed mass lap u v).2) := by
  refine ⟨?_, ?_, ?_⟩
  · funext i; simp [rhsValue_def, fieldEnvS, kleinGordonExprs, kleinGordonRate, vV, eval, fieldEnv, List.lookup]
  · simp only [rhsValue_def]; unfold kleinGordonExprs
    funext i
    simp only [Bool.false_eq_true, if_false, eval, Fld.sub_val, exprProd_sound]
    simp [eval, lapE, vU, kleinGordonRate, fieldEnv, fieldEnvS, List.lookup, h2, hm]
  · intro h0
    simp only [rhsValue_def]; unfold kleinGordonExprs
    funext i
    simp only [if_true, exprProd_sound]
    simp [eval, lapE, vU, kleinGordonRate, fieldEnv, fieldEnvS, List.lookup, h2, h0]

end
/-! ### operators with boundary conditions: linear part plus offset -/
section
variable {ι K : Type} [Field K] [CharZero K]

/-- additive and homogeneous map on states (an operator with homogeneous conditions) -/
structure IsLinearOp (A : Op ι K) : Prop where
  add : ∀ x y : St ι K, A (fun i => x i + y i) = fun i => A x i + A y i
  smul : ∀ (a : K) (x : St ι K), A (fun i => a * x i) = fun i => a * A x i

/-- `L x = A x + b`: an operator with inhomogeneous boundary conditions -/
def affine (A : Op ι K) (b : St ι K) : Op ι K := fun x i => A x i + b i

theorem IsLinearOp.neg {A : Op ι K} (h : IsLinearOp A) (x : St ι K) :
    A (fun i => - x i) = fun i => - A x i := by
  have := h.smul (-1) x
  simpa using this

theorem IsLinearOp.zero {A : Op ι K} (h : IsLinearOp A) : A (fun _ => 0) = fun _ => 0 := by
  have := h.smul 0 (fun _ => 0)
  simpa using this

theorem IsLinearOp.sub {A : Op ι K} (h : IsLinearOp A) (x y : St ι K) :
    A (fun i => x i - y i) = fun i => A x i - A y i := by
  have h1 := h.add x (fun i => - y i)
  rw [h.neg y] at h1
  simpa [sub_eq_add_neg] using h1

/-- an affine operator commutes with negation only if its offset vanishes: the reason why
`laplace2(-laplace(c))` is not `-laplace2(laplace(c))` under inhomogeneous conditions -/
theorem affine_bc_not_odd {A : Op ι K} (hA : IsLinearOp A) (b : St ι K) :
    (∀ x : St ι K, affine A b (fun i => - x i) = fun i => - affine A b x i) ↔
      b = fun _ => 0 := by
  constructor
  · intro h
    funext i
    have h0 := congrFun (h (fun _ => 0)) i
    simp only [affine, neg_zero, hA.zero] at h0
    have h2 : (2 : K) * b i = 0 := by linear_combination h0
    rcases mul_eq_zero.mp h2 with h3 | h3
    · exact absurd h3 (by norm_num)
    · exact h3
  · intro hb x
    subst hb
    funext i
    simp [affine, hA.neg]

/-- the compiled Kuramoto-Sivashinsky closure before the repair differed from the class rate
by `2 * nu * b_lap` (zero exactly for homogeneous `bc_lap`) -/
theorem ks_old_compiled_gap (ν : K) (lap g : Op ι K) {A2 : Op ι K} (hA : IsLinearOp A2)
    (b2 : St ι K) (c : St ι K) (i : ι) :
    ksRateOldCompiled ν lap (affine A2 b2) g c i = ksRate ν lap (affine A2 b2) g c i
      + 2 * ν * b2 i := by
  simp only [ksRateOldCompiled, ksRate, affine, hA.neg]
  ring

/-- `rate_uses_own_bc`, Cahn-Hilliard: the inner Laplacian sees `bc_c` (its offset `b_c` passes
through the linear part of the outer operator), the outer one sees `bc_mu` (its offset `b_mu`
is added at the end) -/
theorem cahnHilliard_rate_uses_own_bc (γ : K) {Ac Amu : Op ι K} (hmu : IsLinearOp Amu)
    (bc bmu : St ι K) (c : St ι K) :
    cahnHilliardRate γ (affine Ac bc) (affine Amu bmu) c =
      fun i => Amu (cahnHilliardMu γ Ac c) i - γ * Amu bc i + bmu i := by
  funext i
  unfold cahnHilliardRate
  have e : cahnHilliardMu γ (affine Ac bc) c =
      fun j => cahnHilliardMu γ Ac c j - γ * bc j := by
    funext j; simp [cahnHilliardMu, affine]; ring
  rw [e]
  simp only [affine, hmu.sub, hmu.smul]

/-- `rate_uses_own_bc`, Kuramoto-Sivashinsky and Swift-Hohenberg: the second Laplacian (with
`bc_lap`) acts on the result of the first (with `bc`), and its offset enters once -/
theorem ks_rate_uses_own_bc (ν : K) (lap g : Op ι K) (A2 : Op ι K) (b2 : St ι K) (c : St ι K)
    (i : ι) :
    ksRate ν lap (affine A2 b2) g c i =
      -ν * A2 (lap c) i - ν * b2 i - lap c i - 1 / 2 * g c i := by
  simp [ksRate, affine]; ring

theorem swiftHohenberg_rate_uses_own_bc (ε kc2 δ : K) (lap : Op ι K) (A2 : Op ι K)
    (b2 : St ι K) (c : St ι K) (i : ι) :
    swiftHohenbergRate ε kc2 δ lap (affine A2 b2) c i =
      (ε - kc2 ^ 2) * c i - 2 * kc2 * lap c i - A2 (lap c) i - b2 i + δ * c i ^ 2 - c i ^ 3 := by
  simp [swiftHohenbergRate, affine]; ring

/-! ### grouped text versus split class (Kuramoto-Sivashinsky, Swift-Hohenberg) -/

/-- Kuramoto-Sivashinsky: the text `-∇²(c + ν ∇²c) - 0.5 |∇c|²` read with the affine operator
`L = A + b` exceeds the class rate (with `bc_lap = bc`) by exactly `ν * b` -/
theorem ks_grouped_text_vs_split_class_gap (T : FunTab K) (ν : Rat) {A : Op ι K}
    (hA : IsLinearOp A) (b : St ι K) (g : Op ι K) (c : St ι K) (i : ι) :
    rhsValue T (affine A b) g [("c", c)] (ksExpr (Fac.exact ν)) i =
      ksRate (ν : K) (affine A b) (affine A b) g c i + (ν : K) * b i := by
  have e : affine A b c = fun j => A c j + b j := rfl
  simp only [rhsValue_def]; unfold ksExpr
  simp only [eval, lapE, gradsqE, vC, pdeTab_laplace, pdeTab_gradsq, Fld.sub_val, Fld.neg_val,
    Fld.add_val, Fld.mul_val, exprProd_sound, Fld.ofRat_val, fieldEnv_one]
  simp only [ksRate, e, affine, hA.add, hA.smul, half_eq]
  push_cast
  ring

/-- for a linear operator (homogeneous conditions) text and class agree -/
theorem ks_rate_eq_expression_linear (T : FunTab K) (ν : Rat) {L : Op ι K} (hL : IsLinearOp L)
    (g : Op ι K) (c : St ι K) :
    rhsValue T L g [("c", c)] (ksExpr (Fac.exact ν)) = ksRate (ν : K) L L g c := by
  funext i
  have h := ks_grouped_text_vs_split_class_gap T ν hL (fun _ => 0) g c i
  have e : affine L (fun _ => (0 : K)) = L := by funext x j; simp [affine]
  rw [e] at h
  simpa using h

/-- Swift-Hohenberg: the text `... - ∇²(2 kc2 c + ∇²c)` exceeds the class rate by `2 kc2 b` -/
theorem swiftHohenberg_grouped_text_vs_split_class_gap (T : FunTab K) (ε kc2 : K)
    (a δ twoKc2 : Rat) (ha : (a : K) = ε - kc2 ^ 2) (hk : (twoKc2 : K) = 2 * kc2)
    {A : Op ι K} (hA : IsLinearOp A) (b : St ι K) (g : Op ι K) (c : St ι K) (i : ι) :
    rhsValue T (affine A b) g [("c", c)] (swiftHohenbergExpr (Fac.exact a) (Fac.exact δ) (Fac.exact twoKc2)) i =
      swiftHohenbergRate ε kc2 (δ : K) (affine A b) (affine A b) c i + 2 * kc2 * b i := by
  have e : affine A b c = fun j => A c j + b j := rfl
  simp only [rhsValue_def]; unfold swiftHohenbergExpr
  simp only [eval, lapE, vC, pdeTab_laplace, Fld.sub_val, Fld.add_val, Fld.powInt_val,
    exprProd_sound, fieldEnv_one]
  simp only [swiftHohenbergRate, e, affine, hA.add, hA.smul, ha, hk, powInt_eq', two_eq]
  norm_cast
  ring

theorem swiftHohenberg_rate_eq_expression_linear (T : FunTab K) (ε kc2 : K)
    (a δ twoKc2 : Rat) (ha : (a : K) = ε - kc2 ^ 2) (hk : (twoKc2 : K) = 2 * kc2)
    {L : Op ι K} (hL : IsLinearOp L) (g : Op ι K) (c : St ι K) :
    rhsValue T L g [("c", c)] (swiftHohenbergExpr (Fac.exact a) (Fac.exact δ) (Fac.exact twoKc2)) =
      swiftHohenbergRate ε kc2 (δ : K) L L c := by
  funext i
  have h := swiftHohenberg_grouped_text_vs_split_class_gap T ε kc2 a δ twoKc2 ha hk hL
    (fun _ => 0) g c i
  have e : affine L (fun _ => (0 : K)) = L := by funext x j; simp [affine]
  rw [e] at h
  simpa using h

/-! ### the same two right-hand sides with the operators written one by one

With `-ν ∇²(∇²c) - ∇²c` instead of `-∇²(c + ν ∇²c)` the text denotes the class rate (with
`bc_lap = bc`) for ALL operators - affine, nonlinear, anything: no linearity is needed because
no operator is applied to a sum. -/

theorem ks_split_rate_eq_expression (T : FunTab K) (ν : Rat) (lap g : Op ι K) (c : St ι K) :
    rhsValue T lap g [("c", c)] (ksExprSplit (Fac.exact (-ν))) = ksRate (ν : K) lap lap g c := by
  simp only [rhsValue_def]; unfold ksExprSplit
  funext i
  simp only [eval, Fld.sub_val, exprProd_sound]
  simp [eval, lapE, gradsqE, vC, ksRate]

theorem swiftHohenberg_split_rate_eq_expression (T : FunTab K) (ε kc2 : K)
    (a δ twoKc2 : Rat) (ha : (a : K) = ε - kc2 ^ 2) (hk : (twoKc2 : K) = 2 * kc2)
    (lap g : Op ι K) (c : St ι K) :
    rhsValue T lap g [("c", c)]
        (swiftHohenbergExprSplit (Fac.exact a) (Fac.exact δ) (Fac.exact twoKc2)) =
      swiftHohenbergRate ε kc2 (δ : K) lap lap c := by
  simp only [rhsValue_def]; unfold swiftHohenbergExprSplit
  funext i
  simp only [eval, Fld.sub_val, Fld.add_val, exprProd_sound]
  simp [eval, lapE, vC, swiftHohenbergRate, ha, hk]
  ring

/-- grouped and split text differ by exactly the offset term: the deviation of
`PDE(eq.expression)` from the class under inhomogeneous conditions is a property of the
grouping in the text, nothing else -/
theorem ks_grouped_vs_split_text (T : FunTab K) (ν : Rat) {A : Op ι K} (hA : IsLinearOp A)
    (b : St ι K) (g : Op ι K) (c : St ι K) (i : ι) :
    rhsValue T (affine A b) g [("c", c)] (ksExpr (Fac.exact ν)) i =
      rhsValue T (affine A b) g [("c", c)] (ksExprSplit (Fac.exact (-ν))) i + (ν : K) * b i := by
  rw [ks_split_rate_eq_expression, ks_grouped_text_vs_split_class_gap T ν hA b g c i]

/-! ### wave equation as a first-order system -/

/-- the two components, and the second-order equation they encode: for ANY notion `d` of time
derivative with `d u = rate.1` and `d v = rate.2` (and `d` of `v` computed from `d u = v`),
`d (d u) = speed² L u` -/
theorem wave_as_first_order_system (speed : K) (lap : Op ι K) (u v : St ι K)
    (d : St ι K → St ι K) (hu : d u = (waveRate speed lap u v).1)
    (hv : d v = (waveRate speed lap u v).2) :
    (waveRate speed lap u v).1 = v ∧
    (waveRate speed lap u v).2 = (fun i => speed ^ 2 * lap u i) ∧
    d (d u) = fun i => speed ^ 2 * lap u i := by
  have h1 : (waveRate speed lap u v).1 = v := rfl
  have h2 : (waveRate speed lap u v).2 = (fun i => speed ^ 2 * lap u i) := by
    funext i; simp [waveRate]
  refine ⟨h1, h2, ?_⟩
  rw [hu, h1, hv, h2]

/-- Klein-Gordon reduces to the wave equation for zero mass -/
theorem kleinGordon_mass_zero (speed : K) (lap : Op ι K) (u v : St ι K) :
    kleinGordonRate speed 0 lap u v = waveRate speed lap u v := by
  unfold kleinGordonRate waveRate
  simp

end

/-! ### the planned statements, collected -/
section
variable {ι K : Type} [Field K] [CharZero K]

/-- **class_rate_eq_expression_semantics**: for every predefined class, all parameter values,
all operators-with-boundary-conditions and all states, the field semantics of the advertised
expression is the class rate (under the stated condition on the operators for the classes whose
text uses one operator name for two operators or groups terms under one Laplacian) -/
theorem class_rate_eq_expression_semantics (T : FunTab K) (lap g : Op ι K) (c u v : St ι K) :
    (∀ D : Rat, rhsValue T lap g [("c", c)] (diffusionExpr (Fac.exact D)) = diffusionRate (D : K) lap c) ∧
    (∀ γ mob : Rat, rhsValue T lap g [("c", c)] (allenCahnExpr (Fac.exact γ) (Fac.exact mob) false) =
      allenCahnRate (γ : K) (mob : K) lap c) ∧
    (∀ γ : Rat, rhsValue T lap g [("c", c)] (cahnHilliardExpr (Fac.exact γ)) =
      cahnHilliardRate (γ : K) lap lap c) ∧
    (∀ ν lam : Rat, rhsValue T lap g [("c", c)] (kpzExpr (Fac.exact ν) (Fac.exact lam)) =
      kpzRate (ν : K) (lam : K) lap g c) ∧
    (∀ ν : Rat, IsLinearOp lap → rhsValue T lap g [("c", c)] (ksExpr (Fac.exact ν)) =
      ksRate (ν : K) lap lap g c) ∧
    (∀ (ε kc2 : K) (a δ k2 : Rat), (a : K) = ε - kc2 ^ 2 → (k2 : K) = 2 * kc2 → IsLinearOp lap →
      rhsValue T lap g [("c", c)] (swiftHohenbergExpr (Fac.exact a) (Fac.exact δ) (Fac.exact k2)) =
        swiftHohenbergRate ε kc2 (δ : K) lap lap c) ∧
    (∀ (speed : K) (s2 : Rat), (s2 : K) = speed ^ 2 →
      rhsValue T lap g [("u", u), ("v", v)] (waveExprs (Fac.exact s2)).1 = (waveRate speed lap u v).1 ∧
      rhsValue T lap g [("u", u), ("v", v)] (waveExprs (Fac.exact s2)).2 = (waveRate speed lap u v).2) ∧
    (∀ (speed mass : K) (s2 m2 : Rat), (s2 : K) = speed ^ 2 → (m2 : K) = mass ^ 2 →
      rhsValue T lap g [("u", u), ("v", v)] (kleinGordonExprs (Fac.exact s2) (Fac.exact m2) false).1 =
        (kleinGordonRate speed mass lap u v).1 ∧
      rhsValue T lap g [("u", u), ("v", v)] (kleinGordonExprs (Fac.exact s2) (Fac.exact m2) false).2 =
        (kleinGordonRate speed mass lap u v).2) := by
  refine ⟨fun D => diffusion_rate_eq_expression T D lap g c,
    fun γ mob => (allenCahn_rate_eq_expression T γ mob lap g c).1,
    fun γ => cahnHilliard_rate_eq_expression T γ lap g c,
    fun ν lam => kpz_rate_eq_expression T ν lam lap g c,
    fun ν hL => ks_rate_eq_expression_linear T ν hL g c,
    fun ε kc2 a δ k2 ha hk hL => swiftHohenberg_rate_eq_expression_linear T ε kc2 a δ k2 ha hk hL g c,
    fun speed s2 h2 => wave_rate_eq_expression T speed s2 h2 lap g u v,
    fun speed mass s2 m2 h2 hm => ?_⟩
  have h := kleinGordon_rate_eq_expression T speed mass s2 m2 h2 hm lap g u v
  exact ⟨h.1, h.2.1⟩

/-- **grouped_text_vs_split_class_gap**: both grouped texts, for affine operators -/
theorem grouped_text_vs_split_class_gap (T : FunTab K) {A : Op ι K} (hA : IsLinearOp A)
    (b : St ι K) (g : Op ι K) (c : St ι K) (i : ι) :
    (∀ ν : Rat, rhsValue T (affine A b) g [("c", c)] (ksExpr (Fac.exact ν)) i =
      ksRate (ν : K) (affine A b) (affine A b) g c i + (ν : K) * b i) ∧
    (∀ (ε kc2 : K) (a δ k2 : Rat), (a : K) = ε - kc2 ^ 2 → (k2 : K) = 2 * kc2 →
      rhsValue T (affine A b) g [("c", c)]
          (swiftHohenbergExpr (Fac.exact a) (Fac.exact δ) (Fac.exact k2)) i =
        swiftHohenbergRate ε kc2 (δ : K) (affine A b) (affine A b) c i + 2 * kc2 * b i) :=
  ⟨fun ν => ks_grouped_text_vs_split_class_gap T ν hA b g c i,
   fun ε kc2 a δ k2 ha hk =>
     swiftHohenberg_grouped_text_vs_split_class_gap T ε kc2 a δ k2 ha hk hA b g c i⟩

/-- **rate_uses_own_bc**: the three classes with two operators -/
theorem rate_uses_own_bc (γ ν ε kc2 δ : K) (lap g : Op ι K) {Ac Amu : Op ι K}
    (hmu : IsLinearOp Amu) (A2 : Op ι K) (bc bmu b2 : St ι K) (c : St ι K) (i : ι) :
    cahnHilliardRate γ (affine Ac bc) (affine Amu bmu) c i =
      Amu (cahnHilliardMu γ Ac c) i - γ * Amu bc i + bmu i ∧
    ksRate ν lap (affine A2 b2) g c i = -ν * A2 (lap c) i - ν * b2 i - lap c i - 1 / 2 * g c i ∧
    swiftHohenbergRate ε kc2 δ lap (affine A2 b2) c i =
      (ε - kc2 ^ 2) * c i - 2 * kc2 * lap c i - A2 (lap c) i - b2 i + δ * c i ^ 2 - c i ^ 3 :=
  ⟨congrFun (cahnHilliard_rate_uses_own_bc γ hmu bc bmu c) i,
   ks_rate_uses_own_bc ν lap g A2 b2 c i,
   swiftHohenberg_rate_uses_own_bc ε kc2 δ lap A2 b2 c i⟩

end

/-! ### the local part of a right-hand side is evaluated cell by cell -/
section
variable {ι K : Type} [Field K]

/-- no differential operator occurs in the expression -/
def OperatorFree : Expr → Prop
  | .num _ => True
  | .var _ => True
  | .idx _ _ => True
  | .named _ => True
  | .neg a => OperatorFree a
  | .add a b => OperatorFree a ∧ OperatorFree b
  | .sub a b => OperatorFree a ∧ OperatorFree b
  | .mul a b => OperatorFree a ∧ OperatorFree b
  | .div a b => OperatorFree a ∧ OperatorFree b
  | .powI a _ => OperatorFree a
  | .call1 f a => isDiffOp1 f = false ∧ OperatorFree a
  | .call2 _ a b => OperatorFree a ∧ OperatorFree b
  | .heav1 a => OperatorFree a
  | .heav2 a h => OperatorFree a ∧ OperatorFree h
  | .cmp _ a b => OperatorFree a ∧ OperatorFree b

theorem lookup_isDiffOp1 (lap g : Op ι K) (f : String) (hf : isDiffOp1 f = false) :
    List.lookup f [("laplace", lap), ("gradient_squared", g)] = none := by
  simp only [isDiffOp1, Bool.or_eq_false_iff, decide_eq_false_iff_not] at hf
  have h1 : (f == "laplace") = false := by simpa using hf.1
  have h2 : (f == "gradient_squared") = false := by simpa using hf.2
  simp only [List.lookup, h1, h2]

@[simp] theorem pdeTab_local_f1 (T : FunTab K) (lap g : Op ι K) (f : String) (x : Fld ι K)
    (hf : isDiffOp1 f = false) : ((pdeTab T lap g).f1 f x).val = fun i => T.f1 f (x.val i) := by
  simp only [pdeTab, opsTab, opsTabF, opTab, lookup_isDiffOp1 lap g f hf]
  simp

@[simp] theorem pdeTab_f0 (T : FunTab K) (lap g : Op ι K) (c : String) :
    ((pdeTab T lap g : FunTab (Fld ι K)).f0 c).val = fun _ => T.f0 c := rfl
@[simp] theorem pdeTab_f2 (T : FunTab K) (lap g : Op ι K) (f : String) (x y : Fld ι K) :
    ((pdeTab T lap g).f2 f x y).val = fun i => T.f2 f (x.val i) (y.val i) := by
  simp [pdeTab, opsTab, opsTabF, opTab]
@[simp] theorem pdeTab_heav (T : FunTab K) (lap g : Op ι K) (x h : Fld ι K) :
    ((pdeTab T lap g).heav x h).val = fun i => T.heav (x.val i) (h.val i) := rfl
@[simp] theorem pdeTab_cmp (T : FunTab K) (lap g : Op ι K) (op : Cmp) (x y : Fld ι K) :
    ((pdeTab T lap g).cmp op x y).val = fun i => T.cmp op (x.val i) (y.val i) := rfl

/-- reaction terms, explicit time and coordinate dependence, constants: without operators the
field semantics of a right-hand side is the scalar semantics of C11 in every cell, whatever the
operators and their boundary conditions are -/
theorem rhsValue_operator_free (T : FunTab K) (lap g : Op ι K) (envs : ι → Env K) (e : Expr)
    (h : OperatorFree e) (i : ι) :
    (eval (pdeTab T lap g) (liftEnv envs) e).val i = eval T (envs i) e := by
  induction e with
  | num q => simp [eval]
  | var x => simp [eval, liftEnv]
  | idx x k => simp [eval, liftEnv]
  | named c => simp [eval]
  | neg a iha => simp [eval, iha h]
  | add a b iha ihb => simp [eval, iha h.1, ihb h.2]
  | sub a b iha ihb => simp [eval, iha h.1, ihb h.2]
  | mul a b iha ihb => simp [eval, iha h.1, ihb h.2]
  | div a b iha ihb => simp [eval, iha h.1, ihb h.2]
  | powI a n iha => simp [eval, iha h]
  | call1 f a iha => simp [eval, pdeTab_local_f1 _ _ _ _ _ h.1, iha h.2]
  | call2 f a b iha ihb => simp [eval, iha h.1, ihb h.2]
  | heav1 a iha => simp [eval, iha h]
  | heav2 a b iha ihb => simp [eval, iha h.1, ihb h.2]
  | cmp op a b iha ihb => simp [eval, iha h.1, ihb h.2]

end

/-! ### the generic `PDE`: every equation sees its own operators with its own conditions -/
section
variable {ι K : Type} [Field K]

@[simp] theorem opsTabF_f0 (T : FunTab K) (look : String → Option (Op ι K)) (c : String) :
    ((opsTabF T look).f0 c).val = fun _ => T.f0 c := rfl
@[simp] theorem opsTabF_f2 (T : FunTab K) (look : String → Option (Op ι K)) (f : String)
    (x y : Fld ι K) : ((opsTabF T look).f2 f x y).val = fun i => T.f2 f (x.val i) (y.val i) := by
  simp [opsTabF, opTab]
@[simp] theorem opsTabF_heav (T : FunTab K) (look : String → Option (Op ι K)) (x h : Fld ι K) :
    ((opsTabF T look).heav x h).val = fun i => T.heav (x.val i) (h.val i) := rfl
@[simp] theorem opsTabF_cmp (T : FunTab K) (look : String → Option (Op ι K)) (op : Cmp)
    (x y : Fld ι K) : ((opsTabF T look).cmp op x y).val = fun i => T.cmp op (x.val i) (y.val i) := rfl
theorem opsTabF_f1_none (T : FunTab K) (look : String → Option (Op ι K)) (f : String)
    (x : Fld ι K) (h : look f = none) :
    ((opsTabF T look).f1 f x).val = fun i => T.f1 f (x.val i) := by
  simp [opsTabF, opTab, h]
theorem opsTabF_f1_some (T : FunTab K) (look : String → Option (Op ι K)) (f : String)
    (x : Fld ι K) (L : Op ι K) (h : look f = some L) :
    ((opsTabF T look).f1 f x).val = L x.val := by
  simp [opsTabF, opTab, h]

/-- the value of a right-hand side depends only on the operators whose names occur in it: an
equation is not affected by the operators (and boundary conditions) of the other equations -/
theorem rhsValueF_congr (T : FunTab K) (look look' : String → Option (Op ι K))
    (vars : List (String × St ι K)) (scalars : List (String × K)) (e : Expr)
    (h : ∀ f ∈ funNames1 e, look f = look' f) :
    rhsValueF T look vars scalars e = rhsValueF T look' vars scalars e := by
  unfold rhsValueF
  generalize fieldEnvS vars scalars = env
  congr 1
  induction e with
  | num q => simp [eval]
  | var x => simp [eval]
  | idx x k => simp [eval]
  | named c => rfl
  | neg a iha | powI a n iha =>
    simp only [eval]; rw [iha (fun f hf => h f (by simpa [funNames1] using hf))]
  | heav1 a iha =>
    simp only [eval]; rw [iha (fun f hf => h f (by simpa [funNames1] using hf))]; rfl
  | add a b iha ihb | sub a b iha ihb | mul a b iha ihb | div a b iha ihb =>
    simp only [eval]
    rw [iha (fun f hf => h f (by simp [funNames1, hf])),
      ihb (fun f hf => h f (by simp [funNames1, hf]))]
  | call2 f a b iha ihb | heav2 a b iha ihb | cmp op a b iha ihb =>
    simp only [eval]
    rw [iha (fun f hf => h f (by simp [funNames1, hf])),
      ihb (fun f hf => h f (by simp [funNames1, hf]))]
    rfl
  | call1 f a iha =>
    simp only [eval]
    rw [iha (fun f' hf => h f' (by simp [funNames1, hf]))]
    simp [opsTabF, opTab, h f (by simp [funNames1])]

/-- the cell-wise environment behind `fieldEnvS` -/
def cellEnv (vars : List (String × St ι K)) (scalars : List (String × K)) (i : ι) : Env K where
  sc := fun s => match vars.lookup s with
    | some x => x i
    | none => match scalars.lookup s with
      | some v => v
      | none => 0
  ix := fun _ _ => 0

theorem fieldEnvS_eq_liftEnv (vars : List (String × St ι K)) (scalars : List (String × K)) :
    (fieldEnvS vars scalars : Env (Fld ι K)) = liftEnv (cellEnv vars scalars) := by
  unfold fieldEnvS liftEnv cellEnv
  congr 1
  · funext s
    dsimp only
    cases h1 : vars.lookup s with
    | some x => rfl
    | none =>
      cases h2 : scalars.lookup s with
      | some v => rfl
      | none => simp
  · funext s k; simp

/-- without operator names the right-hand side of the generic `PDE` is C11's scalar formula in
every cell, with fields read at the cell and constants / the time as numbers: reaction terms,
explicit time dependence, coordinate dependence and constants do not see the operators or
their boundary conditions (generalises `rhsValue_operator_free` to what the driver evaluates) -/
theorem rhsValueF_operator_free (T : FunTab K) (look : String → Option (Op ι K))
    (vars : List (String × St ι K)) (scalars : List (String × K)) (e : Expr)
    (h : ∀ f ∈ funNames1 e, look f = none) (i : ι) :
    rhsValueF T look vars scalars e i = eval T (cellEnv vars scalars i) e := by
  unfold rhsValueF
  rw [fieldEnvS_eq_liftEnv]
  generalize cellEnv vars scalars = envs
  induction e with
  | num q => simp [eval]
  | var x => simp [eval, liftEnv]
  | idx x k => simp [eval, liftEnv]
  | named c => simp [eval]
  | neg a iha | powI a n iha | heav1 a iha =>
    simp [eval, iha (fun f hf => h f (by simpa [funNames1] using hf))]
  | add a b iha ihb | sub a b iha ihb | mul a b iha ihb | div a b iha ihb
  | call2 f a b iha ihb | heav2 a b iha ihb | cmp op a b iha ihb =>
    simp [eval, iha (fun f hf => h f (by simp [funNames1, hf])),
      ihb (fun f hf => h f (by simp [funNames1, hf]))]
  | call1 f a iha =>
    simp [eval, opsTabF_f1_none T look f _ (h f (by simp [funNames1])),
      iha (fun f' hf => h f' (by simp [funNames1, hf]))]

/-- an operator name in the right-hand side denotes the operator the table selects, applied to
the value of its argument as a whole field -/
theorem rhsValueF_operator (T : FunTab K) (look : String → Option (Op ι K))
    (vars : List (String × St ι K)) (scalars : List (String × K)) (f : String) (a : Expr)
    (L : Op ι K) (hL : look f = some L) :
    rhsValueF T look vars scalars (.call1 f a) = L (rhsValueF T look vars scalars a) := by
  simp [rhsValueF, eval, opsTabF_f1_some T look f _ L hL]

/-! #### `bc_ops`: the first matching key wins, the default comes last -/

theorem bcMatches_iff (kv ko var op : String) :
    bcMatches (kv, ko) var op = true ↔ (kv = var ∨ kv = "*") ∧ (ko = op ∨ ko = "*") := by
  simp [bcMatches]

/-- the selected key matches ... -/
theorem bcIndex_selects (keys : List (String × String)) (var op : String)
    (h : bcIndex keys var op < keys.length) :
    bcMatches (keys[bcIndex keys var op]) var op = true := by
  unfold bcIndex at h ⊢
  exact List.findIdx_getElem (w := h)

/-- ... and no earlier key does -/
theorem bcIndex_first (keys : List (String × String)) (var op : String) (j : Nat)
    (hj : j < bcIndex keys var op) (hl : j < keys.length) :
    bcMatches (keys[j]) var op = false := by
  unfold bcIndex at hj
  simpa using List.not_of_lt_findIdx hj

/-- the default condition (position `keys.length`) is used exactly when no key of `bc_ops`
matches -/
theorem bcIndex_default (keys : List (String × String)) (var op : String) :
    bcIndex keys var op = keys.length ↔ ∀ k ∈ keys, bcMatches k var op = false := by
  unfold bcIndex
  rw [List.findIdx_eq_length]

theorem bcIndex_le (keys : List (String × String)) (var op : String) :
    bcIndex keys var op ≤ keys.length := List.findIdx_le_length

/-- a key that names variable and operator exactly and comes first is taken -/
theorem bcIndex_exact_first (rest : List (String × String)) (var op : String) :
    bcIndex ((var, op) :: rest) var op = 0 := by
  simp [bcIndex, List.findIdx_cons, bcMatches]

/-- the operator a name denotes in the equation of `var` is the instance built with the
condition `bcIndex` selects under the operator's look-up name -/
theorem pdeOp_eq (keys : List (String × String))
    (table : List (String × String × List (Option (Op ι K)))) (var name bcName : String)
    (insts : List (Option (Op ι K))) (h : table.lookup name = some (bcName, insts)) :
    pdeOp keys table var name = insts.getD (bcIndex keys var bcName) none := by
  simp [pdeOp, h]

/-- composition: in the equation of `var`, `name(arg)` is the instance of the operator with the
first matching condition of `bc_ops ++ [default]`, applied to the value of `arg` -/
theorem rhsValuePde_operator (T : FunTab K) (keys : List (String × String))
    (table : List (String × String × List (Option (Op ι K)))) (var name bcName : String)
    (insts : List (Option (Op ι K))) (L : Op ι K)
    (vars : List (String × St ι K)) (scalars : List (String × K)) (a : Expr)
    (h : table.lookup name = some (bcName, insts))
    (hL : insts[bcIndex keys var bcName]? = some (some L)) :
    rhsValuePde T keys table var vars scalars (.call1 name a) =
      L (rhsValuePde T keys table var vars scalars a) := by
  unfold rhsValuePde
  apply rhsValueF_operator
  rw [pdeOp_eq keys table var name bcName insts h]
  simp [List.getD, hL]

/-- first match wins even against a later, more specific key; a key for another variable does
not apply; without a matching key the default (position `length`) is used -/
example : bcIndex [("*", "laplace"), ("c", "laplace")] "c" "laplace" = 0 := by decide
example : bcIndex [("d", "laplace"), ("c", "*")] "c" "gradient" = 1 := by decide
example : bcIndex [("d", "laplace"), ("*", "gradient")] "c" "laplace" = 2 := by decide

/-- `gradient_squared` as the driver builds it from measured gradient components: the sum of
the squares of the components -/
theorem sumSquares_eq_sum (comps : List (Op Nat K)) (x : St Nat K) (i : Nat) :
    sumSquares comps x i = (comps.map (fun g => g x i ^ 2)).sum := by
  unfold sumSquares
  have key : ∀ (l : List (Op Nat K)) (acc : K),
      l.foldl (fun acc g => acc + g x i * g x i) acc = acc + (l.map (fun g => g x i ^ 2)).sum := by
    intro l
    induction l with
    | nil => intro acc; simp
    | cons g l ih => intro acc; simp only [List.foldl_cons, List.map_cons, List.sum_cons, ih]; ring
  rw [key]; simp

end

/-! ### the driver's operators are of the kind the theorems speak about -/
section
variable {K : Type} [Field K] [CharZero K]

theorem foldl_affine (l : List Nat) (f : Nat → K) (b : K) :
    l.foldl (fun acc j => acc + f j) b = b + l.foldl (fun acc j => acc + f j) 0 := by
  induction l generalizing b with
  | nil => simp
  | cons j l ih =>
    simp only [List.foldl_cons]
    rw [ih (b + f j), ih (0 + f j)]
    ring

theorem foldl_add_fun (l : List Nat) (f g : Nat → K) :
    l.foldl (fun acc j => acc + (f j + g j)) 0 =
      l.foldl (fun acc j => acc + f j) 0 + l.foldl (fun acc j => acc + g j) 0 := by
  induction l with
  | nil => simp
  | cons j l ih =>
    simp only [List.foldl_cons]
    rw [foldl_affine l _ (0 + (f j + g j)), foldl_affine l f (0 + f j),
      foldl_affine l g (0 + g j), ih]
    ring

theorem foldl_mul_fun (l : List Nat) (a : K) (f : Nat → K) :
    l.foldl (fun acc j => acc + a * f j) 0 = a * l.foldl (fun acc j => acc + f j) 0 := by
  induction l with
  | nil => simp
  | cons j l ih =>
    simp only [List.foldl_cons]
    rw [foldl_affine l _ (0 + a * f j), foldl_affine l f (0 + f j), ih]
    ring

/-- the matrix-plus-vector operator the driver builds from measured data is `affine` over a
linear part -/
theorem affineOp_is_affine (n : Nat) (A : Nat → Nat → K) (b : Nat → K) :
    affineOp n A b = affine (affineOp n A (fun _ => 0)) b ∧
    IsLinearOp (affineOp n A (fun _ => 0)) := by
  refine ⟨?_, ?_, ?_⟩
  · funext x i
    simp only [affineOp, affine]
    rw [foldl_affine]
    ring
  · intro x y
    funext i
    simp only [affineOp]
    rw [← foldl_add_fun]
    congr 1
    funext acc j
    ring
  · intro a x
    funext i
    simp only [affineOp]
    rw [← foldl_mul_fun]
    congr 1
    funext acc j
    ring

/-! ### non-vacuity: concrete operators with inhomogeneous conditions over ℚ -/

/-- a 2-cell Laplacian-like matrix with Dirichlet-type offset `b = (3, 3)` -/
def exA : Nat → Nat → ℚ := fun i j => if i = j then -2 else 1
def exB : Nat → ℚ := fun _ => 3
def exC : Nat → ℚ := fun i => if i = 0 then 1 else 2

/-- the grouped Kuramoto-Sivashinsky text and the class really differ for this operator (by
`ν b = 3/2` in every cell) -/
example : rhsValue (algTab : FunTab ℚ) (affineOp 2 exA exB) (fun _ _ => 0) [("c", exC)]
      (ksExpr (Fac.exact (1/2))) 0 =
    ksRate (1/2 : ℚ) (affineOp 2 exA exB) (affineOp 2 exA exB) (fun _ _ => 0) exC 0 + 3/2 := by
  have h := affineOp_is_affine 2 exA exB
  rw [h.1]
  have g := ks_grouped_text_vs_split_class_gap (algTab : FunTab ℚ) (1/2) h.2 exB
    (fun _ _ => 0) exC 0
  rw [g]
  norm_num [exB]

/-- Cahn-Hilliard: exchanging the roles of `bc_c` and `bc_mu` changes the rate -/
example : cahnHilliardRate (1 : ℚ) (affineOp 2 exA exC) (affineOp 2 exA (fun _ => 0)) exC 0 ≠
    cahnHilliardRate (1 : ℚ) (affineOp 2 exA (fun _ => 0)) (affineOp 2 exA exC) exC 0 := by
  simp [cahnHilliardRate, cahnHilliardMu, affineOp, exA, exC, List.range, List.range.loop]
  norm_num

/-- the offset of this operator is not zero, so it does not commute with negation -/
example : ¬ ∀ x : St Nat ℚ, affine (affineOp 2 exA (fun _ => 0)) exB (fun i => - x i) =
    fun i => - affine (affineOp 2 exA (fun _ => 0)) exB x i := by
  rw [affine_bc_not_odd (affineOp_is_affine 2 exA exB).2]
  intro h
  have := congrFun h 0
  norm_num [exB] at this

end

end PdeVerif.PDEs
