import PdeVerif.Model.Controller
import PdeVerif.Model.ControllerHeap
import PdeVerif.Lemmas.Basic
import PdeVerif.Lemmas.Controller
import PdeVerif.Props.C07
/-
C07, gap round: (1) the clause "the caller's initial state object is left unmodified" on a heap
model of `Controller.run` (`Model/ControllerHeap.lean`: objects with addresses, `copy()` allocates,
the stepper writes in place), tied to the value-semantics model by a refinement theorem, so that
every C07 theorem about `run` / `runFuel` is a theorem about the heap-level run;
(2) the property statement composed with the concrete interrupt classes (`runSpec`, the function
the driver evaluates against the real code): constant, fixed list, logarithmic, geometric
(and arbitrary oracle) schedules; (3) the "any time range" clause in one statement.
-/
set_option linter.unusedSectionVars false
set_option linter.unusedVariables false

namespace PdeVerif.Controller
open PdeVerif

section lawfree
/- no property of the arithmetic is used in this section: `K` is any type with the operation symbols of
the model (so the statements hold for exact fields and literally for `K := Float`) -/
variable {K S σ : Type} [Add K] [Sub K] [Mul K] [Div K] [Neg K] [NatCast K] [IntCast K]
variable [LT K] [DecidableLT K] [LE K] [DecidableLE K] [HasFloor K]

/-! ### the heap-level run refines the value-level run -/

/-- what the value-semantics model sees of a heap-level loop state: the content of the working object -/
def HLState.abs (w : Nat) (hs : HLState K S σ) : LState K S σ :=
  { t := hs.t, u := hs.heap.cell w, steps := hs.steps, trs := hs.trs, trace := hs.trace, iters := hs.iters }

/-- nothing but the working object `w` is written, nothing is allocated -/
def Heap.FrameOf (w : Nat) (h h' : Heap S) : Prop := (∀ b, b ≠ w → h'.cell b = h.cell b) ∧ h'.next = h.next

theorem Heap.FrameOf.refl (w : Nat) (h : Heap S) : Heap.FrameOf w h h := ⟨fun _ _ => rfl, rfl⟩

theorem Heap.FrameOf.trans {w : Nat} {h1 h2 h3 : Heap S} (a : Heap.FrameOf w h1 h2) (b : Heap.FrameOf w h2 h3) :
    Heap.FrameOf w h1 h3 :=
  ⟨fun x hx => (b.1 x hx).trans (a.1 x hx), b.2.trans a.2⟩

theorem iterOnceH_refines (c : Cfg K S σ) (w : Nat) (hs : HLState K S σ) :
    (iterOnceH c w hs).1.abs w = (iterOnce c (hs.abs w)).1 ∧
      (iterOnceH c w hs).2 = (iterOnce c (hs.abs w)).2 ∧
      Heap.FrameOf w hs.heap (iterOnceH c w hs).1.heap := by
  by_cases hc : hs.t < c.tEnd - c.eps * c.dt
  · have hc' : (hs.abs w).t < c.tEnd - c.eps * c.dt := hc
    cases hh : (handleAll c.nxt (half * c.dt) hs.t (hs.heap.cell w) 0 hs.trs).2.2 with
    | some r =>
      have hh' : (handleAll c.nxt (half * c.dt) (hs.abs w).t (hs.abs w).u 0 (hs.abs w).trs).2.2 = some r := hh
      unfold iterOnceH iterOnce
      rw [if_pos hc, if_pos hc']
      simp only [hh, hh']
      exact ⟨rfl, trivial, Heap.FrameOf.refl _ _⟩
    | none =>
      have hh' : (handleAll c.nxt (half * c.dt) (hs.abs w).t (hs.abs w).u 0 (hs.abs w).trs).2.2 = none := hh
      unfold iterOnceH iterOnce
      rw [if_pos hc, if_pos hc']
      simp only [hh, hh']
      refine ⟨?_, trivial, ?_, rfl⟩
      · simp [HLState.abs, Heap.write]
      · intro b hb; simp [Heap.write, hb]
  · have hc' : ¬ (hs.abs w).t < c.tEnd - c.eps * c.dt := hc
    unfold iterOnceH iterOnce
    rw [if_neg hc, if_neg hc']
    exact ⟨rfl, rfl, Heap.FrameOf.refl _ _⟩

theorem loopH_refines (c : Cfg K S σ) (w : Nat) :
    ∀ (fuel : Nat) (hs : HLState K S σ),
      (loopH c w fuel hs).1.abs w = (loop c fuel (hs.abs w)).1 ∧
        (loopH c w fuel hs).2 = (loop c fuel (hs.abs w)).2 ∧
        Heap.FrameOf w hs.heap (loopH c w fuel hs).1.heap := by
  intro fuel
  induction fuel with
  | zero => intro hs; exact ⟨rfl, rfl, Heap.FrameOf.refl _ _⟩
  | succ n ih =>
    intro hs
    obtain ⟨e1, e2, e3⟩ := iterOnceH_refines c w hs
    unfold loopH loop
    rcases hH : iterOnceH c w hs with ⟨hs', o⟩
    rcases hV : iterOnce c (hs.abs w) with ⟨st', o'⟩
    rw [hH] at e1 e2 e3
    rw [hV] at e1 e2
    simp only at e1 e2 e3
    subst e2
    cases o with
    | none =>
      simp only
      obtain ⟨i1, i2, i3⟩ := ih hs'
      rw [e1] at i1 i2
      exact ⟨i1, i2, e3.trans i3⟩
    | some e => exact ⟨e1, rfl, e3⟩

theorem finalHandleH_refines (c : Cfg K S σ) (w : Nat) (p : HLState K S σ × Exit) :
    (finalHandleH c w p).1.abs w = (finalHandle c (p.1.abs w, p.2)).1 ∧
      (finalHandleH c w p).2 = (finalHandle c (p.1.abs w, p.2)).2 ∧
      (finalHandleH c w p).1.heap = p.1.heap := by
  obtain ⟨hs, e⟩ := p
  unfold finalHandleH finalHandle
  cases e <;> simp [HLState.abs]
  rfl

/-- **runHeapAt_refines**: the main process working in place on the object at address `w` is the
value-level run started from the content of `w`: same final time, steps, trackers, trace, exit,
and the content of `w` afterwards is the value-level final state; no other object is written and
nothing is allocated. -/
theorem runHeapAt_refines (c : Cfg K S σ) (h : Heap S) (w : Nat) (trs : List (Tracker K S σ)) (fuel : Nat) :
    let R := runHeapAt c h w trs fuel
    let r := runFuel c (h.cell w) trs fuel
    R.obj = w ∧ R.heap.cell w = r.state ∧ R.tFinal = r.tFinal ∧ R.steps = r.steps ∧
      R.trackers = r.trackers ∧ R.trace = r.trace ∧ R.exit = r.exit ∧ R.iters = r.iters ∧
      Heap.FrameOf w h R.heap := by
  intro R r
  obtain ⟨l1, l2, l3⟩ := loopH_refines c w fuel
    { heap := h, t := c.tStart, steps := 0, trs := trs, trace := [], iters := 0 }
  obtain ⟨f1, f2, f3⟩ := finalHandleH_refines c w (loopH c w fuel
    { heap := h, t := c.tStart, steps := 0, trs := trs, trace := [], iters := 0 })
  rw [l1, l2] at f1 f2
  have hinit : (HLState.abs w ({ heap := h, t := c.tStart, steps := 0, trs := trs, trace := [], iters := 0 } :
      HLState K S σ)) = { t := c.tStart, u := h.cell w, steps := 0, trs := trs, trace := [], iters := 0 } := rfl
  rw [hinit] at f1 f2
  have g := congrArg LState.u f1
  have gt := congrArg LState.t f1
  have gs := congrArg LState.steps f1
  have gr := congrArg LState.trs f1
  have gc := congrArg LState.trace f1
  have gi := congrArg LState.iters f1
  refine ⟨rfl, g, gt, gs, ?_, gc, f2, gi, ?_⟩
  · show finalizeAll _ = finalizeAll _
    exact congrArg finalizeAll gr
  · show Heap.FrameOf w h (finalHandleH c w _).1.heap
    rw [f3]; exact l3

/-- **runHeap_refines**: `Controller.run` on the heap is the value-level `runFuel` on the content
of the caller's object (so every C07 theorem about `runFuel`/`run` speaks about the heap-level run):
the content of the returned object is the value-level final state, and final time, steps,
trackers, trace and exit agree. -/
theorem runHeap_refines (c : Cfg K S σ) (h : Heap S) (a : Nat) (trs : List (Tracker K S σ)) (fuel : Nat) :
    let R := runHeapFuel c h a trs fuel
    let r := runFuel c (h.cell a) trs fuel
    R.heap.cell R.obj = r.state ∧ R.tFinal = r.tFinal ∧ R.steps = r.steps ∧
      R.trackers = r.trackers ∧ R.trace = r.trace ∧ R.exit = r.exit ∧ R.iters = r.iters := by
  intro R r
  obtain ⟨h0, h1, h2, h3, h4, h5, h6, h7, _⟩ := runHeapAt_refines c (h.copy a).1 (h.copy a).2 trs fuel
  have hc : (h.copy a).1.cell (h.copy a).2 = h.cell a := by simp [Heap.copy]
  rw [hc] at h1 h2 h3 h4 h5 h6 h7
  refine ⟨?_, h2, h3, h4, h5, h6, h7⟩
  show (runHeapAt c (h.copy a).1 (h.copy a).2 trs fuel).heap.cell (runHeapAt c (h.copy a).1 (h.copy a).2 trs fuel).obj = _
  rw [h0]; exact h1

/-- **initial_state_untouched** (the full clause, replaces `initial_state_untouched_partial`):
after `Controller.run(initial_state)` - on every path (final time reached, stopped by a tracker),
for every tracker list, schedule, step map and fuel - every object that existed before the call,
in particular the caller's `initial_state` at address `a`, has the content it had before; the
returned state is a different, freshly allocated object (no aliasing), and the run allocates
exactly one object. -/
theorem initial_state_untouched (c : Cfg K S σ) (h : Heap S) (a : Nat) (ha : a < h.next)
    (trs : List (Tracker K S σ)) (fuel : Nat) :
    let R := runHeapFuel c h a trs fuel
    (∀ b, b < h.next → R.heap.cell b = h.cell b) ∧ R.heap.cell a = h.cell a ∧
      R.obj ≠ a ∧ R.obj = h.next ∧ R.heap.next = h.next + 1 := by
  intro R
  obtain ⟨h0, _, _, _, _, _, _, _, hf⟩ := runHeapAt_refines c (h.copy a).1 (h.copy a).2 trs fuel
  have hw : (h.copy a).2 = h.next := rfl
  have hold : ∀ b, b < h.next → R.heap.cell b = h.cell b := by
    intro b hb
    have hne : b ≠ (h.copy a).2 := by rw [hw]; omega
    have := hf.1 b hne
    show (runHeapAt c (h.copy a).1 (h.copy a).2 trs fuel).heap.cell b = h.cell b
    rw [this]
    simp [Heap.copy]; omega
  have hobj : R.obj = h.next := h0
  refine ⟨hold, hold a ha, by rw [hobj]; omega, hobj, ?_⟩
  show (runHeapAt c (h.copy a).1 (h.copy a).2 trs fuel).heap.next = h.next + 1
  rw [hf.2]; rfl

/-- the model can express the defect the clause is about: the main process run directly on the
caller's object (a missing `copy()`) returns that very object and leaves the final state in it. -/
theorem missing_copy_modifies_initial (c : Cfg K S σ) (h : Heap S) (a : Nat) (trs : List (Tracker K S σ))
    (fuel : Nat) :
    (runHeapAt c h a trs fuel).obj = a ∧
      (runHeapAt c h a trs fuel).heap.cell a = (runFuel c (h.cell a) trs fuel).state := by
  obtain ⟨h0, h1, _⟩ := runHeapAt_refines c h a trs fuel
  exact ⟨h0, h1⟩

/-- `initial_state_untouched` and `runHeap_refines` at `K := Float` (the IEEE instantiation the driver
replays against the real code): whatever rounding does to times and step counts, the caller's
object is not written, the result is a fresh object, and the heap-level run is the value-level run. -/
theorem float_initial_state_untouched (c : Cfg Float S σ) (h : Heap S) (a : Nat) (ha : a < h.next)
    (trs : List (Tracker Float S σ)) (fuel : Nat) :
    (∀ b, b < h.next → (runHeapFuel c h a trs fuel).heap.cell b = h.cell b) ∧
      (runHeapFuel c h a trs fuel).obj ≠ a ∧
      (runHeapFuel c h a trs fuel).heap.cell (runHeapFuel c h a trs fuel).obj = (runFuel c (h.cell a) trs fuel).state ∧
      (runHeapFuel c h a trs fuel).steps = (runFuel c (h.cell a) trs fuel).steps ∧
      (runHeapFuel c h a trs fuel).tFinal = (runFuel c (h.cell a) trs fuel).tFinal := by
  obtain ⟨u1, _, u3, _, _⟩ := initial_state_untouched c h a ha trs fuel
  obtain ⟨r1, r2, r3, _⟩ := runHeap_refines c h a trs fuel
  exact ⟨u1, u3, r1, r3, r2⟩

end lawfree

section
variable {K : Type} [Field K] [LinearOrder K] [IsStrictOrderedRing K] [FloorRing K]
variable {S σ : Type}

/-! ### every tracker schedule kind composed with the controller loop (`runSpec`, the function the driver evaluates)

`SchedSpec` = the interrupt classes of the package: `const` (ConstantInterrupts), `log`
(LogarithmicInterrupts), `fixed` (FixedInterrupts, any list - sorted or not, with duplicates,
in the past), `geom` (GeometricInterrupts) and `oracle` (any prepared answers).  The statements
hold for every list of such trackers, every `dt`/interval/range triple. -/

/-- a tracker built from a spec that never raises is a read-only observer, whatever its schedule -/
theorem TrackerSpec.init_readOnly (ts : TrackerSpec K S) (h : ∀ n t u, ts.stopAt n t u = none) (t0 : K) :
    (ts.init t0).ReadOnly := h

theorem specs_readOnly (specs : List (TrackerSpec K S)) (t0 : K)
    (hro : ∀ ts ∈ specs, ∀ n t u, ts.stopAt n t u = none) :
    ∀ tr ∈ specs.map (fun s => s.init t0), tr.ReadOnly := by
  intro tr htr
  obtain ⟨ts, hts, rfl⟩ := List.mem_map.mp htr
  exact TrackerSpec.init_readOnly ts (hro ts hts) t0

/-- **runSpec_whole_range_exact**: a range of `N` whole steps observed by any list of read-only
trackers with constant / logarithmic / fixed-list / geometric / arbitrary schedules: exactly `N`
steps, `t_final = t_end`, final state = `N` applications of the one-step map, `Reached final
time`. -/
theorem runSpec_whole_range_exact (dt tStart tEnd eps : K) (step : S → K → S) (u0 : S)
    (specs : List (TrackerSpec K S)) (hdt : 0 < dt) (he0 : 0 < eps) (he1 : eps < 1 / 2)
    (N : Nat) (hN : tEnd - tStart = N * dt) (hro : ∀ ts ∈ specs, ∀ n t u, ts.stopAt n t u = none) :
    let r := runSpec dt tStart tEnd eps step u0 specs
    r.steps = N ∧ r.tFinal = tEnd ∧ r.state = stepN step dt tStart N 0 u0 ∧ r.exit = .final ∧
      r.exit.reason = "Reached final time" := by
  intro r
  obtain ⟨h1, h2, h3, h4, h5, _⟩ := whole_range_exact_readonly
    { dt := dt, tStart := tStart, tEnd := tEnd, eps := eps, step := step, nxt := Sched.next }
    hdt he0 he1 N hN u0 _ (specs_readOnly specs tStart hro)
  exact ⟨h1, h2, h3, h4, h5⟩

/-- **runSpec_observation_independent**: two arbitrary lists of read-only trackers of any schedule
kinds leave steps, final time and final state identical (any range, whole or not). -/
theorem runSpec_observation_independent (dt tStart tEnd eps : K) (step : S → K → S) (u0 : S)
    (specs specs' : List (TrackerSpec K S)) (hdt : 0 < dt) (he0 : 0 ≤ eps) (he1 : eps < 1 / 2)
    (hro : ∀ ts ∈ specs, ∀ n t u, ts.stopAt n t u = none)
    (hro' : ∀ ts ∈ specs', ∀ n t u, ts.stopAt n t u = none) :
    (runSpec dt tStart tEnd eps step u0 specs).steps = (runSpec dt tStart tEnd eps step u0 specs').steps ∧
      (runSpec dt tStart tEnd eps step u0 specs).tFinal = (runSpec dt tStart tEnd eps step u0 specs').tFinal ∧
      (runSpec dt tStart tEnd eps step u0 specs).state = (runSpec dt tStart tEnd eps step u0 specs').state :=
  observation_independent
    { dt := dt, tStart := tStart, tEnd := tEnd, eps := eps, step := step, nxt := Sched.next }
    hdt he0 he1 u0 _ _ (specs_readOnly specs tStart hro) (specs_readOnly specs' tStart hro')

/-- **runSpec_any_range**: for any range `t_end ≥ t_start` (whole number of steps or not) and any
read-only trackers of any schedule kinds: the final state is `steps` applications of the one-step
map (the `i`-th at `t_start + i*dt`), `t_final = t_start + steps*dt`, `|t_final - t_end| < dt`,
and `steps = ⌈(t_end - t_start)/dt - eps⌉`. -/
theorem runSpec_any_range (dt tStart tEnd eps : K) (step : S → K → S) (u0 : S)
    (specs : List (TrackerSpec K S)) (hdt : 0 < dt) (he0 : 0 < eps) (he1 : eps < 1 / 2)
    (hT : tStart ≤ tEnd) (hro : ∀ ts ∈ specs, ∀ n t u, ts.stopAt n t u = none) :
    let r := runSpec dt tStart tEnd eps step u0 specs
    r.state = stepN step dt tStart r.steps 0 u0 ∧ r.tFinal = tStart + r.steps * dt ∧
      |r.tFinal - tEnd| < dt ∧ r.steps = (Int.ceil ((tEnd - tStart) / dt - eps)).toNat ∧ r.exit = .final := by
  intro r
  let c : Cfg K S (Sched K) :=
    { dt := dt, tStart := tStart, tEnd := tEnd, eps := eps, step := step, nxt := Sched.next }
  have e := readonly_reaches_final c hdt he0.le he1 u0 _ (specs_readOnly specs tStart hro)
  have hre : (runFuel c u0 (specs.map (fun s => s.init tStart)) (defaultFuel c)).exit.reachedEnd := by
    show (run c u0 _).exit.reachedEnd; rw [e]; trivial
  obtain ⟨g1, _, _, g4⟩ := general_range c hdt he0 he1 hT u0 _ (defaultFuel c) hre
  have hs := steps_eq_ceil c hdt he1 u0 _ (defaultFuel c) hre
  exact ⟨state_is_iterate c u0 _ (defaultFuel c), g1, g4, hs, e⟩

/-- **empty_range**: a range that is empty up to the loop tolerance (`t_start ≥ t_end - eps*dt`,
in particular `t_end ≤ t_start`) takes no step at all: `steps = 0`, `t_final = t_start`, the state
is the initial state - whatever the trackers.  (So `|t_final - t_end| < dt` is a statement about
ranges with `t_end ≥ t_start` only: for `t_end < t_start - dt` it is false, the run does not go
backwards.) -/
theorem empty_range (c : Cfg K S σ) (hT : ¬ c.tStart < c.tEnd - c.eps * c.dt) (u0 : S)
    (trs : List (Tracker K S σ)) (fuel : Nat) :
    (runFuel c u0 trs fuel).steps = 0 ∧ (runFuel c u0 trs fuel).tFinal = c.tStart ∧
      (runFuel c u0 trs fuel).state = u0 := by
  have hl : (loop c fuel (initState c u0 trs)).1 = initState c u0 trs := by
    cases fuel with
    | zero => rfl
    | succ n =>
      unfold loop
      rcases iterOnce_cases c (initState c u0 trs) with ⟨_, e⟩ | ⟨hc, _⟩ | ⟨hc, _⟩
      · rw [e]
      · exact absurd hc hT
      · exact absurd hc hT
  refine ⟨?_, ?_, ?_⟩
  · show (finalHandle c (loop c fuel (initState c u0 trs))).1.steps = 0
    rw [finalHandle_steps, hl]; rfl
  · show (finalHandle c (loop c fuel (initState c u0 trs))).1.t = c.tStart
    rw [finalHandle_t, hl]; rfl
  · show (finalHandle c (loop c fuel (initState c u0 trs))).1.u = u0
    rw [finalHandle_u, hl]; rfl

/-! ### the property statement on the heap, with the concrete interrupt classes -/

/-- **c07_statement_on_heap**: `Controller.run(initial_state)` for a range of `N` whole steps,
observed by any read-only trackers with constant / logarithmic / fixed / geometric / arbitrary
schedules: exactly `N` steps, `t_final = t_end`, the returned object holds the `N`-fold iterate of
the one-step map applied to the content of `initial_state`, it is not `initial_state`, and
`initial_state` (and every other existing object) still has its content. -/
theorem c07_statement_on_heap (dt tStart tEnd eps : K) (step : S → K → S) (h : Heap S) (a : Nat)
    (ha : a < h.next) (specs : List (TrackerSpec K S)) (hdt : 0 < dt) (he0 : 0 < eps) (he1 : eps < 1 / 2)
    (N : Nat) (hN : tEnd - tStart = N * dt) (hro : ∀ ts ∈ specs, ∀ n t u, ts.stopAt n t u = none) :
    let R := runHeapSpec dt tStart tEnd eps step h a specs
    R.steps = N ∧ R.tFinal = tEnd ∧ R.heap.cell R.obj = stepN step dt tStart N 0 (h.cell a) ∧
      R.exit = .final ∧ R.obj ≠ a ∧ (∀ b, b < h.next → R.heap.cell b = h.cell b) := by
  intro R
  let c : Cfg K S (Sched K) :=
    { dt := dt, tStart := tStart, tEnd := tEnd, eps := eps, step := step, nxt := Sched.next }
  obtain ⟨r1, r2, r3, _, _, r6, _⟩ := runHeap_refines c h a (specs.map (fun s => s.init tStart)) (defaultFuel c)
  obtain ⟨u1, _, u3, _, _⟩ := initial_state_untouched c h a ha (specs.map (fun s => s.init tStart)) (defaultFuel c)
  obtain ⟨w1, w2, w3, w4, _⟩ := runSpec_whole_range_exact dt tStart tEnd eps step (h.cell a) specs hdt he0 he1 N hN hro
  exact ⟨r3.trans w1, r2.trans w2, r1.trans w3, r6.trans w4, u3, u1⟩

/-- **c07_any_range_on_heap**: the same for any range `t_end ≥ t_start`. -/
theorem c07_any_range_on_heap (dt tStart tEnd eps : K) (step : S → K → S) (h : Heap S) (a : Nat)
    (ha : a < h.next) (specs : List (TrackerSpec K S)) (hdt : 0 < dt) (he0 : 0 < eps) (he1 : eps < 1 / 2)
    (hT : tStart ≤ tEnd) (hro : ∀ ts ∈ specs, ∀ n t u, ts.stopAt n t u = none) :
    let R := runHeapSpec dt tStart tEnd eps step h a specs
    R.heap.cell R.obj = stepN step dt tStart R.steps 0 (h.cell a) ∧ R.tFinal = tStart + R.steps * dt ∧
      |R.tFinal - tEnd| < dt ∧ R.obj ≠ a ∧ (∀ b, b < h.next → R.heap.cell b = h.cell b) := by
  intro R
  let c : Cfg K S (Sched K) :=
    { dt := dt, tStart := tStart, tEnd := tEnd, eps := eps, step := step, nxt := Sched.next }
  obtain ⟨r1, r2, r3, _, _, _, _⟩ := runHeap_refines c h a (specs.map (fun s => s.init tStart)) (defaultFuel c)
  obtain ⟨u1, _, u3, _, _⟩ := initial_state_untouched c h a ha (specs.map (fun s => s.init tStart)) (defaultFuel c)
  obtain ⟨w1, w2, w3, _, _⟩ := runSpec_any_range dt tStart tEnd eps step (h.cell a) specs hdt he0 he1 hT hro
  have hs : R.steps = (runSpec dt tStart tEnd eps step (h.cell a) specs).steps := r3
  have ht : R.tFinal = (runSpec dt tStart tEnd eps step (h.cell a) specs).tFinal := r2
  refine ⟨?_, ?_, ?_, u3, u1⟩
  · rw [hs]; exact r1.trans w1
  · rw [hs, ht]; exact w2
  · rw [ht]; exact w3

/-! ### non-vacuity: a concrete heap-level run at `Rat` -/

/-- three objects; the caller's `initial_state` is object 1 (content 0) -/
def exHeap : Heap Rat := Heap.ofList [7, 0, -3] 0

def exSpecs : List (TrackerSpec Rat Rat) :=
  [ { kind := .callback, sched := .const (7 / 10) none, stopAt := fun _ _ _ => none },
    { kind := .storage, sched := .fixed [1, 2], stopAt := fun _ _ _ => none },
    { kind := .data, sched := .log (3 / 10) 2 none, stopAt := fun _ _ _ => none },
    { kind := .callback, sched := .geom (1 / 2) 2 100, stopAt := fun _ _ _ => none } ]

/-- dt = 1/4, range [1/2, 3], four read-only trackers (constant, fixed, logarithmic, geometric):
10 steps, ends at 3, the result is the new object 3 with content 65/16, objects 0, 1, 2 are as
before (kernel-evaluated) -/
example :
    let R := runHeapSpec (1 / 4 : Rat) (1 / 2) 3 (1 / 1000000) (fun u t => u + 1 / 4 * t) exHeap 1 exSpecs
    R.steps = 10 ∧ R.tFinal = 3 ∧ R.obj = 3 ∧ R.heap.toList = [7, 0, -3, 65 / 16] ∧ R.exit = .final ∧
      6 ≤ R.trace.length := by decide +kernel

/-- the hypotheses of `c07_statement_on_heap` hold for this run -/
example : (1 : Nat) < exHeap.next ∧ (3 : Rat) - 1 / 2 = (10 : Nat) * (1 / 4) ∧
    ∀ ts ∈ exSpecs, ∀ n t u, ts.stopAt n t u = none := by
  refine ⟨by decide, by norm_num, ?_⟩
  intro ts h
  simp only [exSpecs, List.mem_cons, List.not_mem_nil, or_false] at h
  rcases h with rfl | rfl | rfl | rfl <;> intro n t u <;> rfl

/-- and a range that is not a whole number of steps ([1/2, 3.1]: 11 steps, ends at 13/4) -/
example :
    let R := runHeapSpec (1 / 4 : Rat) (1 / 2) (31 / 10) (1 / 1000000) (fun u t => u + 1 / 4 * t) exHeap 1 exSpecs
    R.steps = 11 ∧ R.tFinal = 13 / 4 ∧ R.obj = 3 ∧ (R.heap.toList.take 3) = [7, 0, -3] := by decide +kernel

/-- the missing-copy variant on the same data does modify the caller's object -/
example :
    (runHeapAt (K := Rat) (σ := Sched Rat)
      { dt := 1 / 4, tStart := 1 / 2, tEnd := 3, eps := 1 / 1000000, step := fun u t => u + 1 / 4 * t,
        nxt := Sched.next } exHeap 1 [] 20).heap.toList = [7, 65 / 16, -3] := by decide +kernel

end
/-! ### what holds in any arithmetic (and therefore for the `Float` instantiation of the model)

The theorems above use exact field arithmetic.  The statements of this section use no property of
the arithmetic at all. -/

section anyArith
variable {K S σ : Type} [Add K] [Sub K] [Mul K] [Div K] [Neg K] [NatCast K] [IntCast K]
variable [LT K] [DecidableLT K] [LE K] [DecidableLE K] [HasFloor K]

theorem stepN_autonomous (step : S → K → S) (g : S → S) (hg : ∀ u t, step u t = g u) (dt tS : K) :
    ∀ (n i : Nat) (u : S), stepN step dt tS n i u = Nat.iterate g n u
  | 0, _, _ => rfl
  | n + 1, i, u => by
    show stepN step dt tS n (i + 1) (step u _) = Nat.iterate g n (g u)
    rw [stepN_autonomous step g hg dt tS n (i + 1), hg]

theorem iterate_add' (g : S → S) : ∀ (m n : Nat) (u : S), Nat.iterate g n (Nat.iterate g m u) = Nat.iterate g (m + n) u
  | 0, n, u => by rw [Nat.zero_add]; rfl
  | m + 1, n, u => by
    show Nat.iterate g n (Nat.iterate g m (g u)) = _
    rw [iterate_add' g m n (g u), Nat.add_right_comm]; rfl

theorem iterOnce_autonomous (c : Cfg K S σ) (g : S → S) (hg : ∀ u t, c.step u t = g u) (u0 : S)
    (st : LState K S σ) (h : st.u = Nat.iterate g st.steps u0) :
    (iterOnce c st).1.u = Nat.iterate g (iterOnce c st).1.steps u0 := by
  unfold iterOnce
  split
  · dsimp only
    split
    · exact h
    · show stepN c.step c.dt st.t _ 0 st.u = Nat.iterate g (st.steps + _) u0
      rw [stepN_autonomous c.step g hg, h, iterate_add']
  · exact h

theorem loop_autonomous (c : Cfg K S σ) (g : S → S) (hg : ∀ u t, c.step u t = g u) (u0 : S) :
    ∀ (fuel : Nat) (st : LState K S σ), st.u = Nat.iterate g st.steps u0 →
      (loop c fuel st).1.u = Nat.iterate g (loop c fuel st).1.steps u0
  | 0, st, h => h
  | n + 1, st, h => by
    unfold loop
    have := iterOnce_autonomous c g hg u0 st h
    rcases hi : iterOnce c st with ⟨st', o⟩
    rw [hi] at this
    cases o with
    | none => exact loop_autonomous c g hg u0 n st' this
    | some e => exact this

theorem finalHandle_u_steps (c : Cfg K S σ) (p : LState K S σ × Exit) :
    (finalHandle c p).1.u = p.1.u ∧ (finalHandle c p).1.steps = p.1.steps := by
  unfold finalHandle
  split <;> exact ⟨rfl, rfl⟩

/-- **autonomous_state_any_arithmetic** (what the `Float` instantiation of the model can carry): for an
autonomous one-step map (`step u t = g u`) the returned state is `g` iterated `steps` times on the
initial state - in ANY arithmetic: `K` is an arbitrary type with the operation symbols of the model
and no laws at all (no associativity, no exact rounding, `<` arbitrary), so the statement holds
literally for the IEEE instantiation `K := Float` that the driver replays against the real code,
whatever the trackers and their schedules do to the segmentation and to the computed times. -/
theorem autonomous_state_any_arithmetic (c : Cfg K S σ) (g : S → S) (hg : ∀ u t, c.step u t = g u) (u0 : S)
    (trs : List (Tracker K S σ)) (fuel : Nat) :
    (runFuel c u0 trs fuel).state = Nat.iterate g (runFuel c u0 trs fuel).steps u0 := by
  show (finalHandle c _).1.u = Nat.iterate g (finalHandle c _).1.steps u0
  rw [(finalHandle_u_steps c _).1, (finalHandle_u_steps c _).2]
  exact loop_autonomous c g hg u0 fuel _ rfl


/-- **autonomous_bit_identical_of_same_steps**: in any arithmetic (in particular IEEE doubles), two
runs of an autonomous equation observed by arbitrary tracker sets return the identical state as
soon as they report the same number of steps - the only way observation can perturb the state of an
autonomous fixed-step simulation is through the step count. -/
theorem autonomous_bit_identical_of_same_steps (c : Cfg K S σ) (g : S → S) (hg : ∀ u t, c.step u t = g u)
    (u0 : S) (trs trs' : List (Tracker K S σ)) (fuel fuel' : Nat)
    (hs : (runFuel c u0 trs fuel).steps = (runFuel c u0 trs' fuel').steps) :
    (runFuel c u0 trs fuel).state = (runFuel c u0 trs' fuel').state := by
  rw [autonomous_state_any_arithmetic c g hg, autonomous_state_any_arithmetic c g hg, hs]

end anyArith

/-- the two statements at `K := Float` (IEEE doubles as Lean evaluates them in the driver) -/
theorem float_autonomous_state {S σ : Type} (c : Cfg Float S σ) (g : S → S) (hg : ∀ u t, c.step u t = g u)
    (u0 : S) (trs trs' : List (Tracker Float S σ)) (fuel : Nat) :
    (runFuel c u0 trs fuel).state = Nat.iterate g (runFuel c u0 trs fuel).steps u0 ∧
      ((runFuel c u0 trs fuel).steps = (runFuel c u0 trs' fuel).steps →
        (runFuel c u0 trs fuel).state = (runFuel c u0 trs' fuel).state) :=
  ⟨autonomous_state_any_arithmetic c g hg u0 trs fuel,
   autonomous_bit_identical_of_same_steps c g hg u0 trs trs' fuel fuel⟩

/-- the hypothesis is satisfiable: explicit Euler for `u' = -u/2`, `dt = 1/4` (the driver's `lin` equation) is
autonomous with `g u = u + 1/4 * (-1/2 * u)`; concrete run: 4 steps from 1 -/
example : (∀ (u : Rat) (t : Rat), (fun u (_ : Rat) => u + 1 / 4 * (-1 / 2 * u)) u t = (fun u => u + 1 / 4 * (-1 / 2 * u)) u) ∧
    (runFuel (K := Rat) (S := Rat) (σ := Sched Rat)
      { dt := 1 / 4, tStart := 0, tEnd := 1, eps := 1 / 1000000, step := fun u _ => u + 1 / 4 * (-1 / 2 * u),
        nxt := Sched.next } 1 exTrackers 10).state = Nat.iterate (fun u : Rat => u + 1 / 4 * (-1 / 2 * u)) 4 1 := by
  refine ⟨fun _ _ => rfl, by decide +kernel⟩

end PdeVerif.Controller
