import PdeVerif.Model.Expr
import PdeVerif.Model.ExprIndex
import PdeVerif.Lemmas.Basic
import PdeVerif.Lemmas.ExprField
import Mathlib.Data.List.Perm.Basic
import Mathlib.Analysis.Calculus.Deriv.Mul
import Mathlib.Analysis.Calculus.Deriv.Pow
import Mathlib.Analysis.Calculus.Deriv.Inv
import Mathlib.Analysis.Calculus.Deriv.ZPow
import Mathlib.Analysis.SpecialFunctions.Trigonometric.Deriv
import Mathlib.Analysis.SpecialFunctions.Trigonometric.DerivHyp
import Mathlib.Analysis.SpecialFunctions.Trigonometric.ArctanDeriv
import Mathlib.Analysis.SpecialFunctions.ExpDeriv
import Mathlib.Analysis.SpecialFunctions.Log.Deriv
import Mathlib.Analysis.SpecialFunctions.Sqrt
import Mathlib.Analysis.SpecialFunctions.Pow.Deriv
/-
C11 - compiling an expression preserves its meaning.

The theorems fix an unambiguous reference semantics for the expression language
(`PdeVerif.Ex.eval`), show that what py-pde adds around sympy (alias replacement, signature
synonyms and order, constants as trailing arguments, heaviside conventions, arrays) does not
change the meaning of the written formula, and that the symbolic derivative `diff` is the
derivative of that meaning.  sympy / lambdify / numba are external: they are validated against
this semantics by the differential run of `harness/c11.py`, not verified.
-/
set_option linter.unusedSectionVars false
namespace PdeVerif.Ex
open PdeVerif

/-! ### the generic operations are the field operations -/
section field
variable {K : Type} [Field K] [LinearOrder K] [IsStrictOrderedRing K]

@[simp] theorem zero_eq : (zero : K) = 0 := by simp [zero]
@[simp] theorem one_eq : (one : K) = 1 := by simp [one]

@[simp] theorem ofRat_eq (q : Rat) : (ofRat q : K) = (q : K) := by
  unfold ofRat
  exact (Rat.cast_def q).symm

@[simp] theorem npow_eq (x : K) (n : Nat) : npow x n = x ^ n := by
  induction n with
  | zero => simp [npow]
  | succ n ih => simp [npow, ih, pow_succ]

@[simp] theorem powInt_eq (x : K) (n : Int) : powInt x n = x ^ n := by
  cases n with
  | ofNat k => simp [powInt]
  | negSucc k => simp [powInt, zpow_negSucc]

/-! ### eval_compositional -/

/-- the value of every compound expression is a function of the values of its parts -/
theorem eval_compositional (T : FunTab K) (env : Env K) :
    (∀ a, eval T env (.neg a) = - eval T env a) ∧
    (∀ a b, eval T env (.add a b) = eval T env a + eval T env b) ∧
    (∀ a b, eval T env (.sub a b) = eval T env a - eval T env b) ∧
    (∀ a b, eval T env (.mul a b) = eval T env a * eval T env b) ∧
    (∀ a b, eval T env (.div a b) = eval T env a / eval T env b) ∧
    (∀ a n, eval T env (.powI a n) = eval T env a ^ n) ∧
    (∀ f a, eval T env (.call1 f a) = T.f1 f (eval T env a)) ∧
    (∀ f a b, eval T env (.call2 f a b) = T.f2 f (eval T env a) (eval T env b)) ∧
    (∀ q, eval T env (.num q) = (q : K)) := by
  refine ⟨?_, ?_, ?_, ?_, ?_, ?_, ?_, ?_, ?_⟩ <;> intros <;> simp [eval]

/-- substitution lemma: replacing a symbol by an expression is the same as evaluating the
expression first and binding the symbol to its value -/
theorem eval_subst (T : FunTab K) (env : Env K) (x : String) (r e : Expr) :
    eval T env (subst x r e) = eval T (env.set x (eval T env r)) e := by
  induction e with
  | var y =>
    by_cases h : y = x <;> simp [subst, eval, Env.set, h]
  | _ => simp_all [subst, eval, Env.set]

/-- two sub-expressions with the same value can be exchanged in any context -/
theorem eval_congr_subst (T : FunTab K) (env : Env K) (x : String) (r r' c : Expr)
    (h : eval T env r = eval T env r') :
    eval T env (subst x r c) = eval T env (subst x r' c) := by
  rw [eval_subst, eval_subst, h]

/-- the value depends only on the symbols that occur -/
theorem eval_congr_env (T : FunTab K) (env env' : Env K) (e : Expr)
    (h : ∀ s ∈ symbols e, env.sc s = env'.sc s ∧ env.ix s = env'.ix s) :
    eval T env e = eval T env' e := by
  induction e with
  | num q => simp [eval]
  | var x => simpa [eval] using (h x (by simp [symbols])).1
  | idx x i => simp [eval, (h x (by simp [symbols])).2]
  | named c => simp [eval]
  | neg a iha => simp [eval, iha (fun s hs => h s (by simpa [symbols] using hs))]
  | powI a n iha => simp [eval, iha (fun s hs => h s (by simpa [symbols] using hs))]
  | call1 f a iha => simp [eval, iha (fun s hs => h s (by simpa [symbols] using hs))]
  | heav1 a iha => simp [eval, iha (fun s hs => h s (by simpa [symbols] using hs))]
  | add a b iha ihb | sub a b iha ihb | mul a b iha ihb | div a b iha ihb
  | call2 f a b iha ihb | heav2 a b iha ihb | cmp op a b iha ihb =>
    simp [eval, iha (fun s hs => h s (by simp [symbols, hs])),
      ihb (fun s hs => h s (by simp [symbols, hs]))]

/-! ### alias_replacement_sound -/

/-- renaming symbols in the expression = looking the environment up through the renaming -/
theorem alias_replacement_sound (T : FunTab K) (env : Env K) (ρ : String → String) (e : Expr) :
    eval T env (rename ρ e) = eval T (env.comap ρ) e := by
  induction e with
  | _ => simp_all [rename, eval, Env.comap]

/-- `prepare` (coordinate aliases, then signature synonyms): the generated function computes
the written formula in the environment where every written name - alias, synonym or definite
name - denotes the value bound to its definite name -/
theorem prepare_sound (T : FunTab K) (env : Env K) (sig : List (List String))
    (repl : List (String × String)) (e : Expr) :
    eval T env (prepare sig repl e) =
      eval T (env.comap (fun s => sigFn sig (replFn repl s))) e := by
  unfold prepare
  rw [alias_replacement_sound, alias_replacement_sound]
  rfl

/-- a renaming that is the identity on the symbols of `e` does nothing -/
theorem rename_id_on (ρ : String → String) (e : Expr) (h : ∀ s ∈ symbols e, ρ s = s) :
    rename ρ e = e := by
  induction e with
  | num q => rfl
  | var x => simp [rename, h x (by simp [symbols])]
  | idx x i => simp [rename, h x (by simp [symbols])]
  | named c => rfl
  | neg a iha | powI a n iha | call1 f a iha | heav1 a iha =>
    simp [rename, iha (fun s hs => h s (by simpa [symbols] using hs))]
  | add a b iha ihb | sub a b iha ihb | mul a b iha ihb | div a b iha ihb
  | call2 f a b iha ihb | heav2 a b iha ihb | cmp op a b iha ihb =>
    simp [rename, iha (fun s hs => h s (by simp [symbols, hs])),
      ihb (fun s hs => h s (by simp [symbols, hs]))]

/-- the replacement acts on whole symbols only: a symbol that merely *contains* an alias
(`radius2`, `phi0`) is untouched unless it is itself listed -/
theorem replFn_other (repl : List (String × String)) (s : String)
    (h : ∀ p ∈ repl, p.1 ≠ s) : replFn repl s = s := by
  unfold replFn
  induction repl with
  | nil => simp [List.lookup]
  | cons p ps ih =>
    have hp : p.1 ≠ s := h p (by simp)
    have : (s == p.1) = false := by simpa using fun e => hp e.symm
    simp only [List.lookup, this]
    exact ih (fun q hq => h q (by simp [hq]))

/-! ### signature order, constants -/

theorem Env.ext' {e₁ e₂ : Env K} (h1 : e₁.sc = e₂.sc) (h2 : e₁.ix = e₂.ix) : e₁ = e₂ := by
  cases e₁; cases e₂; simp_all

/-- binding two different names commutes -/
theorem bind1_comm (n m : String) (v w : Val K) (d : Env K) (h : n ≠ m) :
    Env.bind1 n v (Env.bind1 m w d) = Env.bind1 m w (Env.bind1 n v d) := by
  apply Env.ext' <;> funext s <;> simp only [Env.bind1] <;>
    by_cases h1 : s = n <;> by_cases h2 : s = m <;> simp_all

/-- binding from a list of (name, value) pairs -/
def bindPairs : List (String × Val K) → Env K → Env K
  | [], d => d
  | p :: ps, d => Env.bind1 p.1 p.2 (bindPairs ps d)

theorem bindEnv_eq_bindPairs (ns : List String) (vs : List (Val K)) (d : Env K) :
    bindEnv ns vs d = bindPairs (ns.zip vs) d := by
  induction ns generalizing vs with
  | nil => simp [bindEnv, bindPairs]
  | cons n ns ih =>
    cases vs with
    | nil => simp [bindEnv, bindPairs]
    | cons v vs => simp [bindEnv, bindPairs, ih]

theorem zip_fst_snd {α β : Type} (l : List (α × β)) : (l.map Prod.fst).zip (l.map Prod.snd) = l :=
  (List.zip_of_prod rfl rfl).symm

/-- the environment built from named arguments does not depend on their order -/
theorem bindPairs_perm {l₁ l₂ : List (String × Val K)} (hp : l₁.Perm l₂)
    (hn : (l₁.map Prod.fst).Nodup) (d : Env K) : bindPairs l₁ d = bindPairs l₂ d := by
  induction hp with
  | nil => rfl
  | cons p _ ih =>
    simp only [bindPairs]
    rw [ih (by simpa using (List.nodup_cons.mp (by simpa using hn)).2)]
  | swap p q l =>
    simp only [bindPairs]
    apply bind1_comm
    intro h
    simp only [List.map_cons, List.nodup_cons, List.mem_cons] at hn
    exact hn.1 (Or.inl h)
  | trans h1 _ ih1 ih2 =>
    rw [ih1 hn, ih2 ((h1.map Prod.fst).nodup_iff.mp hn)]

/-- the order of the signature is irrelevant as long as arguments are passed in the same
order as the names: any joint permutation of (names, arguments) gives the same value -/
theorem signature_order_irrelevant_for_named_env (T : FunTab K) (e : Expr)
    {l₁ l₂ : List (String × Val K)} (hp : l₁.Perm l₂) (hn : (l₁.map Prod.fst).Nodup)
    (d : Env K) :
    eval T (bindEnv (l₁.map Prod.fst) (l₁.map Prod.snd) d) e =
      eval T (bindEnv (l₂.map Prod.fst) (l₂.map Prod.snd) d) e := by
  rw [bindEnv_eq_bindPairs, bindEnv_eq_bindPairs, zip_fst_snd, zip_fst_snd,
    bindPairs_perm hp hn]

theorem bindEnv_append (ns ms : List String) (vs ws : List (Val K)) (d : Env K)
    (h : ns.length = vs.length) :
    bindEnv (ns ++ ms) (vs ++ ws) d = bindEnv ns vs (bindEnv ms ws d) := by
  induction ns generalizing vs with
  | nil =>
    cases vs with
    | nil => simp [bindEnv]
    | cons v vs => simp at h
  | cons n ns ih =>
    cases vs with
    | nil => simp at h
    | cons v vs =>
      simp only [List.cons_append, bindEnv]
      rw [ih vs (by simpa using h)]

/-- the generated function with constants is the partial application of the function over
`vars ++ constants` to the constants' values: the constants form an inner environment that the
arguments are bound on top of (provided the number of arguments matches the signature) -/
theorem consts_as_partial_application (T : FunTab K) (sig : List (List String))
    (consts : List (String × Val K)) (args : List (Val K)) (e : Expr)
    (h : args.length = sig.length) :
    eval T (callEnv sig consts args) e =
      eval T (bindEnv (sigVars sig) args
        (bindEnv (consts.map Prod.fst) (consts.map Prod.snd) defaultEnv)) e := by
  unfold callEnv
  rw [bindEnv_append _ _ _ _ _ (by simp [sigVars, h])]

/-- the constants may be listed in any order (distinct names) -/
theorem consts_order_irrelevant (T : FunTab K) (sig : List (List String))
    {c₁ c₂ : List (String × Val K)} (args : List (Val K)) (e : Expr)
    (h : args.length = sig.length) (hp : c₁.Perm c₂) (hn : (c₁.map Prod.fst).Nodup) :
    eval T (callEnv sig c₁ args) e = eval T (callEnv sig c₂ args) e := by
  rw [consts_as_partial_application T sig c₁ args e h,
    consts_as_partial_application T sig c₂ args e h,
    bindEnv_eq_bindPairs (c₁.map Prod.fst), bindEnv_eq_bindPairs (c₂.map Prod.fst),
    zip_fst_snd, zip_fst_snd, bindPairs_perm hp hn]

/-- meaning of an accepted call: the written formula, evaluated where every written name
denotes the argument (or constant) bound to its definite name -/
theorem exprFunction_spec (T : FunTab K) (sig : List (List String))
    (consts : List (String × Val K)) (repl : List (String × String)) (e : Expr)
    (args : List (Val K)) (v : K) (h : exprFunction T sig consts repl e args = some v) :
    v = eval T ((callEnv sig consts args).comap (fun s => sigFn sig (replFn repl s))) e := by
  unfold exprFunction at h
  split_ifs at h
  rw [← prepare_sound]
  exact (Option.some.inj h).symm

/-- `single_arg=True` is the same function on the unpacked array -/
theorem single_arg_eq (T : FunTab K) (sig : List (List String))
    (consts : List (String × Val K)) (repl : List (String × String)) (e : Expr) (arr : List K) :
    exprFunctionSingle T sig consts repl e arr =
      exprFunction T sig consts repl e (arr.map Val.sc) := rfl

/-! ### heaviside and comparisons -/

theorem heaviside_neg {x : K} (h : K) (hx : x < 0) : heaviside x h = 0 := by
  simp [heaviside, hx]

theorem heaviside_pos {x : K} (h : K) (hx : 0 < x) : heaviside x h = 1 := by
  simp [heaviside, hx, not_lt.mpr hx.le]

theorem heaviside_zero (h : K) : heaviside (0 : K) h = h := by
  simp [heaviside]

/-- `heaviside(x)` is `heaviside(x, 1/2)`; the second argument is the value exactly at 0 -/
theorem heaviside_semantics (T : FunTab K) (hT : T.heav = heaviside) (env : Env K) (a h : Expr) :
    eval T env (.heav1 a) = eval T env (.heav2 a (.num (1/2))) ∧
    (eval T env a < 0 → eval T env (.heav2 a h) = 0) ∧
    (0 < eval T env a → eval T env (.heav2 a h) = 1) ∧
    (eval T env a = 0 → eval T env (.heav2 a h) = eval T env h) ∧
    (eval T env a = 0 → eval T env (.heav1 a) = 1 / 2) := by
  refine ⟨by simp [eval], fun hx => by simp [eval, hT, heaviside_neg _ hx],
    fun hx => by simp [eval, hT, heaviside_pos _ hx],
    fun hx => by simp [eval, hT, hx, heaviside_zero],
    fun hx => by simp [eval, hT, hx, heaviside_zero]⟩

/-- `(a > b)` and `heaviside(a - b, h)` agree away from the jump (the two spellings the
documentation offers for a step profile) -/
theorem cmp_gt_eq_heaviside (a b h : K) (hne : a ≠ b) :
    cmpVal .gt a b = heaviside (a - b) h := by
  rcases lt_or_gt_of_ne hne with hlt | hgt
  · have : a - b < 0 := by linarith
    simp [cmpVal, heaviside_neg _ this, not_lt.mpr hlt.le]
  · have : 0 < a - b := by linarith
    simp [cmpVal, heaviside_pos _ this, hgt]

/-- a comparison evaluates to 1 or 0 and the four operators are related as expected -/
theorem cmp_semantics (a b : K) :
    (cmpVal .lt a b = if a < b then 1 else 0) ∧ (cmpVal .gt a b = cmpVal .lt b a) ∧
    (cmpVal .le a b = 1 - cmpVal .gt a b) ∧ (cmpVal .ge a b = 1 - cmpVal .lt a b) := by
  refine ⟨by simp [cmpVal], by simp [cmpVal], ?_, ?_⟩
  · by_cases h : a ≤ b <;> simp [cmpVal, h, not_lt.mpr, lt_of_not_ge]
  · by_cases h : b ≤ a <;> simp [cmpVal, h, not_lt.mpr, lt_of_not_ge]

/-! ### arrays -/

/-- evaluating an array expression gives the array of the components' values -/
theorem tensor_eval_componentwise (T : FunTab K) (env : Env K) (m : List (List Expr))
    (l : List Expr) (i j : Nat) :
    (evalVec T env l)[i]? = (l[i]?).map (eval T env) ∧
    (evalVec T env l).length = l.length ∧
    ((evalMat T env m)[i]?.bind (·[j]?)) = ((m[i]?).bind (·[j]?)).map (eval T env) ∧
    (evalMat T env m).length = m.length := by
  refine ⟨by simp [evalVec], by simp [evalVec], ?_, by simp [evalMat]⟩
  simp only [evalMat, List.getElem?_map]
  cases m[i]? <;> simp [evalVec]

/-- array arguments are processed elementwise -/
theorem eval_elementwise (T : FunTab K) (e : Expr) (envs : List (Env K)) (i : Nat) :
    (evalPoints T e envs)[i]? = (envs[i]?).map (fun env => eval T env e) := by
  simp [evalPoints]


/-- array arguments: the same evaluator run on whole arrays (the number type of fields with
pointwise arithmetic and a pointwise table) computes, at every position, the value of the
formula at that position's arguments - numpy's elementwise semantics -/
theorem eval_pointwise {ι : Type} (T : FunTab K) (envs : ι → Env K) (e : Expr) (i : ι) :
    (eval (liftTab T) (liftEnv envs) e).val i = eval T (envs i) e := by
  induction e with
  | num q => simp [eval]
  | var x => simp [eval, liftEnv]
  | idx x k => simp [eval, liftEnv]
  | named c => simp [eval]
  | neg a iha => simp [eval, iha]
  | add a b iha ihb => simp [eval, iha, ihb]
  | sub a b iha ihb => simp [eval, iha, ihb]
  | mul a b iha ihb => simp [eval, iha, ihb]
  | div a b iha ihb => simp [eval, iha, ihb]
  | powI a n iha => simp [eval, iha]
  | call1 f a iha => simp [eval, iha]
  | call2 f a b iha ihb => simp [eval, iha, ihb]
  | heav1 a iha => simp [eval, iha]
  | heav2 a h iha ihh => simp [eval, iha, ihh]
  | cmp op a b iha ihb => simp [eval, iha, ihb]

/-- component `i` of `derivatives` is the derivative with respect to the `i`-th variable -/
theorem gradient_componentwise (vars : List String) (e : Expr) (i : Nat) :
    (gradient vars e)[i]? = (vars[i]?).map (fun x => diff x e) := by
  simp [gradient]

end field

/-! ### non-vacuity of the calling-convention theorems (concrete calls over ℚ) -/

/-- `a*q**2` with signature `[["x","q"]]`, constant `a = 2`, argument 3: the synonym `q` is honoured -/
example : exprFunction (algTab : FunTab ℚ) [["x", "q"]] [("a", Val.sc 2)] []
    (.mul (.var "a") (.powI (.var "q") 2)) [Val.sc 3] = some 18 := by decide +kernel

/-- both the definite name and its synonym in one expression are rejected -/
example : exprFunction (algTab : FunTab ℚ) [["x", "q"]] [] []
    (.add (.var "x") (.var "q")) [Val.sc 3] = none := by decide +kernel

/-- `radius**2 + radius2` on a polar grid: the alias `radius` is replaced, the constant whose
name merely contains it is not -/
example : exprFunction (algTab : FunTab ℚ) [["r"]] [("radius2", Val.sc 10)] [("radius", "r")]
    (.add (.powI (.var "radius") 2) (.var "radius2")) [Val.sc 3] = some 19 := by decide +kernel

/-- heaviside at the jump: 1/2 and the explicit value -/
example : eval (algTab : FunTab ℚ) defaultEnv (.add (.heav1 (.num 0)) (.heav2 (.num 0) (.num (1/4)))) = 3/4 := by
  decide +kernel


/-! ### soundness of the symbolic derivative (over the reals) -/

/-- the primitives over the reals.  `erf`, `atanh`, `atan2` have no Mathlib counterpart that is
needed here: they are left uninterpreted (constant 0) - no theorem below mentions them, and
`DiffOK` admits none of them. -/
noncomputable def realPrims : Prims ℝ where
  pi := Real.pi
  e := Real.exp 1
  sin := Real.sin
  cos := Real.cos
  tan := Real.tan
  exp := Real.exp
  log := Real.log
  sqrt := Real.sqrt
  tanh := Real.tanh
  sinh := Real.sinh
  cosh := Real.cosh
  atan := Real.arctan
  asin := Real.arcsin
  acos := Real.arccos
  asinh := fun x => Real.log (x + Real.sqrt (1 + x ^ 2))
  atanh := fun _ => 0
  floor := fun x => (Int.floor x : ℝ)
  ceil := fun x => (Int.ceil x : ℝ)
  erf := fun _ => 0
  pow := fun x y => x ^ y
  atan2 := fun _ _ => 0

/-- function table over the reals: the SAME name dispatch (`primTab`) that the driver runs at
`Float` with libm's primitives (`Drv.C11.floatTab = primTab floatPrims`) -/
noncomputable def realTab : FunTab ℝ := primTab realPrims

/-- the name dispatch of `primTab`, for EVERY number type and every set of primitives - in
particular for the driver's `Float` table with libm's functions and for `realTab`: each name of
the grammar denotes the primitive of the same name, `hypot` is `sqrt(x*x + y*y)`, the step
function and the comparisons are the order-based ones -/
theorem primTab_names {K : Type} [Add K] [Sub K] [Mul K] [Div K] [Neg K] [NatCast K] [IntCast K]
    [LT K] [DecidableLT K] [LE K] [DecidableLE K] (P : Prims K) :
    (primTab P).f1 "sin" = P.sin ∧ (primTab P).f1 "cos" = P.cos ∧ (primTab P).f1 "tan" = P.tan ∧
    (primTab P).f1 "exp" = P.exp ∧ (primTab P).f1 "log" = P.log ∧ (primTab P).f1 "sqrt" = P.sqrt ∧
    (primTab P).f1 "tanh" = P.tanh ∧ (primTab P).f1 "sinh" = P.sinh ∧
    (primTab P).f1 "cosh" = P.cosh ∧ (primTab P).f1 "atan" = P.atan ∧
    (primTab P).f1 "asin" = P.asin ∧ (primTab P).f1 "acos" = P.acos ∧
    (primTab P).f1 "asinh" = P.asinh ∧ (primTab P).f1 "atanh" = P.atanh ∧
    (primTab P).f1 "floor" = P.floor ∧ (primTab P).f1 "ceiling" = P.ceil ∧
    (primTab P).f1 "erf" = P.erf ∧
    (primTab P).f2 "pow" = P.pow ∧ (primTab P).f2 "atan2" = P.atan2 ∧
    (∀ x y, (primTab P).f2 "hypot" x y = P.sqrt (x * x + y * y)) ∧
    (primTab P).f0 "pi" = P.pi ∧ (primTab P).f0 "E" = P.e ∧
    (primTab P).heav = heaviside ∧ (primTab P).cmp = cmpVal := by
  refine ⟨?_, ?_, ?_, ?_, ?_, ?_, ?_, ?_, ?_, ?_, ?_, ?_, ?_, ?_, ?_, ?_, ?_, ?_, ?_, ?_, ?_, ?_,
    rfl, rfl⟩ <;> first | (funext x; simp [primTab]) | (funext x y; simp [primTab]) | simp [primTab]

/-- names the table does not know keep the meaning of `algTab` (abs, sign, Max, Min) -/
theorem primTab_alg {K : Type} [Add K] [Sub K] [Mul K] [Div K] [Neg K] [NatCast K] [IntCast K]
    [LT K] [DecidableLT K] [LE K] [DecidableLE K] (P : Prims K) (x y : K) :
    (primTab P).f1 "abs" x = (algTab : FunTab K).f1 "abs" x ∧
    (primTab P).f1 "sign" x = (algTab : FunTab K).f1 "sign" x ∧
    (primTab P).f2 "Max" x y = (algTab : FunTab K).f2 "Max" x y ∧
    (primTab P).f2 "Min" x y = (algTab : FunTab K).f2 "Min" x y := by
  refine ⟨?_, ?_, ?_, ?_⟩ <;> simp [primTab]

@[simp] theorem realTab_sin : realTab.f1 "sin" = Real.sin := by funext x; simp [realTab, primTab, realPrims]
@[simp] theorem realTab_cos : realTab.f1 "cos" = Real.cos := by funext x; simp [realTab, primTab, realPrims]
@[simp] theorem realTab_exp : realTab.f1 "exp" = Real.exp := by funext x; simp [realTab, primTab, realPrims]
@[simp] theorem realTab_log : realTab.f1 "log" = Real.log := by funext x; simp [realTab, primTab, realPrims]
@[simp] theorem realTab_sqrt : realTab.f1 "sqrt" = Real.sqrt := by funext x; simp [realTab, primTab, realPrims]
@[simp] theorem realTab_tanh : realTab.f1 "tanh" = Real.tanh := by funext x; simp [realTab, primTab, realPrims]
@[simp] theorem realTab_tan : realTab.f1 "tan" = Real.tan := by funext x; simp [realTab, primTab, realPrims]
@[simp] theorem realTab_sinh : realTab.f1 "sinh" = Real.sinh := by funext x; simp [realTab, primTab, realPrims]
@[simp] theorem realTab_cosh : realTab.f1 "cosh" = Real.cosh := by funext x; simp [realTab, primTab, realPrims]
@[simp] theorem realTab_atan : realTab.f1 "atan" = Real.arctan := by funext x; simp [realTab, primTab, realPrims]
@[simp] theorem realTab_pow (x y : ℝ) : realTab.f2 "pow" x y = x ^ y := by simp [realTab, primTab, realPrims]

theorem hasDerivAt_tanh (x : ℝ) : HasDerivAt Real.tanh (1 - Real.tanh x ^ 2) x := by
  have hc : Real.cosh x ≠ 0 := (Real.cosh_pos x).ne'
  have h := (Real.hasDerivAt_sinh x).div (Real.hasDerivAt_cosh x) hc
  have e : (fun y => Real.sinh y / Real.cosh y) = Real.tanh := by
    funext y; rw [Real.tanh_eq_sinh_div_cosh]
  have e' : (Real.sinh / Real.cosh) = Real.tanh := e
  rw [e'] at h
  have hv : 1 - Real.tanh x ^ 2 =
      (Real.cosh x * Real.cosh x - Real.sinh x * Real.sinh x) / Real.cosh x ^ 2 := by
    rw [Real.tanh_eq_sinh_div_cosh]; field_simp
  rw [hv]; exact h

/-- side condition of a unary function at the value `v` of its argument -/
def Side1 (f : String) (v : ℝ) : Prop :=
  (f = "log" → 0 < v) ∧ (f = "sqrt" → 0 < v) ∧ (f = "tan" → Real.cos v ≠ 0)

/-- the differentiable fragment with its side conditions at the point `env` -/
def DiffOK (env : Env ℝ) : Expr → Prop
  | .num _ => True
  | .var _ => True
  | .idx _ _ => True
  | .named _ => True
  | .neg a => DiffOK env a
  | .add a b => DiffOK env a ∧ DiffOK env b
  | .sub a b => DiffOK env a ∧ DiffOK env b
  | .mul a b => DiffOK env a ∧ DiffOK env b
  | .div a b => DiffOK env a ∧ DiffOK env b ∧ eval realTab env b ≠ 0
  | .powI a n => DiffOK env a ∧ (eval realTab env a ≠ 0 ∨ 0 ≤ n)
  | .call1 f a => DiffOK env a ∧ diffFun1 f = true ∧ Side1 f (eval realTab env a)
  | .call2 f a b => f = "pow" ∧ DiffOK env a ∧ DiffOK env b ∧ 0 < eval realTab env a
  | .heav1 _ => False
  | .heav2 _ _ => False
  | .cmp _ _ _ => False

@[simp] theorem Env.set_self (env : Env ℝ) (x : String) : env.set x (env.sc x) = env := by
  apply Env.ext'
  · funext y; by_cases h : y = x <;> simp [Env.set, h]
  · rfl

theorem hasDerivAt_fun1 (f : String) (env : Env ℝ) (a : Expr) (hf : diffFun1 f = true)
    (hs : Side1 f (eval realTab env a)) :
    HasDerivAt (realTab.f1 f) (eval realTab env (dfun1 f a)) (eval realTab env a) := by
  generalize hv : eval realTab env a = v at hs
  simp only [diffFun1, Bool.or_eq_true, decide_eq_true_eq] at hf
  obtain ⟨hlog, hsqrt, htan⟩ := hs
  rcases hf with ((((((((h | h) | h) | h) | h) | h) | h) | h) | h) | h <;> subst h
  · simpa [dfun1, eval, hv] using Real.hasDerivAt_sin v
  · simpa [dfun1, eval, hv] using Real.hasDerivAt_cos v
  · simpa [dfun1, eval, hv] using Real.hasDerivAt_exp v
  · simpa [dfun1, eval, hv] using Real.hasDerivAt_log (hlog rfl).ne'
  · simpa [dfun1, eval, hv] using Real.hasDerivAt_sqrt (hsqrt rfl).ne'
  · simpa [dfun1, eval, hv] using hasDerivAt_tanh v
  · have hc : Real.cos v ≠ 0 := htan rfl
    have hid : (1 : ℝ) + Real.tan v ^ 2 = 1 / Real.cos v ^ 2 := by
      rw [Real.tan_eq_sin_div_cos]; field_simp; linarith [Real.sin_sq_add_cos_sq v]
    have h2 := Real.hasDerivAt_tan hc
    rw [← hid] at h2
    have h3 : eval realTab env (dfun1 "tan" a) = 1 + Real.tan v ^ 2 := by
      simp [dfun1, eval, hv]
    rw [h3, realTab_tan]
    exact h2
  · simpa [dfun1, eval, hv] using Real.hasDerivAt_sinh v
  · simpa [dfun1, eval, hv] using Real.hasDerivAt_cosh v
  · simpa [dfun1, eval, hv] using Real.hasDerivAt_arctan v


theorem diff_sound (x : String) (env : Env ℝ) (e : Expr) (hw : DiffOK env e) :
    HasDerivAt (fun v => eval realTab (env.set x v) e) (eval realTab env (diff x e))
      (env.sc x) := by
  induction e with
  | num q => simpa [eval, diff] using hasDerivAt_const (env.sc x) (q : ℝ)
  | var y =>
    by_cases h : y = x
    · subst h
      simpa [eval, diff, Env.set] using hasDerivAt_id' (env.sc y)
    · simpa [eval, diff, Env.set, h] using hasDerivAt_const (env.sc x) (env.sc y)
  | idx y i => simpa [eval, diff, Env.set] using hasDerivAt_const (env.sc x) (env.ix y i)
  | named c => simpa [eval, diff] using hasDerivAt_const (env.sc x) (realTab.f0 c)
  | neg a iha =>
    simp only [eval, diff]
    exact (iha hw).neg
  | add a b iha ihb =>
    simp only [eval, diff]
    exact (iha hw.1).add (ihb hw.2)
  | sub a b iha ihb =>
    simp only [eval, diff]
    exact (iha hw.1).sub (ihb hw.2)
  | mul a b iha ihb =>
    simp only [eval, diff]
    have := (iha hw.1).mul (ihb hw.2)
    simp only [Env.set_self] at this
    exact this
  | div a b iha ihb =>
    simp only [eval, diff, powInt_eq, zpow_ofNat]
    have hb : eval realTab (env.set x (env.sc x)) b ≠ 0 := by simpa using hw.2.2
    have := (iha hw.1).div (ihb hw.2.1) hb
    simp only [Env.set_self] at this
    exact this
  | powI a n iha =>
    simp only [eval, diff, powInt_eq]
    have h0 : eval realTab (env.set x (env.sc x)) a ≠ 0 ∨ 0 ≤ n := by simpa using hw.2
    have := (hasDerivAt_zpow n _ h0).comp (env.sc x) (iha hw.1)
    simpa [Function.comp_def] using this
  | call1 f a iha =>
    simp only [eval, diff]
    obtain ⟨ha, hf, hs⟩ := hw
    have h1 := hasDerivAt_fun1 f env a hf hs
    have h2 := iha ha
    rw [← Env.set_self env x] at h1
    have := h1.comp (env.sc x) h2
    simp only [Env.set_self] at this
    exact this
  | call2 f a b iha ihb =>
    obtain ⟨hf, ha, hb, hpos⟩ := hw
    subst hf
    simp only [eval, diff, if_true]
    have hp : 0 < eval realTab (env.set x (env.sc x)) a := by simpa using hpos
    have := (iha ha).rpow (ihb hb) hp
    simp only [Env.set_self] at this
    have hne : eval realTab env a ≠ 0 := hpos.ne'
    have e : eval realTab env (diff x a) * eval realTab env b *
          eval realTab env a ^ (eval realTab env b - 1) +
        eval realTab env (diff x b) * eval realTab env a ^ eval realTab env b *
          Real.log (eval realTab env a) =
        realTab.f2 "pow" (eval realTab env a) (eval realTab env b) *
          (eval realTab env (diff x b) * realTab.f1 "log" (eval realTab env a) +
            eval realTab env b * eval realTab env (diff x a) / eval realTab env a) := by
      rw [Real.rpow_sub_one hne, realTab_pow, realTab_log]
      field_simp
      ring
    rw [e] at this
    exact this
  | heav1 a => exact absurd hw (by simp [DiffOK])
  | heav2 a h => exact absurd hw (by simp [DiffOK])
  | cmp op a b => exact absurd hw (by simp [DiffOK])


/-- the same statement with `deriv` -/
theorem diff_sound_deriv (x : String) (env : Env ℝ) (e : Expr) (hw : DiffOK env e) :
    deriv (fun v => eval realTab (env.set x v) e) (env.sc x) = eval realTab env (diff x e) :=
  (diff_sound x env e hw).deriv

/-- every component of `derivatives` is the partial derivative with respect to its variable -/
theorem gradient_sound (vars : List String) (env : Env ℝ) (e : Expr) (hw : DiffOK env e)
    (i : Nat) (x : String) (hx : vars[i]? = some x) :
    ∃ d, (gradient vars e)[i]? = some d ∧
      HasDerivAt (fun v => eval realTab (env.set x v) e) (eval realTab env d) (env.sc x) := by
  refine ⟨diff x e, by simp [gradient, hx], diff_sound x env e hw⟩

/-! ### non-vacuity: the hypotheses are satisfiable by concrete, non-trivial data -/

/-- `x**2*sin(y)/z` at (x, y, z) = (3, 1, 2) satisfies the side conditions -/
example : DiffOK (bindEnv ["x", "y", "z"] [Val.sc 3, Val.sc 1, Val.sc 2] defaultEnv)
    (.div (.mul (.powI (.var "x") 2) (.call1 "sin" (.var "y"))) (.var "z")) := by
  simp [DiffOK, diffFun1, Side1, eval, bindEnv, Env.bind1, Val.toSc]

/-- `log(x) + sqrt(x) + x**-2` at x = 4 satisfies the side conditions -/
example : DiffOK (bindEnv ["x"] [Val.sc 4] defaultEnv)
    (.add (.add (.call1 "log" (.var "x")) (.call1 "sqrt" (.var "x"))) (.powI (.var "x") (-2))) := by
  simp [DiffOK, diffFun1, Side1, eval, bindEnv, Env.bind1, Val.toSc]

/-- d/dx x^3 at x = 2 is 12 -/
example : HasDerivAt
    (fun v => eval realTab ((bindEnv ["x"] [Val.sc 2] defaultEnv).set "x" v) (.powI (.var "x") 3))
    12 2 := by
  have h := diff_sound "x" (bindEnv ["x"] [Val.sc 2] defaultEnv) (.powI (.var "x") 3)
    (by simp [DiffOK])
  have e : eval realTab (bindEnv ["x"] [Val.sc 2] defaultEnv) (diff "x" (.powI (.var "x") 3)) = 12 := by
    simp [diff, eval, bindEnv, Env.bind1, Val.toSc]; norm_num
  rw [e] at h
  simpa [bindEnv, Env.bind1, Val.toSc] using h

/-! ### what `_check_signature` guarantees -/

theorem mem_eraseDups_of_mem : ∀ (n : Nat) (l : List String) (s : String), l.length ≤ n → s ∈ l → s ∈ l.eraseDups := by
  intro n
  induction n with
  | zero =>
    intro l s hl hs
    have : l = [] := List.length_eq_zero_iff.mp (Nat.le_zero.mp hl)
    subst this; simp at hs
  | succ n ih =>
    intro l s hl hs
    cases l with
    | nil => simp at hs
    | cons a as =>
      rw [List.eraseDups_cons]
      by_cases h : s = a
      · subst h; simp
      · have hs' : s ∈ as := by
          rcases List.mem_cons.mp hs with h1 | h1
          · exact absurd h1 h
          · exact h1
        apply List.mem_cons_of_mem
        apply ih
        · have := List.length_filter_le (fun b => !b == a) as
          simp only [List.length_cons] at hl
          omega
        · simp [List.mem_filter, hs', h]

theorem symbols_rename (ρ : String → String) (e : Expr) :
    symbols (rename ρ e) = (symbols e).map ρ := by
  induction e with
  | _ => simp_all [symbols, rename]

/-- the definite name of a symbol that some signature entry lists is a variable of the signature -/
theorem sigFn_mem_sigVars (sig : List (List String)) (s : String)
    (h : sig.any (fun l => l.contains s) = true) : sigFn sig s ∈ sigVars sig := by
  unfold sigFn sigVars
  induction sig with
  | nil => simp at h
  | cons l ls ih =>
    by_cases hl : l.contains s = true
    · simp only [List.find?_cons, hl]
      cases l with
      | nil => simp at hl
      | cons a t => simp
    · have hl' : l.contains s = false := by simpa using hl
      simp only [List.find?_cons, hl']
      have h' : ls.any (fun l => l.contains s) = true := by
        rw [List.any_cons, hl', Bool.false_or] at h
        exact h
      have := ih h'
      simp only [List.map_cons, List.mem_cons]
      exact Or.inr this

/-- a symbol that no signature entry lists is left alone by the synonym renaming -/
theorem sigFn_of_not_listed (sig : List (List String)) (s : String)
    (h : sig.any (fun l => l.contains s) = false) : sigFn sig s = s := by
  unfold sigFn
  have : sig.find? (fun l => l.contains s) = none := by
    rw [List.find?_eq_none]
    intro l hl
    have := List.any_eq_false.mp h l hl
    simpa using this
  rw [this]

/-- **checkSignature_sound**: if `_check_signature` accepts the expression then every symbol of
the prepared expression (after alias replacement and synonym renaming) is a variable of the
signature or a constant - nothing is left for the default environment -/
theorem checkSignature_sound (sig : List (List String)) (cnames : List String)
    (repl : List (String × String)) (e : Expr)
    (h : checkSignature sig cnames repl e = true) :
    ∀ s ∈ symbols (prepare sig repl e), s ∈ sigVars sig ∨ s ∈ cnames := by
  intro s hs
  unfold prepare at hs
  rw [symbols_rename] at hs
  obtain ⟨s', hs', rfl⟩ := List.mem_map.mp hs
  unfold checkSignature at h
  simp only [Bool.and_eq_true] at h
  have hall := List.all_eq_true.mp h.1 s'
    (mem_eraseDups_of_mem _ _ s' (Nat.le_refl _) hs')
  by_cases hl : sig.any (fun l => l.contains s') = true
  · exact Or.inl (sigFn_mem_sigVars sig s' hl)
  · have hl' : sig.any (fun l => l.contains s') = false := by simpa using hl
    rw [sigFn_of_not_listed sig s' hl']
    right
    simp only [Bool.or_eq_true, hl', Bool.false_eq_true, or_false] at hall
    simpa using hall


section field
variable {K : Type} [Field K] [LinearOrder K] [IsStrictOrderedRing K]

/-- a bound name is read from the binding, not from the environment underneath -/
theorem bindEnv_of_mem (ns : List String) (vs : List (Val K)) (d d' : Env K) (s : String)
    (hlen : ns.length ≤ vs.length) (hs : s ∈ ns) :
    (bindEnv ns vs d).sc s = (bindEnv ns vs d').sc s ∧
      (bindEnv ns vs d).ix s = (bindEnv ns vs d').ix s := by
  induction ns generalizing vs with
  | nil => simp at hs
  | cons n ns ih =>
    cases vs with
    | nil => simp at hlen
    | cons v vs =>
      simp only [bindEnv, Env.bind1]
      by_cases h : s = n
      · simp [h]
      · have hs' : s ∈ ns := by
          rcases List.mem_cons.mp hs with h1 | h1
          · exact absurd h1 h
          · exact h1
        have := ih vs (by simpa using hlen) hs'
        simp [h, this.1, this.2]

/-- **exprFunction_closed**: the value of an accepted call is determined by the arguments and
the constants alone - whatever environment lies underneath the bindings (no symbol of the
formula is left unbound: `checkSignature_sound`) -/
theorem exprFunction_closed (T : FunTab K) (sig : List (List String))
    (consts : List (String × Val K)) (repl : List (String × String)) (e : Expr)
    (args : List (Val K)) (v : K) (h : exprFunction T sig consts repl e args = some v)
    (d : Env K) :
    v = eval T (bindEnv (sigVars sig ++ consts.map Prod.fst) (args ++ consts.map Prod.snd) d)
      (prepare sig repl e) := by
  unfold exprFunction at h
  split_ifs at h with hc
  simp only [Bool.and_eq_true, beq_iff_eq] at hc
  have hv := (Option.some.inj h).symm
  rw [hv]
  unfold callEnv
  apply eval_congr_env
  intro s hs
  have hmem := checkSignature_sound sig (consts.map Prod.fst) repl e hc.1 s hs
  apply bindEnv_of_mem
  · simp [sigVars, hc.2]
  · simpa [List.mem_append] using hmem

/-! ### user functions, indexed symbols, the definedness guard -/

/-- a call of a user function evaluates its body with the parameter bound to the VALUE of the
argument in a fresh environment (call by value; the caller's variables are not visible) -/
theorem withUser_call1 (T : FunTab K) (defs : List UDef) (d : UDef) (f : String) (env : Env K)
    (a : Expr) (h : defs.find? (fun d => d.name = f && d.params.length == 1) = some d) :
    eval (withUser T defs) env (.call1 f a) =
      eval T (bindEnv d.params [Val.sc (eval (withUser T defs) env a)] defaultEnv) d.body := by
  simp [eval, withUser, h]

theorem withUser_call2 (T : FunTab K) (defs : List UDef) (d : UDef) (f : String) (env : Env K)
    (a b : Expr) (h : defs.find? (fun d => d.name = f && d.params.length == 2) = some d) :
    eval (withUser T defs) env (.call2 f a b) =
      eval T (bindEnv d.params [Val.sc (eval (withUser T defs) env a),
        Val.sc (eval (withUser T defs) env b)] defaultEnv) d.body := by
  simp [eval, withUser, h]

/-- names without a user definition keep the meaning of the base table -/
theorem withUser_base (T : FunTab K) (defs : List UDef) (f : String) (env : Env K) (a : Expr)
    (h : defs.find? (fun d => d.name = f && d.params.length == 1) = none) :
    eval (withUser T defs) env (.call1 f a) = T.f1 f (eval (withUser T defs) env a) := by
  simp [eval, withUser, h]

/-- the value of a user-function call depends on the caller's environment only through the value
of the argument -/
theorem withUser_call1_congr (T : FunTab K) (defs : List UDef) (f : String) (env env' : Env K)
    (a a' : Expr) (h : eval (withUser T defs) env a = eval (withUser T defs) env' a') :
    eval (withUser T defs) env (.call1 f a) = eval (withUser T defs) env' (.call1 f a') := by
  simp [eval, h]

/-- an indexed symbol bound to an array reads the array (0 beyond its end, as the model's total
reading; py-pde raises IndexError there) -/
theorem eval_idx_bound (T : FunTab K) (n : String) (l : List K) (d : Env K) (i : Nat) :
    eval T (Env.bind1 n (Val.vec l) d) (.idx n i) = l.getD i 0 := by
  simp [eval, Env.bind1, Val.at]

theorem eval_idx_other (T : FunTab K) (n m : String) (v : Val K) (d : Env K) (i : Nat)
    (h : m ≠ n) : eval T (Env.bind1 n v d) (.idx m i) = eval T d (.idx m i) := by
  simp [eval, Env.bind1, h]

/-- what the driver's guard `defined` certifies at an exact number type: below a `defined` node
no division has a vanishing denominator and no negative power a vanishing base -/
theorem defined_div (T : FunTab K) (env : Env K) (a b : Expr)
    (h : defined T env (.div a b) = true) :
    defined T env a = true ∧ defined T env b = true ∧ eval T env b ≠ 0 := by
  simpa [defined, and_assoc] using h

theorem defined_powI (T : FunTab K) (env : Env K) (a : Expr) (n : Int)
    (h : defined T env (.powI a n) = true) :
    defined T env a = true ∧ (0 ≤ n ∨ eval T env a ≠ 0) := by
  simpa [defined] using h

end field

/-- non-vacuity: `f(x) + arr[1]` with the user function `f(v) = v**2 + 1`, `x = 3`, `arr = [5, 7]` -/
example : eval (withUser (algTab : FunTab ℚ) [⟨"f", ["v"], .add (.powI (.var "v") 2) (.num 1)⟩])
    (bindEnv ["x", "arr"] [Val.sc 3, Val.vec [5, 7]] defaultEnv)
    (.add (.call1 "f" (.var "x")) (.idx "arr" 1)) = 17 := by decide +kernel

/-- `checkSignature` accepts `a*q**2` for the signature `[["x","q"]]` with the constant `a`, and all
symbols of the prepared expression are then `x` or `a` -/
example : checkSignature [["x", "q"]] ["a"] [] (.mul (.var "a") (.powI (.var "q") 2)) = true ∧
    symbols (prepare [["x", "q"]] [] (.mul (.var "a") (.powI (.var "q") 2))) = ["a", "x"] := by
  decide +kernel


/-! ## arrays of expressions: indexing (`TensorExpression.__getitem__`), Piecewise, `depends_on` -/

section index
variable {α β : Type}

theorem sliceList_map (f : α → β) (l : List α) (a b : Option Int) :
    sliceList (l.map f) a b = (sliceList l a b).map f := by
  simp [sliceList, List.map_drop, List.map_take]

theorem itemList_map (f : α → β) (l : List α) (i : Int) :
    itemList (l.map f) i = (itemList l i).map f := by
  unfold itemList
  simp only [List.length_map]
  cases normIdx l.length i <;> simp

theorem optMapList_map {γ : Type} (f : α → β) (g : β → Option γ) (l : List α) :
    optMapList g (l.map f) = optMapList (fun a => g (f a)) l := by
  induction l with
  | nil => rfl
  | cons a as ih => simp [optMapList, ih]

theorem optMapList_map_out {γ : Type} (g : α → Option β) (f : β → γ) (l : List α) :
    optMapList (fun a => (g a).map f) l = (optMapList g l).map (List.map f) := by
  induction l with
  | nil => rfl
  | cons a as ih =>
    simp only [optMapList, ih]
    cases g a <;> cases optMapList g as <;> simp

/-- indexing commutes with every componentwise map -/
theorem getItem_map (f : α → β) (t : Ten α) (ix : List Ix) :
    getItem (t.map f) ix = (getItem t ix).map (Ten.map f) := by
  cases t with
  | sc a => cases ix <;> simp [getItem, Ten.map]
  | vec l =>
    match ix with
    | [] => simp [getItem, Ten.map]
    | [.at i] =>
      simp only [getItem, Ten.map, itemList_map]
      cases itemList l i <;> simp [Ten.map]
    | [.slice a b] => simp [getItem, Ten.map, sliceList_map]
    | _ :: _ :: _ => simp [getItem, Ten.map]
  | mat m =>
    match ix with
    | [] => simp [getItem, Ten.map]
    | [.at i] =>
      simp only [getItem, Ten.map, itemList_map]
      cases itemList m i <;> simp [Ten.map]
    | [.slice a b] => simp [getItem, Ten.map, sliceList_map]
    | [.at i, .at j] =>
      simp only [getItem, Ten.map, itemList_map]
      cases itemList m i with
      | none => simp
      | some row =>
        simp only [Option.map_some, Option.bind_some, itemList_map]
        cases itemList row j <;> simp [Ten.map]
    | [.at i, .slice c d] =>
      simp only [getItem, Ten.map, itemList_map]
      cases itemList m i <;> simp [sliceList_map, Ten.map]
    | [.slice a b, .at j] =>
      simp only [getItem, Ten.map, sliceList_map, optMapList_map, itemList_map,
        optMapList_map_out]
      cases optMapList (fun row => itemList row j) (sliceList m a b) <;> simp [Ten.map]
    | [.slice a b, .slice c d] =>
      simp [getItem, Ten.map, sliceList_map, Function.comp_def]
    | _ :: _ :: _ :: _ => simp [getItem, Ten.map]

end index

section field
variable {K : Type} [Field K] [LinearOrder K] [IsStrictOrderedRing K]

/-- **index_eval**: evaluating an indexed array expression = indexing the evaluated array (same
table - so the same user functions - and the same environment - so the same constants); in
particular an index is refused for the expression iff it is refused for the value -/
theorem index_eval (T : FunTab K) (env : Env K) (t : Ten Expr) (ix : List Ix) :
    (getItem t ix).map (evalTen T env) = getItem (evalTen T env t) ix := by
  unfold evalTen
  rw [getItem_map]

/-- a scalar component: `expr[i]` (rank 1) and `expr[i, j]` (rank 2) evaluate to the component of
the evaluated array -/
theorem index_eval_item (T : FunTab K) (env : Env K) (l : List Expr) (m : List (List Expr))
    (i j : Int) :
    (getItem (.vec l) [.at i]).map (evalTen T env) =
      (itemList (evalVec T env l) i).map Ten.sc ∧
    (getItem (.mat m) [.at i, .at j]).map (evalTen T env) =
      ((itemList (evalMat T env m) i).bind (fun row => itemList row j)).map Ten.sc := by
  constructor
  · rw [index_eval]; simp [evalTen, Ten.map, getItem, evalVec]
  · rw [index_eval]
    have e : evalVec T env = fun row => List.map (eval T env) row := rfl
    simp only [evalTen, Ten.map, getItem, evalMat, e]
    cases itemList (List.map (fun row => List.map (eval T env) row) m) i <;> simp

/-- `expr[i][j]` is `expr[i, j]`, `expr[i][c:d]` is `expr[i, c:d]` -/
theorem index_index {α : Type} (m : List (List α)) (i : Int) (ix : Ix) :
    (getItem (.mat m) [.at i]).bind (fun r => getItem r [ix]) = getItem (.mat m) [.at i, ix] := by
  cases ix with
  | «at» j => simp only [getItem]; cases itemList m i <;> simp
  | slice c d => simp only [getItem]; cases itemList m i <;> simp

/-- differentiating commutes with indexing: `expr[index].differentiate(x)` is
`expr.differentiate(x)[index]` -/
theorem index_diff (x : String) (t : Ten Expr) (ix : List Ix) :
    (getItem t ix).map (Ten.map (diff x)) = getItem (t.map (diff x)) ix := by
  rw [getItem_map]

/-- shape of the results: an integer index removes an axis, a slice keeps it -/
theorem index_rank {α : Type} (l : List α) (m : List (List α)) (i j : Int) (a b : Option Int)
    (t : Ten α) :
    (getItem (.vec l) [.at i] = some t → t.rank = 0) ∧
    (getItem (.vec l) [.slice a b] = some t → t.rank = 1) ∧
    (getItem (.mat m) [.at i] = some t → t.rank = 1) ∧
    (getItem (.mat m) [.at i, .at j] = some t → t.rank = 0) ∧
    (getItem (.mat m) [.slice a b] = some t → t.rank = 2) := by
  refine ⟨?_, ?_, ?_, ?_, ?_⟩ <;> intro h <;> simp only [getItem] at h
  · cases hi : itemList l i <;> simp [hi] at h; subst h; rfl
  · cases h; rfl
  · cases hi : itemList m i <;> simp [hi] at h; subst h; rfl
  · cases hi : itemList m i with
    | none => simp [hi] at h
    | some row =>
      simp only [hi, Option.bind_some] at h
      cases hj : itemList row j <;> simp [hj] at h; subst h; rfl
  · cases h; rfl

/-! ### Piecewise -/

/-- `Piecewise((a, c), (b, True))`: the value of `a` where the condition has the value 1, the value
of `b` where it has the value 0 -/
theorem select_eval (T : FunTab K) (env : Env K) (c a b : Expr) :
    (eval T env c = 1 → eval T env (select c a b) = eval T env a) ∧
    (eval T env c = 0 → eval T env (select c a b) = eval T env b) := by
  constructor <;> intro h <;> simp [select, eval, h]

theorem cmpVal_holds (op : Cmp) (a b : K) :
    (op.holds a b → cmpVal op a b = 1) ∧ (¬ op.holds a b → cmpVal op a b = 0) := by
  cases op <;> simp [cmpVal, Cmp.holds]

/-- with the order-based comparison of the table (`primTab`, `algTab`, `withUser` of them), a
Piecewise with a comparison as condition selects by the truth of the comparison -/
theorem select_cmp_eval (T : FunTab K) (hT : T.cmp = cmpVal) (env : Env K) (op : Cmp)
    (x y a b : Expr) :
    (op.holds (eval T env x) (eval T env y) →
      eval T env (select (.cmp op x y) a b) = eval T env a) ∧
    (¬ op.holds (eval T env x) (eval T env y) →
      eval T env (select (.cmp op x y) a b) = eval T env b) := by
  have hc : eval T env (.cmp op x y) = cmpVal op (eval T env x) (eval T env y) := by
    simp [eval, hT]
  constructor <;> intro h
  · exact (select_eval T env _ a b).1 (hc.trans ((cmpVal_holds op _ _).1 h))
  · exact (select_eval T env _ a b).2 (hc.trans ((cmpVal_holds op _ _).2 h))

/-- user functions keep the comparison of the base table -/
theorem withUser_cmp (T : FunTab K) (defs : List UDef) : (withUser T defs).cmp = T.cmp := rfl

end field

theorem optMapList_eq_some_iff {α β : Type} (f : α → Option β) (l : List α) (r : List β) :
    optMapList f l = some r ↔ l.map f = r.map some := by
  induction l generalizing r with
  | nil => cases r <;> simp [optMapList]
  | cons a as ih =>
    simp only [optMapList, List.map_cons]
    cases hfa : f a with
    | none => cases r <;> simp
    | some b =>
      cases hr : optMapList f as with
      | none =>
        cases r with
        | nil => simp
        | cons c cs =>
          simp only [List.map_cons, List.cons.injEq, Option.some.injEq, reduceCtorEq, false_iff,
            not_and]
          intro _ h
          have := (ih cs).mpr h
          simp [hr] at this
      | some bs =>
        have hbs := (ih bs).mp hr
        cases r with
        | nil => simp
        | cons c cs =>
          simp only [Option.some.injEq, List.cons.injEq, List.map_cons]
          constructor
          · rintro ⟨rfl, rfl⟩; exact ⟨rfl, hbs⟩
          · rintro ⟨rfl, h⟩
            refine ⟨rfl, ?_⟩
            have := (ih cs).mpr h
            rw [hr] at this
            exact Option.some.inj this

theorem optMapList2_aux {α β : Type} (f : α → Option β) (m : List (List α)) (r : List (List β)) :
    m.map (optMapList f) = r.map some ↔ m.map (List.map f) = r.map (List.map some) := by
  induction m generalizing r with
  | nil => cases r <;> simp
  | cons a as ih =>
    cases r with
    | nil => simp
    | cons c cs => simp [optMapList_eq_some_iff, ih]

theorem Ten.optMap_eq_some_iff {α β : Type} (f : α → Option β) (t : Ten α) (v : Ten β) :
    t.optMap f = some v ↔ t.map f = v.map some := by
  cases t with
  | sc a =>
    cases v with
    | sc b =>
      simp only [Ten.optMap, Ten.map, Option.map_eq_some_iff, Ten.sc.injEq, exists_eq_right]
    | vec _ => simp [Ten.optMap, Ten.map]
    | mat _ => simp [Ten.optMap, Ten.map]
  | vec l =>
    cases v with
    | vec r =>
      simp only [Ten.optMap, Ten.map, Option.map_eq_some_iff, Ten.vec.injEq, exists_eq_right,
        optMapList_eq_some_iff]
    | sc _ => simp [Ten.optMap, Ten.map]
    | mat _ => simp [Ten.optMap, Ten.map]
  | mat m =>
    cases v with
    | mat r =>
      simp only [Ten.optMap, Ten.map, Option.map_eq_some_iff, Ten.mat.injEq, exists_eq_right,
        optMapList_eq_some_iff]
      exact optMapList2_aux f m r
    | sc _ => simp [Ten.optMap, Ten.map]
    | vec _ => simp [Ten.optMap, Ten.map]

/-- an `Option`-valued componentwise map that succeeds on the whole array succeeds on every
indexed part, with the indexed part of the result; an index is refused for both or for none -/
theorem getItem_optMap_cases {α β : Type} (f : α → Option β) (t : Ten α) (v : Ten β) (ix : List Ix)
    (h : t.optMap f = some v) :
    (getItem t ix = none ∧ getItem v ix = none) ∨
    (∃ t' v', getItem t ix = some t' ∧ getItem v ix = some v' ∧ t'.optMap f = some v') := by
  have hm := (Ten.optMap_eq_some_iff f t v).mp h
  have hn : (getItem t ix).map (Ten.map f) = (getItem v ix).map (Ten.map some) := by
    rw [← getItem_map, ← getItem_map, hm]
  cases ht : getItem t ix with
  | none =>
    rw [ht] at hn
    cases hv : getItem v ix with
    | none => exact Or.inl ⟨rfl, rfl⟩
    | some v' => rw [hv] at hn; simp at hn
  | some t' =>
    rw [ht] at hn
    cases hv : getItem v ix with
    | none => rw [hv] at hn; simp at hn
    | some v' =>
      rw [hv] at hn
      simp only [Option.map_some, Option.some.injEq] at hn
      exact Or.inr ⟨t', v', rfl, rfl, (Ten.optMap_eq_some_iff f t' v').mpr hn⟩

/-- indexing commutes with an `Option`-valued componentwise map that succeeds on the whole array -/
theorem getItem_optMap {α β : Type} (f : α → Option β) (t : Ten α) (v : Ten β) (ix : List Ix)
    (h : t.optMap f = some v) : (getItem t ix).bind (Ten.optMap f) = getItem v ix := by
  rcases getItem_optMap_cases f t v ix h with ⟨h1, h2⟩ | ⟨t', v', h1, h2, h3⟩
  · rw [h1, h2]; rfl
  · rw [h1, h2]; exact h3

/-- the same for successive indexing -/
theorem getChain_optMap {α β : Type} (f : α → Option β) (chain : List (List Ix)) (t : Ten α)
    (v : Ten β) (h : t.optMap f = some v) :
    (getChain t chain).bind (Ten.optMap f) = getChain v chain := by
  induction chain generalizing t v with
  | nil => simpa [getChain] using h
  | cons ix rest ih =>
    simp only [getChain]
    rcases getItem_optMap_cases f t v ix h with ⟨h1, h2⟩ | ⟨t', v', h1, h2, h3⟩
    · rw [h1, h2]; rfl
    · rw [h1, h2]; exact ih t' v' h3

theorem mem_of_mem_eraseDups : ∀ (n : Nat) (l : List String) (s : String), l.length ≤ n →
    s ∈ l.eraseDups → s ∈ l := by
  intro n
  induction n with
  | zero =>
    intro l s hl hs
    have : l = [] := List.length_eq_zero_iff.mp (Nat.le_zero.mp hl)
    subst this; simp at hs
  | succ n ih =>
    intro l s hl hs
    cases l with
    | nil => simp at hs
    | cons a as =>
      rw [List.eraseDups_cons] at hs
      rcases List.mem_cons.mp hs with h | h
      · simp [h]
      · have hlen : (as.filter (fun b => !b == a)).length ≤ n := by
          have := List.length_filter_le (fun b => !b == a) as
          simp only [List.length_cons] at hl
          omega
        have := ih _ s hlen h
        exact List.mem_cons_of_mem _ (List.mem_filter.mp this).1

/-- `eraseDups` keeps at most one copy: a predicate that only one value satisfies selects at most
one element -/
theorem eraseDups_filter_le_one : ∀ (n : Nat) (l : List String) (p : String → Bool) (v : String),
    (∀ s, p s = true → s = v) → l.length ≤ n → ((l.eraseDups).filter p).length ≤ 1 := by
  intro n
  induction n with
  | zero =>
    intro l p v _ hl
    have : l = [] := List.length_eq_zero_iff.mp (Nat.le_zero.mp hl)
    subst this; simp
  | succ n ih =>
    intro l p v hp hl
    cases l with
    | nil => simp
    | cons a as =>
      rw [List.eraseDups_cons]
      have hlen : (as.filter (fun b => !b == a)).length ≤ n := by
        have := List.length_filter_le (fun b => !b == a) as
        simp only [List.length_cons] at hl
        omega
      by_cases hpa : p a = true
      · have hav : a = v := hp a hpa
        have hrest : ((as.filter (fun b => !b == a)).eraseDups).filter p = [] := by
          rw [List.filter_eq_nil_iff]
          intro s hs hps
          have h1 := mem_of_mem_eraseDups _ _ s (Nat.le_refl _) hs
          have h2 := (List.mem_filter.mp h1).2
          have : s = a := (hp s hps).trans hav.symm
          simp [this] at h2
        simp [hpa, hrest]
      · have hpa' : p a = false := by simpa using hpa
        simp only [List.filter_cons, hpa', Bool.false_eq_true, if_false]
        exact ih _ p v hp hlen

theorem sigVars_varsSig (sig : List (List String)) : sigVars (varsSig sig) = sigVars sig := by
  simp [varsSig, sigVars, Function.comp_def]

theorem varsSig_length (sig : List (List String)) : (varsSig sig).length = sig.length := by
  simp [varsSig, sigVars]

theorem sigFn_varsSig (sig : List (List String)) (s : String) : sigFn (varsSig sig) s = s := by
  unfold sigFn
  cases h : (varsSig sig).find? (fun l => l.contains s) with
  | none => rfl
  | some l =>
    have hm := List.mem_of_find?_eq_some h
    have hc := List.find?_some h
    simp only [varsSig, List.mem_map] at hm
    obtain ⟨v, _, rfl⟩ := hm
    simp at hc
    simp [hc]

theorem replFn_nil (s : String) : replFn [] s = s := rfl

/-- preparing a prepared expression for the signature of definite names changes nothing -/
theorem prepare_varsSig (sig : List (List String)) (e : Expr) : prepare (varsSig sig) [] e = e := by
  unfold prepare
  rw [rename_id_on _ e (fun s _ => replFn_nil s), rename_id_on _ e (fun s _ => sigFn_varsSig sig s)]

/-- the expression `__getitem__` builds is accepted: the prepared components of an accepted
expression pass `_check_signature` for `signature=self.vars` -/
theorem checkSignature_prepared (sig : List (List String)) (cnames : List String)
    (repl : List (String × String)) (e : Expr) (h : checkSignature sig cnames repl e = true) :
    checkSignature (varsSig sig) cnames [] (prepare sig repl e) = true := by
  have hs := checkSignature_sound sig cnames repl e h
  unfold checkSignature
  have hid : rename (replFn []) (prepare sig repl e) = prepare sig repl e :=
    rename_id_on _ _ (fun s _ => replFn_nil s)
  simp only [hid, Bool.and_eq_true, List.all_eq_true]
  constructor
  · intro s hs'
    have hmem := mem_of_mem_eraseDups _ _ s (Nat.le_refl _) hs'
    rcases hs s hmem with h1 | h1
    · simp only [Bool.or_eq_true, List.any_eq_true]
      right
      exact ⟨[s], by simp only [varsSig, List.mem_map]; exact ⟨s, h1, rfl⟩, by simp⟩
    · simp [h1]
  · intro l hl
    simp only [varsSig, List.mem_map] at hl
    obtain ⟨v, _, rfl⟩ := hl
    simp only [decide_eq_true_eq]
    exact eraseDups_filter_le_one _ _ _ v (fun s hs => by
      simp only [Bool.and_eq_true] at hs
      simpa using hs.1) (Nat.le_refl _)

section field
variable {K : Type} [Field K] [LinearOrder K] [IsStrictOrderedRing K]

/-- the new expression `__getitem__` builds from a prepared component computes what the component
of the original expression computes -/
theorem exprFunction_reprepared (T : FunTab K) (sig : List (List String))
    (consts : List (String × Val K)) (repl : List (String × String)) (e : Expr)
    (args : List (Val K)) (v : K) (h : exprFunction T sig consts repl e args = some v) :
    exprFunction T (varsSig sig) consts [] (prepare sig repl e) args = some v := by
  unfold exprFunction at h ⊢
  split_ifs at h with hc
  simp only [Bool.and_eq_true, beq_iff_eq] at hc
  have h1 := checkSignature_prepared sig (consts.map Prod.fst) repl e hc.1
  simp only [h1, varsSig_length, hc.2, beq_self_eq_true, Bool.and_self, if_true, prepare_varsSig]
  rw [← h]
  unfold callEnv
  rw [sigVars_varsSig]

theorem optMapList_congr_some {α β γ : Type} (f : α → Option γ) (g : β → Option γ) (p : α → β)
    (l : List α) (r : List γ) (hfg : ∀ a v, f a = some v → g (p a) = some v)
    (h : optMapList f l = some r) : optMapList g (l.map p) = some r := by
  induction l generalizing r with
  | nil => simpa [optMapList] using h
  | cons a as ih =>
    simp only [optMapList, List.map_cons] at h ⊢
    cases hfa : f a with
    | none => simp [hfa] at h
    | some b =>
      cases hr : optMapList f as with
      | none => simp [hfa, hr] at h
      | some bs =>
        simp only [hfa, hr] at h
        rw [hfg a b hfa, ih bs hr]
        exact h

/-- the array version: the expression rebuilt from the prepared array (no index) computes the
same array -/
theorem tensorFunction_reprepared (T : FunTab K) (sig : List (List String))
    (consts : List (String × Val K)) (repl : List (String × String)) (t : Ten Expr)
    (args : List (Val K)) (v : Ten K) (h : tensorFunction T sig consts repl t args = some v) :
    tensorFunction T (varsSig sig) consts [] (t.map (prepare sig repl)) args = some v := by
  unfold tensorFunction at h ⊢
  have hfg := fun e v h => exprFunction_reprepared T sig consts repl e args v h
  cases t with
  | sc e =>
    simp only [Ten.optMap, Ten.map] at h ⊢
    cases he : exprFunction T sig consts repl e args with
    | none => simp [he] at h
    | some w => rw [hfg e w he]; simpa [he] using h
  | vec l =>
    simp only [Ten.optMap, Ten.map] at h ⊢
    cases hl : optMapList (fun e => exprFunction T sig consts repl e args) l with
    | none => simp [hl] at h
    | some r =>
      rw [optMapList_congr_some _ _ _ l r hfg hl]; simpa [hl] using h
  | mat m =>
    simp only [Ten.optMap, Ten.map] at h ⊢
    cases hm : optMapList (optMapList (fun e => exprFunction T sig consts repl e args)) m with
    | none => simp [hm] at h
    | some r =>
      rw [optMapList_congr_some _ _ (fun row => row.map (prepare sig repl)) m r
        (fun row w hw => optMapList_congr_some _ _ _ row w hfg hw) hm]
      simpa [hm] using h

/-- **index_function_eval**: `expr[index](*args)` - a NEW expression that `__getitem__` builds from the
indexed, already prepared sympy array with `signature=self.vars`, the same constants and the same
user functions (table `T`) - computes the indexed component(s) of what the whole expression
computes: if the call of the whole array is accepted with value `v`, the indexed expression gives
`v[index]` for EVERY index (and refuses exactly the indices that `v[index]` refuses) -/
theorem index_function_eval (T : FunTab K) (sig : List (List String))
    (consts : List (String × Val K)) (repl : List (String × String)) (t : Ten Expr)
    (ix : List Ix) (args : List (Val K)) (v : Ten K)
    (h : tensorFunction T sig consts repl t args = some v) :
    indexedFunction T sig consts repl t ix args = getItem v ix := by
  unfold indexedFunction
  have h' := tensorFunction_reprepared T sig consts repl t args v h
  unfold tensorFunction at h' ⊢
  exact getItem_optMap _ _ v ix h'

/-- the value of the whole array is made of the values of the components' own functions (what the
driver's `c11.eval` computes component by component): component `i` of an accepted call of a
rank-1 array is the accepted call of the `i`-th expression -/
theorem tensorFunction_component (T : FunTab K) (sig : List (List String))
    (consts : List (String × Val K)) (repl : List (String × String)) (l : List Expr)
    (args : List (Val K)) (vs : List K)
    (h : tensorFunction T sig consts repl (.vec l) args = some (.vec vs)) (i : Nat) (e : Expr)
    (he : l[i]? = some e) : exprFunction T sig consts repl e args = vs[i]? := by
  unfold tensorFunction at h
  have hm := (Ten.optMap_eq_some_iff _ _ _).mp h
  simp only [Ten.map, Ten.vec.injEq] at hm
  have hi := congrArg (fun l => l[i]?) hm
  simp only [List.getElem?_map, he, Option.map_some] at hi
  cases hv : vs[i]? with
  | none => rw [hv] at hi; simp at hi
  | some v => rw [hv] at hi; simpa using hi

/-- **chain_function_eval**: the same for successive indexing, `expr[index1][index2]...(*args)` (in
particular `expr[i][j]`, which `index_index` identifies with `expr[i, j]`) -/
theorem chain_function_eval (T : FunTab K) (sig : List (List String))
    (consts : List (String × Val K)) (repl : List (String × String)) (t : Ten Expr)
    (chain : List (List Ix)) (args : List (Val K)) (v : Ten K)
    (h : tensorFunction T sig consts repl t args = some v) :
    chainFunction T sig consts repl t chain args = getChain v chain := by
  unfold chainFunction
  have h' := tensorFunction_reprepared T sig consts repl t args v h
  unfold tensorFunction at h' ⊢
  exact getChain_optMap _ chain _ v h'

/-- a chain of one index is the index -/
theorem chainFunction_single (T : FunTab K) (sig : List (List String))
    (consts : List (String × Val K)) (repl : List (String × String)) (t : Ten Expr)
    (ix : List Ix) (args : List (Val K)) :
    chainFunction T sig consts repl t [ix] args = indexedFunction T sig consts repl t ix args := by
  unfold chainFunction indexedFunction
  simp only [getChain]
  cases getItem (Ten.map (prepare sig repl) t) ix <;> simp

end field

theorem Ten.map_congr {α β : Type} (f g : α → β) (t : Ten α) (h : ∀ a ∈ t.toList, f a = g a) :
    t.map f = t.map g := by
  cases t with
  | sc a => simp [Ten.map, h a (by simp [Ten.toList])]
  | vec l =>
    simp only [Ten.map, Ten.vec.injEq]
    exact List.map_congr_left (fun a ha => h a (by simpa [Ten.toList] using ha))
  | mat m =>
    simp only [Ten.map, Ten.mat.injEq]
    apply List.map_congr_left
    intro row hrow
    apply List.map_congr_left
    intro a ha
    exact h a (by simp only [Ten.toList, List.mem_flatten]; exact ⟨row, hrow, ha⟩)

section field
variable {K : Type} [Field K] [LinearOrder K] [IsStrictOrderedRing K]

/-- `depends_on(v) = False` is sound: rebinding `v` does not change the value of any component -/
theorem dependsOn_sound (T : FunTab K) (sig : List (List String)) (repl : List (String × String))
    (t : Ten Expr) (v : String) (env : Env K) (x : K) (h : dependsOn sig repl t v = false) :
    evalTen T (env.set v x) (t.map (prepare sig repl)) =
      evalTen T env (t.map (prepare sig repl)) := by
  unfold evalTen
  apply Ten.map_congr
  intro e he
  apply eval_congr_env
  intro s hs
  have hne : s ≠ v := by
    rintro rfl
    unfold dependsOn Ten.symbols at h
    have : s ∈ (Ten.map (prepare sig repl) t).toList.flatMap symbols :=
      List.mem_flatMap.mpr ⟨e, he, hs⟩
    simp only [List.contains_eq_mem, decide_eq_false_iff_not] at h
    exact h this
  simp [Env.set, hne]

end field

example : dependsOn [["x", "q"], ["y"]] [] (.vec [.mul (.var "q") (.num 2), .num 1]) "x" = true ∧
    dependsOn [["x", "q"], ["y"]] [] (.vec [.mul (.var "q") (.num 2), .num 1]) "y" = false := by
  decide +kernel

/-! ### non-vacuity of the indexing theorems (concrete calls over ℚ) -/

/-- `[log(a), k*a, a**2]` with the user function `log(v) = 3*v + 1` (shadowing the table's name), the
constant `k = 2` and the argument `a = 3`: component 1 is `6`, the user function is honoured in
component 0 (`10`), the slice `[1:]` and the negative index `-1` read from the end -/
example :
    let T := withUser (algTab : FunTab ℚ) [⟨"log", ["v"], .add (.mul (.num 3) (.var "v")) (.num 1)⟩]
    let t : Ten Expr := .vec [.call1 "log" (.var "a"), .mul (.var "k") (.var "a"), .powI (.var "a") 2]
    tensorFunction T [["a"]] [("k", Val.sc 2)] [] t [Val.sc 3] = some (.vec [10, 6, 9]) ∧
    indexedFunction T [["a"]] [("k", Val.sc 2)] [] t [.at 1] [Val.sc 3] = some (.sc 6) ∧
    indexedFunction T [["a"]] [("k", Val.sc 2)] [] t [.at 0] [Val.sc 3] = some (.sc 10) ∧
    indexedFunction T [["a"]] [("k", Val.sc 2)] [] t [.at (-1)] [Val.sc 3] = some (.sc 9) ∧
    indexedFunction T [["a"]] [("k", Val.sc 2)] [] t [.slice (some 1) none] [Val.sc 3] = some (.vec [6, 9]) ∧
    indexedFunction T [["a"]] [("k", Val.sc 2)] [] t [.at 3] [Val.sc 3] = none := by
  decide +kernel

/-- rank 2 with a synonym in the signature: `[[q, 1], [2*q, q**2]]`, signature `[["x", "q"]]`, x = 3 -/
example :
    let t : Ten Expr := .mat [[.var "q", .num 1], [.mul (.num 2) (.var "q"), .powI (.var "q") 2]]
    indexedFunction (algTab : FunTab ℚ) [["x", "q"]] [] [] t [.at 1, .at 1] [Val.sc 3] = some (.sc 9) ∧
    indexedFunction (algTab : FunTab ℚ) [["x", "q"]] [] [] t [.at 1] [Val.sc 3] = some (.vec [6, 9]) ∧
    indexedFunction (algTab : FunTab ℚ) [["x", "q"]] [] [] t [.slice none none, .at 0] [Val.sc 3] = some (.vec [3, 6]) ∧
    chainFunction (algTab : FunTab ℚ) [["x", "q"]] [] [] t [[.at 1], [.at 0]] [Val.sc 3] = some (.sc 6) ∧
    getItem t [.at 0, .at 2] = none := by
  decide +kernel

/-- `Piecewise((1, x < 2), (x**2/4, True))` at x = 1 and at x = 3 -/
example :
    let e := select (.cmp .lt (.var "x") (.num 2)) (.num 1) (.div (.powI (.var "x") 2) (.num 4))
    eval (algTab : FunTab ℚ) (bindEnv ["x"] [Val.sc 1] defaultEnv) e = 1 ∧
    eval (algTab : FunTab ℚ) (bindEnv ["x"] [Val.sc 3] defaultEnv) e = 9 / 4 := by
  decide +kernel

end PdeVerif.Ex
