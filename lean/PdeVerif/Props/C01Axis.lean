import PdeVerif.Model.Stencil
import Mathlib.Tactic.FieldSimp
import Mathlib.Tactic.Ring
import Mathlib.Tactic.NormNum
/-
C01 (continued) - the clause "for the central variants the quadratic rate holds uniformly over all cells"
FAILS for two conservative spherical tensor operators in the cell adjoining the origin of a full sphere.
These are kernel-checked witnesses on axis-regular polynomial tensor fields, exact for every cell size `h`;
the check reproduces them on the real code (refinement study with axis-regular fields, known findings).

In the innermost cell (`r_l = 0`, `r_h = h`, centre `h/2`) the lower flux vanishes identically, so the `O(h²)`
error of the averaged upper flux is not cancelled but divided by the cell volume `h³/3`.
-/
namespace PdeVerif.Stencil
open PdeVerif

variable {K : Type} [Field K] [CharZero K]

/-- the tensor field `T = r² · 1` (`T_rr = T_θθ = T_φφ = r²`), sampled at the cell centres `(i - 1/2) h` -/
def r2Identity (h : K) : Arr K := fun idx =>
  match idx with
  | [p, q, i] => if p = q then (centre 0 h i) * (centre 0 h i) else 0
  | _ => 0

/-- the tensor field with `T_rr = r²` and all other components zero -/
def r2Radial (h : K) : Arr K := fun idx =>
  match idx with
  | [0, 0, i] => (centre 0 h i) * (centre 0 h i)
  | _ => 0

/-- **conservative spherical tensor divergence is only first order in the cell at the origin**: for
`T = r² 1` the continuum value is `∂_r T_rr + 2 (T_rr - T_φφ)/r = 2r`, i.e. `h` at the centre `h/2` of the
innermost cell, but the stencil returns `3h` - the error `2h` is of first order for every `h` -/
theorem sphTensorDivergence_conservative_first_order_at_origin (h : K) (hh : h ≠ 0) :
    sphTensorDivergence true (centre 0 h) h (r2Identity h) 0 1 = 3 * h
    ∧ 2 * centre (0:K) h 1 = h := by
  constructor
  · simp only [sphTensorDivergence, r2Identity, centre, shellThird, if_true]
    norm_num
    field_simp
    ring
  · simp only [centre]; push_cast; ring

/-- **conservative spherical tensor double divergence is inconsistent (order zero) in the cell at the
origin**: for `T_rr = r²`, other components zero, the continuum value is
`∂_r² T_rr + 4 ∂_r T_rr / r + 2 T_rr / r² = 12` everywhere, but in the innermost cell the stencil returns
`27/2` for every cell size `h` -/
theorem sphTensorDoubleDivergence_conservative_inconsistent_at_origin (h : K) (hh : h ≠ 0) :
    sphTensorDoubleDivergence true (centre 0 h) h (r2Radial h) 1 = 27 / 2 := by
  simp only [sphTensorDoubleDivergence, r2Radial, centre, shellThird, if_true]
  norm_num
  field_simp
  ring

/-- away from the origin the same field is treated consistently: in cell `i ≥ 2` the stencil value differs from
`12` by a term that vanishes like `h²/ρ²` (here: the exact value in the second cell, centre `3h/2`) -/
theorem sphTensorDoubleDivergence_conservative_second_cell (h : K) (hh : h ≠ 0) :
    sphTensorDoubleDivergence true (centre 0 h) h (r2Radial h) 2 = 12 + 3 / 14 := by
  simp only [sphTensorDoubleDivergence, r2Radial, centre, shellThird, if_true]
  norm_num
  field_simp
  ring

end PdeVerif.Stencil
