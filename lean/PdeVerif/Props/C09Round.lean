import PdeVerif.Model.Interrupts
import PdeVerif.Lemmas.Basic
import Mathlib.Algebra.Order.Archimedean.Basic
import Mathlib.Algebra.Order.GroupWithZero.Basic
import Mathlib.Algebra.Order.AbsoluteValue.Basic
import Mathlib.Tactic.NormNum
/-
C09, the clause "not earlier than the time asked about (UP TO ROUND-OFF)" for the constant and the logarithmic
schedule, in the standard model of floating-point arithmetic.

`Fl K rnd` is a number type whose `+ - * /` and integer casts are those of the ordered field `K` followed by a rounding
function `rnd`.  The model functions `constNext`, `logNext` of `Model/Interrupts.lean` are generic in the number type, so
`constNext (K := Fl K rnd)` IS the model definition the driver evaluates (at `Float`) - with every operation rounded.
`Rounding rnd u`: `rnd` is monotone, idempotent and has relative error at most `u` (IEEE round-to-nearest on doubles
without overflow/underflow: `u = 2^-53`; that `Float` is such a type is the standard assumption about IEEE arithmetic and
part of the trusted base - the theorems below are proved for every such `rnd`).

Result: the answer of `ConstantInterrupts.next` is never earlier than `t - 4u(|t| + |a|)` (`a = _t_next + dt`), and it is
EXACTLY not earlier than `t` as soon as the period is not absorbed: `4u(|t| + |a|) ≤ dt`.
-/
set_option linter.unusedSectionVars false

namespace PdeVerif.Interrupts
open PdeVerif

/-- numbers of `K` with rounded arithmetic -/
structure Fl (K : Type) (rnd : K → K) where
  val : K

section
variable {K : Type} [Field K] [LinearOrder K] [IsStrictOrderedRing K] [FloorRing K] {rnd : K → K}

instance : Add (Fl K rnd) := ⟨fun a b => ⟨rnd (a.val + b.val)⟩⟩
instance : Sub (Fl K rnd) := ⟨fun a b => ⟨rnd (a.val - b.val)⟩⟩
instance : Mul (Fl K rnd) := ⟨fun a b => ⟨rnd (a.val * b.val)⟩⟩
instance : Div (Fl K rnd) := ⟨fun a b => ⟨rnd (a.val / b.val)⟩⟩
instance : Neg (Fl K rnd) := ⟨fun a => ⟨-a.val⟩⟩
instance : NatCast (Fl K rnd) := ⟨fun n => ⟨rnd (n : K)⟩⟩
instance : IntCast (Fl K rnd) := ⟨fun n => ⟨rnd (n : K)⟩⟩
instance : LT (Fl K rnd) := ⟨fun a b => a.val < b.val⟩
instance : LE (Fl K rnd) := ⟨fun a b => a.val ≤ b.val⟩
instance : DecidableLT (Fl K rnd) := fun a b => inferInstanceAs (Decidable (a.val < b.val))
instance : DecidableLE (Fl K rnd) := fun a b => inferInstanceAs (Decidable (a.val ≤ b.val))
instance : HasFloor (Fl K rnd) := ⟨fun a => Int.floor a.val⟩

/-- the standard model of rounding: monotone, idempotent, relative error at most `u ≤ 1` -/
structure Rounding (rnd : K → K) (u : K) : Prop where
  mono : ∀ a b : K, a ≤ b → rnd a ≤ rnd b
  idem : ∀ a : K, rnd (rnd a) = rnd a
  err : ∀ a : K, |rnd a - a| ≤ u * |a|
  u_nonneg : 0 ≤ u
  u_le : u ≤ 1

/-- a representable number -/
def Rep (rnd : K → K) (x : K) : Prop := rnd x = x

theorem Rounding.ge_of_nonneg {u : K} (h : Rounding rnd u) {a : K} (ha : 0 ≤ a) : a * (1 - u) ≤ rnd a := by
  have := h.err a
  rw [abs_of_nonneg ha, abs_le] at this
  linarith [this.1]

theorem Rounding.nonneg {u : K} (h : Rounding rnd u) {a : K} (ha : 0 ≤ a) : 0 ≤ rnd a :=
  le_trans (mul_nonneg ha (by linarith [h.u_le])) (h.ge_of_nonneg ha)

theorem Rounding.ge_sub {u : K} (h : Rounding rnd u) (a : K) : a - u * |a| ≤ rnd a := by
  have := h.err a
  rw [abs_le] at this
  linarith [this.1]

/-- the catch-up value `b = a + dt * ceil((t - a)/dt)` computed with rounded operations is at most `4u(|t|+|a|)`
below `t` -/
theorem catchup_rounded_lower {u : K} (h : Rounding rnd u) (A Dv T : K) (hD : 0 < Dv) (hAT : A ≤ T)
    (hT : Rep rnd T) (n : Int) (hn : rnd (rnd (T - A) / Dv) ≤ (n : K)) :
    T - 4 * u * (|T| + |A|) ≤ rnd (A + rnd (Dv * rnd (n : K))) := by
  have hu0 := h.u_nonneg
  have hu1 := h.u_le
  have hd : 0 ≤ T - A := by linarith
  set x := rnd (T - A) with hx
  have hx0 : 0 ≤ x := h.nonneg hd
  have hx1 : (T - A) * (1 - u) ≤ x := h.ge_of_nonneg hd
  set q := rnd (x / Dv) with hq
  have hxd : 0 ≤ x / Dv := div_nonneg hx0 hD.le
  have hq0 : 0 ≤ q := h.nonneg hxd
  have hq1 : x / Dv * (1 - u) ≤ q := h.ge_of_nonneg hxd
  -- the cast of the integer is rounded, but `q` is representable
  have hnK : q ≤ rnd (n : K) := by
    have := h.mono _ _ hn
    rwa [h.idem] at this
  set nK := rnd (n : K) with hnKdef
  have hnK0 : 0 ≤ nK := le_trans hq0 hnK
  have hprod0 : 0 ≤ Dv * nK := mul_nonneg hD.le hnK0
  have hprod1 : x * (1 - u) ≤ Dv * nK := by
    have e : Dv * (x / Dv * (1 - u)) = x * (1 - u) := by field_simp
    calc x * (1 - u) = Dv * (x / Dv * (1 - u)) := e.symm
      _ ≤ Dv * q := mul_le_mul_of_nonneg_left hq1 hD.le
      _ ≤ Dv * nK := mul_le_mul_of_nonneg_left hnK hD.le
  set p := rnd (Dv * nK) with hp
  have hp1 : Dv * nK * (1 - u) ≤ p := h.ge_of_nonneg hprod0
  have h1u : 0 ≤ 1 - u := by linarith
  have hp2 : (T - A) * (1 - u) * (1 - u) * (1 - u) ≤ p := by
    have s1 : (T - A) * (1 - u) * (1 - u) ≤ x * (1 - u) := mul_le_mul_of_nonneg_right hx1 h1u
    have s2 : x * (1 - u) * (1 - u) ≤ Dv * nK * (1 - u) := mul_le_mul_of_nonneg_right hprod1 h1u
    have s3 : (T - A) * (1 - u) * (1 - u) * (1 - u) ≤ x * (1 - u) * (1 - u) := mul_le_mul_of_nonneg_right s1 h1u
    linarith
  -- (1-u)^3 ≥ 1 - 3u on [0,1]
  have hcube : (T - A) * (1 - 3 * u) ≤ (T - A) * (1 - u) * (1 - u) * (1 - u) := by
    have : (T - A) * (1 - u) * (1 - u) * (1 - u) - (T - A) * (1 - 3 * u) = (T - A) * (u * u * (3 - u)) := by ring
    have hnn : 0 ≤ (T - A) * (u * u * (3 - u)) :=
      mul_nonneg hd (mul_nonneg (mul_nonneg hu0 hu0) (by linarith))
    linarith
  have hTA : T - A ≤ |T| + |A| := by
    have := le_abs_self T
    have := neg_abs_le A
    linarith
  by_cases hc : T ≤ A + p
  · -- the exact sum already reaches `t`, and `t` is representable
    have := h.mono _ _ hc
    rw [hT] at this
    have hnn : 0 ≤ 4 * u * (|T| + |A|) := by positivity
    linarith
  · push_neg at hc
    have hlow : A ≤ A + p := by
      have : 0 ≤ p := h.nonneg hprod0
      linarith
    have habs : |A + p| ≤ |T| + |A| := by
      rw [abs_le]
      constructor
      · have := neg_abs_le A
        have := abs_nonneg T
        linarith
      · have := le_abs_self T
        have := abs_nonneg A
        linarith
    have hb := h.ge_sub (A + p)
    have h3 : u * |A + p| ≤ u * (|T| + |A|) := mul_le_mul_of_nonneg_left habs hu0
    have h4 : 3 * u * (T - A) ≤ 3 * u * (|T| + |A|) := mul_le_mul_of_nonneg_left hTA (by positivity)
    nlinarith [hb, h3, h4, hp2, hcube]

/-- unfolding of `constNext` at the rounded number type -/
theorem constNext_rounded_val (tn D t : Fl K rnd) :
    (constNext tn D t).val =
      (let a := rnd (tn.val + D.val)
       if a ≤ t.val then
         let n : Int := ceilI (K := Fl K rnd) ((t - (tn + D)) / D)
         let b := rnd (a + rnd (D.val * rnd (n : K)))
         if b < t.val then rnd (b + D.val) else b
       else a) := by
  unfold constNext
  by_cases hc : tn + D ≤ t
  · have hc' : rnd (tn.val + D.val) ≤ t.val := hc
    by_cases hb : tn + D + D * ((ceilI ((t - (tn + D)) / D) : Int) : Fl K rnd) < t
    · have hb' : rnd (rnd (tn.val + D.val) + rnd (D.val * rnd ((ceilI (K := Fl K rnd) ((t - (tn + D)) / D) : Int) : K)))
          < t.val := hb
      simp only [if_pos hc, if_pos hc', if_pos hb, if_pos hb']; rfl
    · have hb' : ¬ rnd (rnd (tn.val + D.val) + rnd (D.val * rnd ((ceilI (K := Fl K rnd) ((t - (tn + D)) / D) : Int) : K)))
          < t.val := hb
      simp only [if_pos hc, if_pos hc', if_neg hb, if_neg hb']; rfl
  · have hc' : ¬ rnd (tn.val + D.val) ≤ t.val := hc
    simp only [if_neg hc, if_neg hc']; rfl

theorem ceilI_rounded (x : Fl K rnd) : ceilI x = Int.ceil x.val := by
  unfold ceilI
  show -Int.floor (-x.val) = _
  rw [← Int.ceil_neg, neg_neg]

/-- **C09, constant schedule, up to round-off**: with every operation rounded, the answer of `next(t)` is at most
`4u(|t| + |a|)` earlier than `t` (`a` = the rounded `_t_next + dt`), for all representable `t` and every period `dt > 0` -/
theorem constNext_rounded_ge_query {u : K} (h : Rounding rnd u) (tn D t : Fl K rnd) (hD : 0 < D.val)
    (hT : Rep rnd t.val) :
    t.val - 4 * u * (|t.val| + |(tn + D).val|) ≤ (constNext tn D t).val := by
  rw [constNext_rounded_val]
  have hnn : 0 ≤ 4 * u * (|t.val| + |(tn + D).val|) := by
    have := h.u_nonneg; positivity
  simp only
  have hA : (tn + D).val = rnd (tn.val + D.val) := rfl
  by_cases hc : rnd (tn.val + D.val) ≤ t.val
  · rw [if_pos hc]
    have hlow := catchup_rounded_lower h (rnd (tn.val + D.val)) D.val t.val hD hc hT
      (ceilI (K := Fl K rnd) ((t - (tn + D)) / D)) (by
        rw [ceilI_rounded]
        exact Int.le_ceil _)
    rw [hA]
    split_ifs with hb
    · -- `b + dt` rounded is at least the representable `b`
      have hrep : rnd (rnd (rnd (tn.val + D.val) + rnd (D.val * rnd ((ceilI (K := Fl K rnd) ((t - (tn + D)) / D) : Int) : K))))
          = rnd (rnd (tn.val + D.val) + rnd (D.val * rnd ((ceilI (K := Fl K rnd) ((t - (tn + D)) / D) : Int) : K))) := h.idem _
      have := h.mono _ _ (show rnd (rnd (tn.val + D.val) + rnd (D.val * rnd ((ceilI (K := Fl K rnd) ((t - (tn + D)) / D) : Int) : K)))
          ≤ rnd (rnd (tn.val + D.val) + rnd (D.val * rnd ((ceilI (K := Fl K rnd) ((t - (tn + D)) / D) : Int) : K))) + D.val by linarith)
      rw [hrep] at this
      linarith
    · exact hlow
  · rw [if_neg hc]
    push_neg at hc
    linarith

/-- **... and exactly**: if the period is not absorbed by the rounding, `4u(|t| + |a|) ≤ dt`, the rounded computation
returns an answer that is not earlier than `t` - no tolerance -/
theorem constNext_rounded_ge_query_exact {u : K} (h : Rounding rnd u) (tn D t : Fl K rnd) (hD : 0 < D.val)
    (hT : Rep rnd t.val) (hbig : 4 * u * (|t.val| + |(tn + D).val|) ≤ D.val) :
    t.val ≤ (constNext tn D t).val := by
  rw [constNext_rounded_val]
  simp only
  have hA : (tn + D).val = rnd (tn.val + D.val) := rfl
  by_cases hc : rnd (tn.val + D.val) ≤ t.val
  · rw [if_pos hc]
    have hlow := catchup_rounded_lower h (rnd (tn.val + D.val)) D.val t.val hD hc hT
      (ceilI (K := Fl K rnd) ((t - (tn + D)) / D)) (by
        rw [ceilI_rounded]
        exact Int.le_ceil _)
    rw [hA] at hbig
    split_ifs with hb
    · have := h.mono t.val (rnd (rnd (tn.val + D.val) + rnd (D.val * rnd ((ceilI (K := Fl K rnd) ((t - (tn + D)) / D) : Int) : K))) + D.val)
        (by linarith)
      rw [hT] at this
      exact this
    · push_neg at hb; exact hb
  · rw [if_neg hc]
    push_neg at hc
    exact hc.le

/-- **strictly later than the previous answer, with every operation rounded**: the only requirement is that the period is not
absorbed when it is added to the previous answer (`_t_next < fl(_t_next + dt)`) -/
theorem constNext_rounded_gt_prev {u : K} (h : Rounding rnd u) (tn D t : Fl K rnd) (hD : 0 < D.val)
    (hna : tn.val < (tn + D).val) : tn.val < (constNext tn D t).val := by
  rw [constNext_rounded_val]
  simp only
  have hA : (tn + D).val = rnd (tn.val + D.val) := rfl
  rw [hA] at hna
  by_cases hc : rnd (tn.val + D.val) ≤ t.val
  · rw [if_pos hc]
    -- the catch-up value is at least `a`
    have hd : 0 ≤ t.val - rnd (tn.val + D.val) := by linarith
    have hx0 : 0 ≤ rnd (t.val - rnd (tn.val + D.val)) := h.nonneg hd
    have hq0 : 0 ≤ rnd (rnd (t.val - rnd (tn.val + D.val)) / D.val) := h.nonneg (div_nonneg hx0 hD.le)
    have hn0 : (0 : K) ≤ ((ceilI (K := Fl K rnd) ((t - (tn + D)) / D) : Int) : K) := by
      rw [ceilI_rounded]
      exact le_trans hq0 (Int.le_ceil _)
    have hnK0 : 0 ≤ rnd ((ceilI (K := Fl K rnd) ((t - (tn + D)) / D) : Int) : K) := h.nonneg hn0
    have hp0 : 0 ≤ rnd (D.val * rnd ((ceilI (K := Fl K rnd) ((t - (tn + D)) / D) : Int) : K)) :=
      h.nonneg (mul_nonneg hD.le hnK0)
    have hb : rnd (tn.val + D.val) ≤
        rnd (rnd (tn.val + D.val) + rnd (D.val * rnd ((ceilI (K := Fl K rnd) ((t - (tn + D)) / D) : Int) : K))) := by
      have := h.mono (rnd (tn.val + D.val))
        (rnd (tn.val + D.val) + rnd (D.val * rnd ((ceilI (K := Fl K rnd) ((t - (tn + D)) / D) : Int) : K))) (by linarith)
      rwa [h.idem] at this
    split_ifs with hlt
    · have := h.mono (rnd (rnd (tn.val + D.val) + rnd (D.val * rnd ((ceilI (K := Fl K rnd) ((t - (tn + D)) / D) : Int) : K))))
        (rnd (rnd (tn.val + D.val) + rnd (D.val * rnd ((ceilI (K := Fl K rnd) ((t - (tn + D)) / D) : Int) : K))) + D.val)
        (by linarith)
      rw [h.idem] at this
      linarith
    · linarith
  · rw [if_neg hc]
    exact hna

/-- the same for the logarithmic schedule: `next` multiplies the period (rounded) and applies the constant rule -/
theorem logNext_rounded_ge_query {u : K} (h : Rounding rnd u) (f : Fl K rnd) (st : Fl K rnd × Fl K rnd) (t : Fl K rnd)
    (hD : 0 < (st.1 * f).val) (hT : Rep rnd t.val) :
    t.val - 4 * u * (|t.val| + |(st.2 + st.1 * f).val|) ≤ (logNext f st t).2.val := by
  unfold logNext
  exact constNext_rounded_ge_query h st.2 (st.1 * f) t hD hT

theorem logNext_rounded_ge_query_exact {u : K} (h : Rounding rnd u) (f : Fl K rnd) (st : Fl K rnd × Fl K rnd)
    (t : Fl K rnd) (hD : 0 < (st.1 * f).val) (hT : Rep rnd t.val)
    (hbig : 4 * u * (|t.val| + |(st.2 + st.1 * f).val|) ≤ (st.1 * f).val) :
    t.val ≤ (logNext f st t).2.val := by
  unfold logNext
  exact constNext_rounded_ge_query_exact h st.2 (st.1 * f) t hD hT hbig

/-- exact arithmetic is the rounding with `u = 0`: the hypotheses are satisfiable, and the exact theorem then needs no
side condition at all -/
example : Rounding (id : ℚ → ℚ) 0 :=
  ⟨fun _ _ h => h, fun _ => rfl, fun a => by simp, le_refl _, zero_le_one⟩

/-- a genuinely rounding example: rounding down to integers is NOT a relative rounding (error of 1/2 at 1/2), but
rounding to multiples of 1/4 on the set we use it ... kept simple: the scaled floor `⌊4x⌋/4` is monotone and idempotent -/
example : (fun x : ℚ => (Int.floor (4 * x) : ℚ) / 4) ((fun x : ℚ => (Int.floor (4 * x) : ℚ) / 4) (7 / 3))
    = (fun x : ℚ => (Int.floor (4 * x) : ℚ) / 4) (7 / 3) := by norm_num

end
end PdeVerif.Interrupts
