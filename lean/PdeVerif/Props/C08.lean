import PdeVerif.Model.Controller
import PdeVerif.Lemmas.Basic
import PdeVerif.Lemmas.Controller
import Mathlib.Data.Rat.Floor
/-
C08 - trackers fire exactly once per scheduled time, in order, even when stopping.

Property theorems about `PdeVerif.Controller` (model of pde/solvers/controller.py,
TrackerCollection / StorageTracker / DataTracker, the fixed stepper).  As in C07 everything is
stated for an arbitrary ordered field with floor, arbitrary state type and one-step map, every
tracker list, every interrupt state machine and every stop behaviour `stopAt`.
-/
set_option linter.unusedSectionVars false
set_option linter.unusedVariables false

namespace PdeVerif.Controller
open PdeVerif

section
variable {K : Type} [Field K] [LinearOrder K] [IsStrictOrderedRing K] [FloorRing K]
variable {S σ : Type}

/-- order of `handle` calls: earlier time, or same time and earlier in the tracker list -/
def evLt (a b : Event K S) : Prop := a.2.1 < b.2.1 ∨ (a.2.1 = b.2.1 ∧ a.1 < b.1)

/-- what never changes about a tracker during a run -/
def Tracker.ident (tr : Tracker K S σ) : Kind × (Nat → K → S → Option StopReq) × Nat :=
  (tr.kind, tr.stopAt, tr.finalized)

/-- invariant of the loop-head states: accounting, every call made so far happened at an earlier
lattice time with the state of that time, calls are ordered, trackers keep their identity -/
structure Head (c : Cfg K S σ) (u0 : S) (trs0 : List (Tracker K S σ)) (st : LState K S σ) : Prop where
  acc : Acc c u0 st
  past : ∀ e ∈ st.trace, ∃ n : Nat, n < st.steps ∧ e.2.1 = c.tStart + n * c.dt ∧
    e.2.2 = stateAfter c u0 n
  sorted : 0 < c.dt → st.trace.Pairwise evLt
  ident : st.trs.map Tracker.ident = trs0.map Tracker.ident

theorem head_init (c : Cfg K S σ) (u0 : S) (trs : List (Tracker K S σ)) :
    Head c u0 trs (initState c u0 trs) :=
  ⟨acc_init c u0 trs, by simp [initState], by simp [initState], rfl⟩

theorem handle_ident (tr : Tracker K S σ) (t : K) (u : S) : (tr.handle t u).1.ident = tr.ident := by
  unfold Tracker.handle Tracker.ident
  cases tr.kind <;> cases tr.stopAt tr.calls t u <;> rfl

theorem handleAll_ident (nxt : σ → K → σ × Option K) (atol t : K) (u : S)
    (trs : List (Tracker K S σ)) (i : Nat) :
    (handleAll nxt atol t u i trs).1.map Tracker.ident = trs.map Tracker.ident := by
  rw [handleAll_trackers, List.map_map]
  apply List.map_congr_left
  intro tr _
  simp only [Function.comp]
  split_ifs
  · exact handle_ident tr t u
  · rfl

/-- appending the calls of a `handle` at a head state keeps the trace facts -/
theorem head_append (c : Cfg K S σ) (u0 : S) (trs0 : List (Tracker K S σ)) (st : LState K S σ)
    (h : Head c u0 trs0 st) (atol : K) :
    (∀ e ∈ (handleAll c.nxt atol st.t st.u 0 st.trs).2.1,
        e.2.1 = c.tStart + st.steps * c.dt ∧ e.2.2 = stateAfter c u0 st.steps) ∧
    (0 < c.dt → (st.trace ++ (handleAll c.nxt atol st.t st.u 0 st.trs).2.1).Pairwise evLt) := by
  obtain ⟨s1, s2⟩ := handleAll_events_sorted c.nxt atol st.t st.u st.trs 0
  have hev : ∀ e ∈ (handleAll c.nxt atol st.t st.u 0 st.trs).2.1,
      e.2.1 = c.tStart + st.steps * c.dt ∧ e.2.2 = stateAfter c u0 st.steps := by
    intro e he
    obtain ⟨_, _, e1, e2⟩ := s2 e he
    exact ⟨by rw [e1, h.acc.1], by rw [e2, h.acc.2]⟩
  refine ⟨hev, ?_⟩
  intro hdt
  rw [List.pairwise_append]
  refine ⟨h.sorted hdt, ?_, ?_⟩
  · refine s1.imp_of_mem ?_
    intro a b ha hb hab
    right
    exact ⟨by rw [(s2 a ha).2.2.1, (s2 b hb).2.2.1], hab⟩
  · intro a ha b hb
    left
    obtain ⟨n, hn, e1, _⟩ := h.past a ha
    rw [e1, (hev b hb).1]
    have : (n : K) < (st.steps : K) := by exact_mod_cast hn
    nlinarith

theorem head_advance (c : Cfg K S σ) (u0 : S) (trs0 : List (Tracker K S σ)) (st : LState K S σ)
    (h : Head c u0 trs0 st) : Head c u0 trs0 (advance c st) := by
  obtain ⟨hev, hs⟩ := head_append c u0 trs0 st h (half * c.dt)
  have hn := one_le_nsteps st.t (clip (nextAction (mainHandle c st).1) c.tEnd) c.dt
  refine ⟨acc_advance c u0 st h.acc, ?_, hs, ?_⟩
  · intro e he
    have he' : e ∈ st.trace ++ (handleAll c.nxt (half * c.dt) st.t st.u 0 st.trs).2.1 := he
    rcases List.mem_append.mp he' with h1 | h1
    · obtain ⟨n, hn', r⟩ := h.past e h1
      exact ⟨n, by show n < st.steps + _; omega, r⟩
    · exact ⟨st.steps, by show st.steps < st.steps + _; omega, hev e h1⟩
  · show (handleAll c.nxt (half * c.dt) st.t st.u 0 st.trs).1.map Tracker.ident = _
    rw [handleAll_ident]; exact h.ident

/-- the shape of a run with the `Head` invariant at the last loop-head state -/
theorem run_shape_head (c : Cfg K S σ) (u0 : S) (trs : List (Tracker K S σ)) (fuel : Nat) :
    ∃ st : LState K S σ, Head c u0 trs st ∧ (runFuel c u0 trs fuel).tFinal = st.t ∧
      (runFuel c u0 trs fuel).state = st.u ∧ (runFuel c u0 trs fuel).steps = st.steps ∧
      RunShape c (runFuel c u0 trs fuel) st :=
  run_shape c (Head c u0 trs) (fun st h _ _ => head_advance c u0 trs st h) u0 trs fuel
    (head_init c u0 trs)

/-- the trace of a run: the calls before the last loop-head state followed by the calls of one
more `handle` at that state (or none) -/
theorem run_trace (c : Cfg K S σ) (u0 : S) (trs : List (Tracker K S σ)) (fuel : Nat) :
    ∃ (st : LState K S σ) (atol : K), Head c u0 trs st ∧ (runFuel c u0 trs fuel).steps = st.steps ∧
      ((runFuel c u0 trs fuel).trace = st.trace ∨
       (runFuel c u0 trs fuel).trace = st.trace ++ (handleAll c.nxt atol st.t st.u 0 st.trs).2.1) := by
  obtain ⟨st, hh, _, _, hs, sh⟩ := run_shape_head c u0 trs fuel
  rcases sh with ⟨_, ht, _⟩ | ⟨_, ht, _⟩ | ⟨_, r, _, _, ht, _⟩
  · exact ⟨st, 0, hh, hs, Or.inl ht⟩
  · exact ⟨st, c.eps * c.dt, hh, hs, Or.inr ht⟩
  · exact ⟨st, half * c.dt, hh, hs, Or.inr ht⟩

/-! ### genuine simulation times, genuine states, order -/

/-- **handled_state_is_iterate**: every `handle` call of a run happens at a time
`t_start + n*dt` with `n ≤ steps`, and is shown the state after exactly `n` steps. -/
theorem handled_state_is_iterate (c : Cfg K S σ) (u0 : S) (trs : List (Tracker K S σ)) (fuel : Nat) :
    ∀ e ∈ (runFuel c u0 trs fuel).trace, ∃ n : Nat, n ≤ (runFuel c u0 trs fuel).steps ∧
      e.2.1 = c.tStart + n * c.dt ∧ e.2.2 = stateAfter c u0 n := by
  obtain ⟨st, atol, hh, hs, ht⟩ := run_trace c u0 trs fuel
  intro e he
  rw [hs]
  rcases ht with ht | ht
  · rw [ht] at he
    obtain ⟨n, hn, r⟩ := hh.past e he
    exact ⟨n, by omega, r⟩
  · rw [ht] at he
    rcases List.mem_append.mp he with h1 | h1
    · obtain ⟨n, hn, r⟩ := hh.past e h1
      exact ⟨n, by omega, r⟩
    · exact ⟨st.steps, le_refl _, (head_append c u0 trs st hh atol).1 e h1⟩

/-- **handle_times_on_lattice**: tracker times are genuine simulation times -/
theorem handle_times_on_lattice (c : Cfg K S σ) (u0 : S) (trs : List (Tracker K S σ)) (fuel : Nat) :
    ∀ e ∈ (runFuel c u0 trs fuel).trace, ∃ n : Nat, n ≤ (runFuel c u0 trs fuel).steps ∧
      e.2.1 = c.tStart + n * c.dt := by
  intro e he
  obtain ⟨n, h1, h2, _⟩ := handled_state_is_iterate c u0 trs fuel e he
  exact ⟨n, h1, h2⟩

/-- **trace_sorted**: the calls of a run are strictly ordered by (time, position in the
tracker list): time never goes back, and within one time the trackers are served in list order,
each at most once. -/
theorem trace_sorted (c : Cfg K S σ) (hdt : 0 < c.dt) (u0 : S) (trs : List (Tracker K S σ))
    (fuel : Nat) : (runFuel c u0 trs fuel).trace.Pairwise evLt := by
  obtain ⟨st, atol, hh, _, ht⟩ := run_trace c u0 trs fuel
  rcases ht with ht | ht
  · rw [ht]; exact hh.sorted hdt
  · rw [ht]; exact (head_append c u0 trs st hh atol).2 hdt

/-- **handle_times_strictly_increasing**: each tracker is called at strictly increasing times -/
theorem handle_times_strictly_increasing (c : Cfg K S σ) (hdt : 0 < c.dt) (u0 : S)
    (trs : List (Tracker K S σ)) (fuel : Nat) (i : Nat) :
    (((runFuel c u0 trs fuel).trace.filter (fun e => e.1 = i)).map (fun e => e.2.1)).Pairwise (· < ·) := by
  have hs := trace_sorted c hdt u0 trs fuel
  rw [List.pairwise_map]
  refine (hs.filter _).imp_of_mem ?_
  intro a b ha hb hab
  have ea : a.1 = i := by simpa using (List.mem_filter.mp ha).2
  have eb : b.1 = i := by simpa using (List.mem_filter.mp hb).2
  rcases hab with h | ⟨_, h⟩
  · exact h
  · omega

/-- the times of all calls are non-decreasing along the trace -/
theorem trace_times_monotone (c : Cfg K S σ) (hdt : 0 < c.dt) (u0 : S) (trs : List (Tracker K S σ))
    (fuel : Nat) : ((runFuel c u0 trs fuel).trace.map (fun e => e.2.1)).Pairwise (· ≤ ·) := by
  rw [List.pairwise_map]
  refine (trace_sorted c hdt u0 trs fuel).imp ?_
  intro a b hab
  rcases hab with h | ⟨h, _⟩
  · exact h.le
  · exact h.le

/-! ### stop handling -/

/-- description of the `handle` that raised: the trackers `before` it started, the tolerance it
used, and what it did -/
structure StoppingHandle (c : Cfg K S σ) (R : Result K S σ) (r : StopReq) (atol : K)
    (before : List (Tracker K S σ)) (pre : List (Event K S)) : Prop where
  /-- every tracker due at the stopping time is served (in list order), raising or not -/
  trace_eq : R.trace = pre ++
    ((before.zipIdx 0).filter (fun p => isDue p.1.due atol R.tFinal)).map (fun p => (p.2, R.tFinal, R.state))
  /-- the re-raised exception is the one of the last due tracker that raised -/
  raised : ((before.filter (fun tr => isDue tr.due atol R.tFinal)).filterMap
      (fun tr => tr.stopAt tr.calls R.tFinal R.state)).getLast? = some r
  /-- all earlier calls happened strictly earlier -/
  earlier : 0 < c.dt → ∀ e ∈ pre, e.2.1 < R.tFinal
  /-- the trackers of the result are the served ones, finalised -/
  trackers_eq : R.trackers = finalizeAll
    (before.map (fun tr => if isDue tr.due atol R.tFinal then served c.nxt R.tFinal R.state tr else tr))

theorem stoppingHandle_of (c : Cfg K S σ) (u0 : S) (trs : List (Tracker K S σ)) (st : LState K S σ)
    (hh : Head c u0 trs st) (R : Result K S σ) (hT : R.tFinal = st.t) (hU : R.state = st.u)
    (atol : K) (r : StopReq) (herr : (handleAll c.nxt atol st.t st.u 0 st.trs).2.2 = some r)
    (htr : R.trace = st.trace ++ (handleAll c.nxt atol st.t st.u 0 st.trs).2.1)
    (htk : R.trackers = finalizeAll (handleAll c.nxt atol st.t st.u 0 st.trs).1) :
    StoppingHandle c R r atol st.trs st.trace := by
  refine ⟨?_, ?_, ?_, ?_⟩
  · rw [htr, handleAll_events, hT, hU]
  · rw [hT, hU, ← handleAll_err c.nxt atol st.t st.u st.trs 0]; exact herr
  · intro hdt e he
    obtain ⟨n, hn, e1, _⟩ := hh.past e he
    rw [hT, e1, hh.acc.1]
    have : (n : K) < (st.steps : K) := by exact_mod_cast hn
    nlinarith
  · rw [htk, handleAll_trackers, hT, hU]

/-- **stop_serves_all_due** (main loop): if a tracker asks to stop, the run's trace ends with the
calls of *all* trackers due at that time (tolerance `dt/2`), in list order, and nothing is called
afterwards; the reported request is the one of the last tracker that raised. -/
theorem stop_serves_all_due (c : Cfg K S σ) (u0 : S) (trs : List (Tracker K S σ)) (fuel : Nat)
    (r : StopReq) (h : (runFuel c u0 trs fuel).exit = .stopped r) :
    ∃ before pre, StoppingHandle c (runFuel c u0 trs fuel) r (half * c.dt) before pre ∧
      before.map Tracker.ident = trs.map Tracker.ident ∧
      (runFuel c u0 trs fuel).tFinal < c.tEnd - c.eps * c.dt := by
  obtain ⟨st, hh, hT, hU, _, sh⟩ := run_shape_head c u0 trs fuel
  rcases sh with ⟨he, _⟩ | ⟨_, _, _, he⟩ | ⟨hc, r', hr, he, ht, hk⟩
  · rw [he] at h; cases h
  · rw [he] at h
    cases hr : (finalH c st).2.2 <;> rw [hr] at h <;> simp at h
  · rw [he] at h
    cases h
    exact ⟨st.trs, st.trace, stoppingHandle_of c u0 trs st hh _ hT hU _ r hr ht hk, hh.ident, by rw [hT]; exact hc⟩

/-- **stop_serves_all_due** (final handle, tolerance `eps*dt`) -/
theorem final_stop_serves_all_due (c : Cfg K S σ) (u0 : S) (trs : List (Tracker K S σ)) (fuel : Nat)
    (r : StopReq) (h : (runFuel c u0 trs fuel).exit = .finalStopped r) :
    ∃ before pre, StoppingHandle c (runFuel c u0 trs fuel) r (c.eps * c.dt) before pre ∧
      before.map Tracker.ident = trs.map Tracker.ident ∧
      ¬ (runFuel c u0 trs fuel).tFinal < c.tEnd - c.eps * c.dt := by
  obtain ⟨st, hh, hT, hU, _, sh⟩ := run_shape_head c u0 trs fuel
  rcases sh with ⟨he, _⟩ | ⟨hc, ht, hk, he⟩ | ⟨_, r', _, he, _, _⟩
  · rw [he] at h; cases h
  · rw [he] at h
    cases hr : (finalH c st).2.2 with
    | none => rw [hr] at h; simp at h
    | some r' =>
      rw [hr] at h
      cases h
      exact ⟨st.trs, st.trace, stoppingHandle_of c u0 trs st hh _ hT hU _ r hr ht hk, hh.ident, by rw [hT]; exact hc⟩
  · rw [he] at h; cases h

/-- the calls of a raising handle are not empty, and the last one is at `(t_final, state)` -/
theorem stoppingHandle_last (c : Cfg K S σ) (R : Result K S σ) (r : StopReq) (atol : K)
    (before : List (Tracker K S σ)) (pre : List (Event K S)) (h : StoppingHandle c R r atol before pre) :
    ∃ i, R.trace.getLast? = some (i, R.tFinal, R.state) := by
  have hne : ((before.zipIdx 0).filter (fun p => isDue p.1.due atol R.tFinal)) ≠ [] := by
    intro hnil
    have h2 := h.raised
    have : before.filter (fun tr => isDue tr.due atol R.tFinal) = [] := by
      have hl := congrArg List.length hnil
      have : (before.filter (fun tr => isDue tr.due atol R.tFinal)).length = 0 := by
        have e : ((before.zipIdx 0).filter (fun p => isDue p.1.due atol R.tFinal)).map Prod.fst
            = before.filter (fun tr => isDue tr.due atol R.tFinal) := by
          have := List.filter_map (f := Prod.fst) (p := fun tr : Tracker K S σ => isDue tr.due atol R.tFinal)
            (l := before.zipIdx 0)
          rw [List.zipIdx_map_fst] at this
          rw [this]; rfl
        rw [← e, List.length_map, hl]; rfl
      exact List.length_eq_zero_iff.mp this
    rw [this] at h2
    simp at h2
  cases hg : ((before.zipIdx 0).filter (fun p => isDue p.1.due atol R.tFinal)).getLast? with
  | none => exact absurd (List.getLast?_eq_none_iff.mp hg) hne
  | some p =>
    refine ⟨p.2, ?_⟩
    rw [h.trace_eq, List.getLast?_append, List.getLast?_map, hg]
    rfl

/-- **stop_ends_at_stop_time**: a stopped run reports as final time the time of its last
`handle` call and returns the state shown to that call, which is the state after `steps` steps
at `t_start + steps*dt`: no step is taken after the request. -/
theorem stop_ends_at_stop_time (c : Cfg K S σ) (u0 : S) (trs : List (Tracker K S σ)) (fuel : Nat)
    (r : StopReq) (h : (runFuel c u0 trs fuel).exit = .stopped r ∨
      (runFuel c u0 trs fuel).exit = .finalStopped r) :
    (∃ i, (runFuel c u0 trs fuel).trace.getLast? =
        some (i, (runFuel c u0 trs fuel).tFinal, (runFuel c u0 trs fuel).state)) ∧
      (runFuel c u0 trs fuel).tFinal = c.tStart + (runFuel c u0 trs fuel).steps * c.dt ∧
      (runFuel c u0 trs fuel).state = stateAfter c u0 (runFuel c u0 trs fuel).steps := by
  obtain ⟨st, hh, hT, hU, hS, _⟩ := run_shape_head c u0 trs fuel
  refine ⟨?_, by rw [hT, hS]; exact hh.acc.1, by rw [hU, hS]; exact hh.acc.2⟩
  rcases h with h | h
  · obtain ⟨before, pre, hs, _⟩ := stop_serves_all_due c u0 trs fuel r h
    exact stoppingHandle_last c _ r _ before pre hs
  · obtain ⟨before, pre, hs, _⟩ := final_stop_serves_all_due c u0 trs fuel r h
    exact stoppingHandle_last c _ r _ before pre hs

/-- **stop_reason_reported**: `info["stop_reason"]` / `info["successful"]` are those of the
request that was re-raised (FinishedSimulation: successful, its message or the default text;
StopIteration: not successful); a run without request reports `Reached final time`. -/
theorem stop_reason_reported (c : Cfg K S σ) (u0 : S) (trs : List (Tracker K S σ)) (fuel : Nat) :
    (∀ r, ((runFuel c u0 trs fuel).exit = .stopped r ∨ (runFuel c u0 trs fuel).exit = .finalStopped r) →
      (runFuel c u0 trs fuel).exit.reason = r.reason ∧
      (runFuel c u0 trs fuel).exit.successful = r.successful) ∧
    ((runFuel c u0 trs fuel).exit = .final →
      (runFuel c u0 trs fuel).exit.reason = "Reached final time" ∧
      (runFuel c u0 trs fuel).exit.successful = true) := by
  refine ⟨?_, ?_⟩
  · intro r h
    rcases h with h | h <;> rw [h] <;> exact ⟨rfl, rfl⟩
  · intro h; rw [h]; exact ⟨rfl, rfl⟩

theorem reason_cases (r : StopReq) :
    (∀ m, r = .finished m → r.successful = true ∧
      r.reason = if m = "" then "Tracker raised FinishedSimulation" else m) ∧
    (∀ m, r = .stopIteration m → r.successful = false ∧
      r.reason = if m = "" then "Tracker raised StopIteration" else m) := by
  refine ⟨?_, ?_⟩ <;> intro m h <;> subst h <;> exact ⟨rfl, rfl⟩

/-- **all_finalized**: on every path (final time, stop in the loop, stop in the final handle)
every tracker of the collection is finalised exactly once, and the collection keeps its
trackers (number, classes, behaviours) in order. -/
theorem all_finalized (c : Cfg K S σ) (u0 : S) (trs : List (Tracker K S σ)) (fuel : Nat) :
    (runFuel c u0 trs fuel).trackers.map Tracker.ident =
      trs.map (fun tr => (tr.kind, tr.stopAt, tr.finalized + 1)) := by
  obtain ⟨st, hh, _, _, _, sh⟩ := run_shape_head c u0 trs fuel
  have hfin : ∀ l : List (Tracker K S σ), l.map Tracker.ident = trs.map Tracker.ident →
      (finalizeAll l).map Tracker.ident = trs.map (fun tr => (tr.kind, tr.stopAt, tr.finalized + 1)) := by
    intro l hl
    have e1 : (finalizeAll l).map Tracker.ident
        = (l.map Tracker.ident).map (fun p => (p.1, p.2.1, p.2.2 + 1)) := by
      unfold finalizeAll; rw [List.map_map, List.map_map]; rfl
    rw [e1, hl, List.map_map]; rfl
  rcases sh with ⟨_, _, hk⟩ | ⟨_, _, hk, _⟩ | ⟨_, r, _, _, _, hk⟩
  · rw [hk]; exact hfin _ hh.ident
  · rw [hk]; exact hfin _ (by unfold finalH; rw [handleAll_ident]; exact hh.ident)
  · rw [hk]; exact hfin _ (by unfold mainHandle; rw [handleAll_ident]; exact hh.ident)


/-! ### constant interval `D ≥ dt`: every scheduled time is served exactly once within `dt/2` -/

/-- `nxt` acts on the schedule states `s` with `C s tn` like a `ConstantInterrupts(D)` object whose
`_t_next` is `tn` (for the concrete interrupt classes: `C s tn := s = Sched.const D tn`) -/
def ConstLike (nxt : σ → K → σ × Option K) (D : K) (C : σ → K → Prop) : Prop :=
  ∀ s tn t, C s tn → (nxt s t).2 = some (Interrupts.constNext tn D t) ∧
    C (nxt s t).1 (Interrupts.constNext tn D t)

theorem constNext_no_catchup' (tn D t : K) (h : t < tn + D) : Interrupts.constNext tn D t = tn + D := by
  unfold Interrupts.constNext; simp only; rw [if_neg (not_le.mpr h)]

/-- the `k`-th call serves the `k`-th scheduled time, within half a step -/
def Near (dt D τ0 : K) (k : Nat) (x : K) : Prop := |x - (τ0 + k * D)| ≤ dt / 2

/-- invariant of the loop-head states for the tracker at list position `j` with a constant
schedule: `m` scheduled times have been served, one call each, in order, each within `dt/2`; the
pending time is `τ0 + m*D`, not more than `dt/2` in the past (**pending window**); all served
times lie at least `dt/2` in the past -/
structure ConstInv (c : Cfg K S σ) (D τ0 : K) (C : σ → K → Prop) (j : Nat) (st : LState K S σ)
    (m : Nat) : Prop where
  tr : ∃ tr, st.trs[j]? = some tr ∧ C tr.sched (τ0 + m * D) ∧ tr.due = some (τ0 + m * D)
  window : st.t - c.dt / 2 ≤ τ0 + m * D
  near : List.Forall₂ (Near c.dt D τ0) (List.range m) (callsOf j st.trace)
  before : ∀ k : Nat, k < m → τ0 + k * D ≤ st.t - c.dt / 2

/-- **pending_window_invariant** (one `handle` with tolerance `0 < atol ≤ dt/2` at a state
satisfying the invariant): the tracker is served iff its pending time is due, then by exactly one
call within `dt/2` of it and without catch-up (`next = pending + D`); afterwards the pending time
is at least `atol` in the future, and exactly the scheduled times before `t + atol` have been
served. -/
theorem pending_window_invariant (c : Cfg K S σ) (hdt : 0 < c.dt) (D τ0 : K) (hD : c.dt ≤ D)
    (C : σ → K → Prop) (hC : ConstLike c.nxt D C) (j : Nat) (st : LState K S σ) (m : Nat)
    (h : ConstInv c D τ0 C j st m) (atol : K) (ha0 : 0 < atol) (ha1 : atol ≤ c.dt / 2) :
    ∃ m', (m' = m ∨ m' = m + 1) ∧
      (∃ tr, (handleAll c.nxt atol st.t st.u 0 st.trs).1[j]? = some tr ∧ C tr.sched (τ0 + m' * D) ∧
        tr.due = some (τ0 + m' * D)) ∧
      st.t + atol ≤ τ0 + m' * D ∧
      List.Forall₂ (Near c.dt D τ0) (List.range m')
        (callsOf j (st.trace ++ (handleAll c.nxt atol st.t st.u 0 st.trs).2.1)) ∧
      (∀ k : Nat, k < m' → τ0 + k * D < st.t + atol) := by
  obtain ⟨tr, hj, hs, hdue⟩ := h.tr
  have hget := handleAll_getElem? c.nxt atol st.t st.u st.trs 0 j tr hj
  have hcalls := handleAll_callsOf c.nxt atol st.t st.u st.trs j tr hj
  have hw := h.window
  by_cases hd : isDue tr.due atol st.t = true
  · -- due: served now
    have hd' : τ0 + m * D - atol < st.t := by
      rw [hdue] at hd; simpa [isDue] using hd
    obtain ⟨n1, n2⟩ := hC tr.sched (τ0 + m * D) st.t hs
    have hnc : Interrupts.constNext (τ0 + m * D) D st.t = τ0 + ((m + 1 : Nat) : K) * D := by
      rw [constNext_no_catchup' _ _ _ (by linarith)]; push_cast; ring
    refine ⟨m + 1, Or.inr rfl, ?_, ?_, ?_, ?_⟩
    · refine ⟨served c.nxt st.t st.u tr, by rw [hget, if_pos hd], ?_, ?_⟩
      · show C (c.nxt tr.sched st.t).1 _
        rw [← hnc]; exact n2
      · show (c.nxt tr.sched st.t).2 = _
        rw [n1, hnc]
    · push_cast; linarith
    · rw [callsOf_append, hcalls, if_pos hd, List.range_succ]
      refine List.rel_append h.near ?_
      refine List.Forall₂.cons ?_ List.Forall₂.nil
      show |st.t - (τ0 + m * D)| ≤ c.dt / 2
      rw [abs_le]; constructor <;> linarith
    · intro k hk
      rcases Nat.lt_succ_iff_lt_or_eq.mp hk with h1 | h1
      · have := h.before k h1; linarith
      · subst h1; linarith
  · -- not due
    have hd' : ¬ τ0 + m * D - atol < st.t := by
      rw [hdue] at hd; simpa [isDue] using hd
    refine ⟨m, Or.inl rfl, ⟨tr, by rw [hget, if_neg hd], hs, hdue⟩, by linarith, ?_, ?_⟩
    · rw [callsOf_append, hcalls, if_neg hd, List.append_nil]; exact h.near
    · intro k hk
      have := h.before k hk; linarith

theorem constInv_advance (c : Cfg K S σ) (hdt : 0 < c.dt) (D τ0 : K) (hD : c.dt ≤ D)
    (C : σ → K → Prop) (hC : ConstLike c.nxt D C) (j : Nat) (st : LState K S σ)
    (h : ∃ m, ConstInv c D τ0 C j st m) : ∃ m, ConstInv c D τ0 C j (advance c st) m := by
  obtain ⟨m, h⟩ := h
  have hh : (half : K) * c.dt = c.dt / 2 := half_mul _
  obtain ⟨m', _, ⟨tr', hj', hs', hdue'⟩, hp, hnear, hbef⟩ :=
    pending_window_invariant c hdt D τ0 hD C hC j st m h (half * c.dt) (by rw [hh]; linarith) (by rw [hh])
  rw [hh] at hp hbef
  have hmem : tr' ∈ (mainHandle c st).1 := List.mem_of_getElem? hj'
  have hclip := clip_nextAction_le (mainHandle c st).1 c.tEnd tr' hmem _ hdue'
  have hn1 := one_le_nsteps st.t (clip (nextAction (mainHandle c st).1) c.tEnd) c.dt
  have hwin := nsteps_window st.t (clip (nextAction (mainHandle c st).1) c.tEnd) c.dt _ hdt hclip hp
  have ht : (advance c st).t = st.t + (nsteps st.t (clip (nextAction (mainHandle c st).1) c.tEnd) c.dt : K) * c.dt :=
    stepperTime_eq _ _ _ hn1
  have hge : st.t + c.dt ≤ (advance c st).t := by
    rw [ht]
    have : (1 : K) ≤ (nsteps st.t (clip (nextAction (mainHandle c st).1) c.tEnd) c.dt : K) := by
      exact_mod_cast hn1
    nlinarith
  refine ⟨m', ⟨tr', hj', hs', hdue'⟩, by rw [ht]; linarith, hnear, ?_⟩
  intro k hk
  have := hbef k hk
  linarith

/-- **served_exactly_once_within_half_step.**  A tracker (list position `j`, any class, any stop
behaviour, among any other trackers with any schedules) whose schedule is a constant interval
`D ≥ dt` starting at `τ0 ≥ t_start - dt/2`: its `k`-th call serves its `k`-th scheduled time
`τ0 + k*D`, at distance at most `dt/2` - no scheduled time is skipped, none is served twice, on
every path.  If the run reaches the end of the loop, the scheduled times that were served are
exactly those before `t_final + eps*dt`. -/
theorem served_exactly_once_within_half_step (c : Cfg K S σ) (hdt : 0 < c.dt) (he0 : 0 < c.eps)
    (he1 : c.eps ≤ 1 / 2) (D τ0 : K) (hD : c.dt ≤ D) (C : σ → K → Prop) (hC : ConstLike c.nxt D C)
    (u0 : S) (trs : List (Tracker K S σ)) (j : Nat) (tr0 : Tracker K S σ) (hj : trs[j]? = some tr0)
    (hs : C tr0.sched τ0) (hdue : tr0.due = some τ0) (hτ : c.tStart - c.dt / 2 ≤ τ0) (fuel : Nat) :
    ∃ m : Nat,
      List.Forall₂ (Near c.dt D τ0) (List.range m) (callsOf j (runFuel c u0 trs fuel).trace) ∧
      ((runFuel c u0 trs fuel).exit.reachedEnd →
        ∀ k : Nat, τ0 + k * D < (runFuel c u0 trs fuel).tFinal + c.eps * c.dt ↔ k < m) := by
  have h0 : ∃ m, ConstInv c D τ0 C j (initState c u0 trs) m :=
    ⟨0, ⟨tr0, hj, by simpa using hs, by simpa using hdue⟩, by simpa [initState] using hτ,
      by simp [initState, callsOf], by intro k hk; omega⟩
  obtain ⟨st, ⟨m, hinv⟩, hT, _, _, sh⟩ := run_shape c (fun st => ∃ m, ConstInv c D τ0 C j st m)
    (fun st h _ _ => constInv_advance c hdt D τ0 hD C hC j st h) u0 trs fuel h0
  have hD0 : 0 < D := lt_of_lt_of_le hdt hD
  have hea : c.eps * c.dt ≤ c.dt / 2 := by nlinarith
  have hea0 : 0 < c.eps * c.dt := mul_pos he0 hdt
  rcases sh with ⟨he, ht, _⟩ | ⟨hc, ht, _, he⟩ | ⟨hc, r, hr, he, ht, _⟩
  · refine ⟨m, by rw [ht]; exact hinv.near, ?_⟩
    intro hre; rw [he] at hre; exact absurd hre (by simp [Exit.reachedEnd])
  · obtain ⟨m', _, _, hp, hnear, hbef⟩ :=
      pending_window_invariant c hdt D τ0 hD C hC j st m hinv (c.eps * c.dt) hea0 hea
    refine ⟨m', by rw [ht]; exact hnear, ?_⟩
    intro _ k
    rw [hT]
    constructor
    · intro hk
      by_contra hcon
      have hmk : (m' : K) ≤ (k : K) := by exact_mod_cast not_lt.mp hcon
      have : τ0 + (m' : K) * D ≤ τ0 + (k : K) * D := by nlinarith
      linarith
    · exact hbef k
  · have hh : (half : K) * c.dt = c.dt / 2 := half_mul _
    obtain ⟨m', _, _, _, hnear, _⟩ :=
      pending_window_invariant c hdt D τ0 hD C hC j st m hinv (half * c.dt) (by rw [hh]; linarith) (by rw [hh])
    refine ⟨m', by rw [ht]; exact hnear, ?_⟩
    intro hre; rw [he] at hre; exact absurd hre (by simp [Exit.reachedEnd])


/-- **frame_count**: if the run reaches the end of the loop, the tracker has been called exactly
`#{k | τ0 + k*D < t_final + eps*dt} = ⌈(t_final + eps*dt - τ0)/D⌉` times. -/
theorem frame_count (c : Cfg K S σ) (hdt : 0 < c.dt) (he0 : 0 < c.eps)
    (he1 : c.eps ≤ 1 / 2) (D τ0 : K) (hD : c.dt ≤ D) (C : σ → K → Prop) (hC : ConstLike c.nxt D C)
    (u0 : S) (trs : List (Tracker K S σ)) (j : Nat) (tr0 : Tracker K S σ) (hj : trs[j]? = some tr0)
    (hs : C tr0.sched τ0) (hdue : tr0.due = some τ0) (hτ : c.tStart - c.dt / 2 ≤ τ0) (fuel : Nat)
    (h : (runFuel c u0 trs fuel).exit.reachedEnd) :
    (callsOf j (runFuel c u0 trs fuel).trace).length =
      (Int.ceil (((runFuel c u0 trs fuel).tFinal + c.eps * c.dt - τ0) / D)).toNat := by
  obtain ⟨m, hnear, hiff⟩ := served_exactly_once_within_half_step c hdt he0 he1 D τ0 hD C hC u0 trs j
    tr0 hj hs hdue hτ fuel
  have hiff := hiff h
  have hlen : (callsOf j (runFuel c u0 trs fuel).trace).length = m := by
    have := hnear.length_eq; simpa using this.symm
  have hD0 : 0 < D := lt_of_lt_of_le hdt hD
  set X := (runFuel c u0 trs fuel).tFinal + c.eps * c.dt with hX
  have h1 : Int.ceil ((X - τ0) / D) ≤ (m : Int) := by
    rw [Int.ceil_le, div_le_iff₀ hD0]
    have := (hiff m).not.mpr (lt_irrefl m)
    push_cast; linarith [not_lt.mp this]
  have h2 : (m : Int) ≤ max 0 (Int.ceil ((X - τ0) / D)) := by
    rcases Nat.eq_zero_or_pos m with h0 | hpos
    · subst h0; simp
    · have := (hiff (m - 1)).mpr (by omega)
      have hlt : ((m - 1 : Nat) : K) < (X - τ0) / D := by
        rw [lt_div_iff₀ hD0]; linarith
      have : ((m - 1 : Nat) : Int) < Int.ceil ((X - τ0) / D) := by
        rw [Int.lt_ceil]; exact_mod_cast hlt
      have : (m : Int) ≤ Int.ceil ((X - τ0) / D) := by omega
      exact le_trans this (le_max_right _ _)
  rw [hlen]
  omega

/-- **frame_count_floor**: on a range that is a whole number of steps, a tracker (e.g. a storage
tracker) with interval `D ≥ dt` starting at `t_start` is called `⌊T/D⌋ + 1` times, provided no
scheduled time falls into the sliver `(t_end, t_end + eps*dt)` - the final handle uses the
stepper tolerance, so such a time is served at `t_end` as well. -/
theorem frame_count_floor (c : Cfg K S σ) (hdt : 0 < c.dt) (he0 : 0 < c.eps)
    (he1 : c.eps < 1 / 2) (N : Nat) (hN : c.tEnd - c.tStart = N * c.dt) (D : K) (hD : c.dt ≤ D)
    (C : σ → K → Prop) (hC : ConstLike c.nxt D C)
    (u0 : S) (trs : List (Tracker K S σ)) (j : Nat) (tr0 : Tracker K S σ) (hj : trs[j]? = some tr0)
    (hs : C tr0.sched c.tStart) (hdue : tr0.due = some c.tStart) (fuel : Nat)
    (h : (runFuel c u0 trs fuel).exit.reachedEnd)
    (guard : ∀ k : Nat, ¬ (c.tEnd - c.tStart < k * D ∧ k * D < c.tEnd - c.tStart + c.eps * c.dt)) :
    (callsOf j (runFuel c u0 trs fuel).trace).length =
      (Int.floor ((c.tEnd - c.tStart) / D)).toNat + 1 := by
  obtain ⟨m, hnear, hiff⟩ := served_exactly_once_within_half_step c hdt he0 he1.le D c.tStart hD C hC
    u0 trs j tr0 hj hs hdue (by linarith) fuel
  have hiff := hiff h
  rw [run_tFinal_whole c hdt he0 he1 N hN u0 trs fuel h] at hiff
  have hlen : (callsOf j (runFuel c u0 trs fuel).trace).length = m := by
    have := hnear.length_eq; simpa using this.symm
  have hD0 : 0 < D := lt_of_lt_of_le hdt hD
  have hT0 : 0 ≤ c.tEnd - c.tStart := by rw [hN]; positivity
  set T := c.tEnd - c.tStart with hT
  have hf0 : 0 ≤ Int.floor (T / D) := Int.floor_nonneg.mpr (div_nonneg hT0 hD0.le)
  obtain ⟨q, hq⟩ : ∃ q : Nat, (q : Int) = Int.floor (T / D) := ⟨(Int.floor (T / D)).toNat, by omega⟩
  have hqK : (q : K) = (Int.floor (T / D) : K) := by
    have := congrArg (fun z : Int => (z : K)) hq; simpa using this
  have hq1 : (q : K) * D ≤ T := by
    rw [hqK]; exact (le_div_iff₀ hD0).mp (Int.floor_le _)
  have hq2 : T < ((q : K) + 1) * D := by
    rw [hqK]; exact (div_lt_iff₀ hD0).mp (Int.lt_floor_add_one _)
  have hpos := mul_pos he0 hdt
  have g := guard (q + 1)
  have hg : T + c.eps * c.dt ≤ ((q + 1 : Nat) : K) * D := by
    by_contra hcon
    exact g ⟨by push_cast; exact hq2, not_le.mp hcon⟩
  have hlo : q < m := (hiff q).mp (by linarith)
  have hhi : ¬ q + 1 < m := fun hlt => by
    have := (hiff (q + 1)).mpr hlt
    linarith
  rw [hlen, ← hq]
  simp only [Int.toNat_natCast]
  omega

/-- **frame_count_whole_range_sliver**: the complement of `frame_count_floor` - the guard cannot be
dropped.  On a range that is a whole number of steps, if a scheduled time does fall into the sliver
`(t_end, t_end + eps*dt)`, the tracker is called `⌊T/D⌋ + 2` times: the final handle (tolerance
`eps*dt`) serves that time at `t_end`.  The literal clause "`⌊T/D⌋ + 1` frames when the range is a
whole number of steps" is therefore false for the code that exists (known finding; witness
`sliver_frame_on_whole_range`). -/
theorem frame_count_whole_range_sliver (c : Cfg K S σ) (hdt : 0 < c.dt) (he0 : 0 < c.eps)
    (he1 : c.eps < 1 / 2) (N : Nat) (hN : c.tEnd - c.tStart = N * c.dt) (D : K) (hD : c.dt ≤ D)
    (C : σ → K → Prop) (hC : ConstLike c.nxt D C)
    (u0 : S) (trs : List (Tracker K S σ)) (j : Nat) (tr0 : Tracker K S σ) (hj : trs[j]? = some tr0)
    (hs : C tr0.sched c.tStart) (hdue : tr0.due = some c.tStart) (fuel : Nat)
    (h : (runFuel c u0 trs fuel).exit.reachedEnd)
    (k : Nat) (hk1 : c.tEnd - c.tStart < k * D) (hk2 : k * D < c.tEnd - c.tStart + c.eps * c.dt) :
    (callsOf j (runFuel c u0 trs fuel).trace).length =
      (Int.floor ((c.tEnd - c.tStart) / D)).toNat + 2 := by
  obtain ⟨m, hnear, hiff⟩ := served_exactly_once_within_half_step c hdt he0 he1.le D c.tStart hD C hC
    u0 trs j tr0 hj hs hdue (by linarith) fuel
  have hiff := hiff h
  rw [run_tFinal_whole c hdt he0 he1 N hN u0 trs fuel h] at hiff
  have hlen : (callsOf j (runFuel c u0 trs fuel).trace).length = m := by
    have := hnear.length_eq; simpa using this.symm
  have hD0 : 0 < D := lt_of_lt_of_le hdt hD
  have hT0 : 0 ≤ c.tEnd - c.tStart := by rw [hN]; positivity
  set T := c.tEnd - c.tStart with hT
  have hf0 : 0 ≤ Int.floor (T / D) := Int.floor_nonneg.mpr (div_nonneg hT0 hD0.le)
  obtain ⟨q, hq⟩ : ∃ q : Nat, (q : Int) = Int.floor (T / D) := ⟨(Int.floor (T / D)).toNat, by omega⟩
  have hqK : (q : K) = (Int.floor (T / D) : K) := by
    have := congrArg (fun z : Int => (z : K)) hq; simpa using this
  have hq1 : (q : K) * D ≤ T := by
    rw [hqK]; exact (le_div_iff₀ hD0).mp (Int.floor_le _)
  have hq2 : T < ((q : K) + 1) * D := by
    rw [hqK]; exact (div_lt_iff₀ hD0).mp (Int.lt_floor_add_one _)
  have hea : c.eps * c.dt < c.dt := by nlinarith
  -- the scheduled time in the sliver is number q + 1
  have hkq : k = q + 1 := by
    have h1 : q < k := by
      by_contra hcon
      have : (k : K) ≤ (q : K) := by exact_mod_cast not_lt.mp hcon
      have : (k : K) * D ≤ (q : K) * D := mul_le_mul_of_nonneg_right this hD0.le
      linarith
    have h2 : k < q + 2 := by
      by_contra hcon
      have : ((q + 2 : Nat) : K) ≤ (k : K) := by exact_mod_cast not_lt.mp hcon
      have : ((q + 2 : Nat) : K) * D ≤ (k : K) * D := mul_le_mul_of_nonneg_right this hD0.le
      push_cast at this
      nlinarith
    omega
  subst hkq
  have hlo : q + 1 < m := (hiff (q + 1)).mp (by linarith)
  have hhi : ¬ q + 2 < m := fun hlt => by
    have := (hiff (q + 2)).mpr hlt
    push_cast at this
    nlinarith
  rw [hlen, ← hq]
  simp only [Int.toNat_natCast]
  omega

/-- **frame_count_general**: on an arbitrary range `t_end ≥ t_start` every scheduled time before
`t_end` is served, and no scheduled time at or beyond `t_end + (1 + eps)*dt` is: with the sliver
guard at most one call more than `⌊T/D⌋ + 1`.  (A scheduled time exactly at `t_end` is missed
only in the corner `t_final = t_end - eps*dt`, see `corner_scheduled_time_at_t_end_missed`.) -/
theorem frame_count_general (c : Cfg K S σ) (hdt : 0 < c.dt) (he0 : 0 < c.eps)
    (he1 : c.eps < 1 / 2) (hT : c.tStart ≤ c.tEnd) (D : K) (hD : c.dt ≤ D)
    (C : σ → K → Prop) (hC : ConstLike c.nxt D C)
    (u0 : S) (trs : List (Tracker K S σ)) (j : Nat) (tr0 : Tracker K S σ) (hj : trs[j]? = some tr0)
    (hs : C tr0.sched c.tStart) (hdue : tr0.due = some c.tStart) (fuel : Nat)
    (h : (runFuel c u0 trs fuel).exit.reachedEnd) :
    (∀ k : Nat, c.tStart + k * D < c.tEnd → k < (callsOf j (runFuel c u0 trs fuel).trace).length) ∧
    (∀ k : Nat, k < (callsOf j (runFuel c u0 trs fuel).trace).length →
      c.tStart + k * D < c.tEnd + c.dt + c.eps * c.dt) ∧
    (∀ q : Nat, c.tEnd - c.tStart + c.eps * c.dt ≤ ((q : K) + 1) * D →
      (callsOf j (runFuel c u0 trs fuel).trace).length ≤ q + 2) := by
  obtain ⟨m, hnear, hiff⟩ := served_exactly_once_within_half_step c hdt he0 he1.le D c.tStart hD C hC
    u0 trs j tr0 hj hs hdue (by linarith) fuel
  have hiff := hiff h
  have hlen : (callsOf j (runFuel c u0 trs fuel).trace).length = m := by
    have := hnear.length_eq; simpa using this.symm
  -- where the run ends: t_end - eps*dt ≤ t_final < t_end + dt
  have hsteps := run_steps_of_reachedEnd c hdt he1 u0 trs fuel h
  have hl := run_tFinal_lattice c u0 trs fuel
  set x := (c.tEnd - c.tStart) / c.dt - c.eps with hx
  have hxdt : x * c.dt = c.tEnd - c.tStart - c.eps * c.dt := by rw [hx]; field_simp
  have hcl : -1 < x := by
    have : 0 ≤ (c.tEnd - c.tStart) / c.dt := div_nonneg (by linarith) hdt.le
    rw [hx]; linarith
  have hceil0 : 0 ≤ Int.ceil x := by
    have : (-1 : Int) < Int.ceil x := by rw [Int.lt_ceil]; push_cast; exact hcl
    omega
  have hNK : ((finalStepCount c : Nat) : K) = (Int.ceil x : K) := by
    have : ((finalStepCount c : Nat) : Int) = Int.ceil x := by unfold finalStepCount; rw [← hx]; omega
    have := congrArg (fun z : Int => (z : K)) this
    simpa using this
  have h1 : x ≤ (Int.ceil x : K) := Int.le_ceil x
  have h2 : (Int.ceil x : K) < x + 1 := Int.ceil_lt_add_one x
  have lo : c.tEnd - c.eps * c.dt ≤ (runFuel c u0 trs fuel).tFinal := by
    rw [hl, hsteps, hNK]; nlinarith
  have hi : (runFuel c u0 trs fuel).tFinal < c.tEnd + c.dt := by
    rw [hl, hsteps, hNK]; nlinarith
  have hD0 : 0 < D := lt_of_lt_of_le hdt hD
  refine ⟨?_, ?_, ?_⟩
  · intro k hk; rw [hlen]; exact (hiff k).mp (by linarith)
  · intro k hk; rw [hlen] at hk
    have := (hiff k).mpr hk; linarith
  · intro q hq
    rw [hlen]
    by_contra hcon
    have : q + 2 < m := by omega
    have := (hiff (q + 2)).mpr this
    push_cast at this
    nlinarith

/-! ### what storage and data trackers record -/

theorem handle_records (tr : Tracker K S σ) (t : K) (u : S) (hk : tr.kind ≠ .callback)
    (hno : tr.stopAt tr.calls t u = none) :
    (tr.handle t u).1.times = tr.times ++ [t] ∧ (tr.handle t u).1.frames = tr.frames ++ [u] := by
  unfold Tracker.handle
  rw [hno]
  cases hkind : tr.kind with
  | callback => exact absurd hkind hk
  | storage => exact ⟨rfl, rfl⟩
  | data => exact ⟨rfl, rfl⟩

/-- invariant: the tracker at position `j` (a storage or data tracker that never raises) has
recorded exactly its calls -/
def RecInv (tr0 : Tracker K S σ) (j : Nat) (st : LState K S σ) : Prop :=
  ∃ tr, st.trs[j]? = some tr ∧ tr.kind = tr0.kind ∧ tr.stopAt = tr0.stopAt ∧
    tr.times = tr0.times ++ callsOf j st.trace ∧ tr.frames = tr0.frames ++ seenBy j st.trace

theorem recInv_handle (nxt : σ → K → σ × Option K) (atol : K) (tr0 : Tracker K S σ)
    (hk : tr0.kind ≠ .callback) (hro : tr0.ReadOnly) (j : Nat) (st : LState K S σ)
    (h : RecInv tr0 j st) :
    ∃ tr, (handleAll nxt atol st.t st.u 0 st.trs).1[j]? = some tr ∧ tr.kind = tr0.kind ∧
      tr.stopAt = tr0.stopAt ∧
      tr.times = tr0.times ++ callsOf j (st.trace ++ (handleAll nxt atol st.t st.u 0 st.trs).2.1) ∧
      tr.frames = tr0.frames ++ seenBy j (st.trace ++ (handleAll nxt atol st.t st.u 0 st.trs).2.1) := by
  obtain ⟨tr, hj, k1, k2, k3, k4⟩ := h
  have hget := handleAll_getElem? nxt atol st.t st.u st.trs 0 j tr hj
  have hcalls := handleAll_callsOf nxt atol st.t st.u st.trs j tr hj
  have hseen := handleAll_seenBy nxt atol st.t st.u st.trs j tr hj
  rw [callsOf_append, seenBy_append, hcalls, hseen]
  by_cases hd : isDue tr.due atol st.t = true
  · refine ⟨served nxt st.t st.u tr, by rw [hget, if_pos hd], ?_, ?_, ?_, ?_⟩
    · have := handle_ident tr st.t st.u
      have e : (tr.handle st.t st.u).1.kind = tr.kind := congrArg (fun p => p.1) this
      exact e.trans k1
    · have := handle_ident tr st.t st.u
      have e : (tr.handle st.t st.u).1.stopAt = tr.stopAt := congrArg (fun p => p.2.1) this
      exact e.trans k2
    · have hno : tr.stopAt tr.calls st.t st.u = none := by rw [k2]; exact hro _ _ _
      obtain ⟨r1, _⟩ := handle_records tr st.t st.u (by rw [k1]; exact hk) hno
      show (tr.handle st.t st.u).1.times = _
      rw [r1, k3, if_pos hd, List.append_assoc]
    · have hno : tr.stopAt tr.calls st.t st.u = none := by rw [k2]; exact hro _ _ _
      obtain ⟨_, r2⟩ := handle_records tr st.t st.u (by rw [k1]; exact hk) hno
      show (tr.handle st.t st.u).1.frames = _
      rw [r2, k4, if_pos hd, List.append_assoc]
  · refine ⟨tr, by rw [hget, if_neg hd], k1, k2, ?_, ?_⟩
    · rw [if_neg hd, List.append_nil]; exact k3
    · rw [if_neg hd, List.append_nil]; exact k4

theorem finalizeAll_getElem? (l : List (Tracker K S σ)) (j : Nat) (tr : Tracker K S σ)
    (h : l[j]? = some tr) :
    (finalizeAll l)[j]? = some { tr with finalized := tr.finalized + 1 } := by
  unfold finalizeAll; rw [List.getElem?_map, h]; rfl

/-- **recorded_frames_are_calls**: a `StorageTracker`/`MemoryStorage` or `DataTracker` at list
position `j` that never raises ends the run having recorded exactly the times of its calls and
the states shown to them, in order (appended to what it held before) - on every path. -/
theorem recorded_frames_are_calls (c : Cfg K S σ) (u0 : S) (trs : List (Tracker K S σ)) (j : Nat)
    (tr0 : Tracker K S σ) (hj : trs[j]? = some tr0) (hk : tr0.kind ≠ .callback) (hro : tr0.ReadOnly)
    (fuel : Nat) :
    ∃ tr, (runFuel c u0 trs fuel).trackers[j]? = some tr ∧
      tr.times = tr0.times ++ callsOf j (runFuel c u0 trs fuel).trace ∧
      tr.frames = tr0.frames ++ seenBy j (runFuel c u0 trs fuel).trace ∧
      tr.finalized = tr0.finalized + 1 := by
  have h0 : RecInv tr0 j (initState c u0 trs) ∧ ∃ tr, (initState c u0 trs).trs[j]? = some tr ∧ tr.finalized = tr0.finalized :=
    ⟨⟨tr0, hj, rfl, rfl, by simp [initState, callsOf], by simp [initState, seenBy]⟩, tr0, hj, rfl⟩
  -- the `finalized` counter is carried along with the identity invariant of `Head`
  obtain ⟨st, ⟨hinv, hh⟩, _, _, _, sh⟩ := run_shape c
    (fun st => RecInv tr0 j st ∧ Head c u0 trs st)
    (fun st h _ _ => ⟨by
        obtain ⟨tr, a, b, c', d, e⟩ := recInv_handle c.nxt (half * c.dt) tr0 hk hro j st h.1
        exact ⟨tr, a, b, c', d, e⟩, head_advance c u0 trs st h.2⟩)
    u0 trs fuel ⟨h0.1, head_init c u0 trs⟩
  have hfinj : ∀ (l : List (Tracker K S σ)) (tr : Tracker K S σ), l.map Tracker.ident = trs.map Tracker.ident →
      l[j]? = some tr → tr.finalized = tr0.finalized := by
    intro l tr hl hlj
    have h1 : (l.map Tracker.ident)[j]? = some tr.ident := by rw [List.getElem?_map, hlj]; rfl
    have h2 : (trs.map Tracker.ident)[j]? = some tr0.ident := by rw [List.getElem?_map, hj]; rfl
    rw [hl, h2] at h1
    have := Option.some.inj h1
    exact (congrArg (fun p => p.2.2) this).symm
  rcases sh with ⟨_, ht, hk'⟩ | ⟨_, ht, hk', _⟩ | ⟨_, r, _, _, ht, hk'⟩
  · obtain ⟨tr, a, _, _, d, e⟩ := hinv
    refine ⟨_, by rw [hk']; exact finalizeAll_getElem? _ j tr a, by rw [ht]; exact d, by rw [ht]; exact e, ?_⟩
    show tr.finalized + 1 = _
    rw [hfinj st.trs tr hh.ident a]
  · obtain ⟨tr, a, _, _, d, e⟩ := recInv_handle c.nxt (c.eps * c.dt) tr0 hk hro j st hinv
    refine ⟨_, by rw [hk']; exact finalizeAll_getElem? _ j tr a, by rw [ht]; exact d, by rw [ht]; exact e, ?_⟩
    show tr.finalized + 1 = _
    rw [hfinj (finalH c st).1 tr (by unfold finalH; rw [handleAll_ident]; exact hh.ident) a]
  · obtain ⟨tr, a, _, _, d, e⟩ := recInv_handle c.nxt (half * c.dt) tr0 hk hro j st hinv
    refine ⟨_, by rw [hk']; exact finalizeAll_getElem? _ j tr a, by rw [ht]; exact d, by rw [ht]; exact e, ?_⟩
    show tr.finalized + 1 = _
    rw [hfinj (mainHandle c st).1 tr (by unfold mainHandle; rw [handleAll_ident]; exact hh.ident) a]

/-! ### the concrete interrupt classes -/

/-- `ConstantInterrupts(D)` of the model's schedule type is `ConstLike` -/
theorem sched_constLike (D : K) :
    ConstLike (Sched.next (K := K)) D (fun s tn => s = Sched.const D tn) := by
  intro s tn t h
  subst h
  exact ⟨rfl, rfl⟩


/-- **storage_frame_count** (the property as a user reads it, for the concrete classes): a
`StorageTracker(interrupts=D)` / `DataTracker` with `D ≥ dt` among arbitrary other trackers, on a
range of `N` whole steps that is run to its end, holds `⌊T/D⌋ + 1` frames, recorded at its call
times, each within `dt/2` of `t_start + k*D`. -/
theorem storage_frame_count (dt tStart tEnd eps : K) (step : S → K → S) (u0 : S)
    (specs : List (TrackerSpec K S)) (hdt : 0 < dt) (he0 : 0 < eps) (he1 : eps < 1 / 2)
    (N : Nat) (hN : tEnd - tStart = N * dt) (D : K) (hD : dt ≤ D)
    (j : Nat) (sp : TrackerSpec K S) (hj : specs[j]? = some sp) (hsched : sp.sched = .const D none)
    (hkind : sp.kind ≠ .callback) (hro : ∀ n t u, sp.stopAt n t u = none)
    (h : (runSpec dt tStart tEnd eps step u0 specs).exit.reachedEnd)
    (guard : ∀ k : Nat, ¬ (tEnd - tStart < k * D ∧ k * D < tEnd - tStart + eps * dt)) :
    ∃ tr, (runSpec dt tStart tEnd eps step u0 specs).trackers[j]? = some tr ∧
      tr.times.length = (Int.floor ((tEnd - tStart) / D)).toNat + 1 ∧
      tr.frames.length = tr.times.length ∧
      List.Forall₂ (Near dt D tStart) (List.range tr.times.length) tr.times := by
  set c : Cfg K S (Sched K) :=
    { dt := dt, tStart := tStart, tEnd := tEnd, eps := eps, step := step, nxt := Sched.next } with hc
  have hj' : (specs.map (fun s => s.init tStart))[j]? = some (sp.init tStart) := by
    rw [List.getElem?_map, hj]; rfl
  have hs0 : (sp.init tStart).sched = Sched.const D tStart ∧ (sp.init tStart).due = some tStart := by
    unfold TrackerSpec.init
    rw [hsched]
    exact ⟨rfl, rfl⟩
  have h' : (runFuel c u0 (specs.map (fun s => s.init tStart)) (defaultFuel c)).exit.reachedEnd := h
  show ∃ tr, (runFuel c u0 (specs.map (fun s => s.init tStart)) (defaultFuel c)).trackers[j]? = some tr ∧ _
  have hcount := frame_count_floor c hdt he0 he1 N hN D hD _ (sched_constLike D) u0
    (specs.map (fun s => s.init tStart)) j (sp.init tStart) hj' hs0.1 hs0.2 (defaultFuel c) h' guard
  obtain ⟨m, hnear, _⟩ := served_exactly_once_within_half_step c hdt he0 he1.le D tStart hD _
    (sched_constLike D) u0 (specs.map (fun s => s.init tStart)) j (sp.init tStart) hj' hs0.1 hs0.2
    (by show tStart - dt / 2 ≤ tStart; linarith) (defaultFuel c)
  obtain ⟨tr, h1, h2, h3, _⟩ := recorded_frames_are_calls c u0 (specs.map (fun s => s.init tStart)) j
    (sp.init tStart) hj' hkind hro (defaultFuel c)
  have e2 : tr.times = callsOf j (runFuel c u0 (specs.map (fun s => s.init tStart)) (defaultFuel c)).trace := by
    rw [h2]; rfl
  have e3 : tr.frames = seenBy j (runFuel c u0 (specs.map (fun s => s.init tStart)) (defaultFuel c)).trace := by
    rw [h3]; rfl
  refine ⟨tr, h1, by rw [e2]; exact hcount, ?_, ?_⟩
  · rw [e2, e3]; unfold callsOf seenBy; simp
  · have hlen : (callsOf j (runFuel c u0 (specs.map (fun s => s.init tStart)) (defaultFuel c)).trace).length = m := by
      have := hnear.length_eq; simpa using this.symm
    rw [e2, hlen]; exact hnear

theorem constInit_ge' (ts : Option K) (t : K) : t ≤ Interrupts.constInit ts t := by
  unfold Interrupts.constInit Interrupts.pyMax
  cases ts with
  | none => exact le_refl _
  | some s => simp only; split_ifs with h <;> [exact h.le; exact le_refl _]

/-- **served_exactly_once_constant_interrupts**: the statement for the concrete classes, including
`ConstantInterrupts(D, t_start=ts)`: the schedule starts at `max(t_start, ts)` -/
theorem served_exactly_once_constant_interrupts (dt tStart tEnd eps : K) (step : S → K → S) (u0 : S)
    (specs : List (TrackerSpec K S)) (hdt : 0 < dt) (he0 : 0 < eps) (he1 : eps ≤ 1 / 2)
    (D : K) (hD : dt ≤ D) (j : Nat) (sp : TrackerSpec K S) (hj : specs[j]? = some sp)
    (ts : Option K) (hsched : sp.sched = .const D ts) :
    ∃ m : Nat,
      List.Forall₂ (Near dt D (Interrupts.constInit ts tStart)) (List.range m)
        (callsOf j (runSpec dt tStart tEnd eps step u0 specs).trace) ∧
      ((runSpec dt tStart tEnd eps step u0 specs).exit.reachedEnd →
        ∀ k : Nat, Interrupts.constInit ts tStart + k * D <
          (runSpec dt tStart tEnd eps step u0 specs).tFinal + eps * dt ↔ k < m) := by
  set c : Cfg K S (Sched K) :=
    { dt := dt, tStart := tStart, tEnd := tEnd, eps := eps, step := step, nxt := Sched.next } with hc
  have hj' : (specs.map (fun s => s.init tStart))[j]? = some (sp.init tStart) := by
    rw [List.getElem?_map, hj]; rfl
  have hs0 : (sp.init tStart).sched = Sched.const D (Interrupts.constInit ts tStart) ∧
      (sp.init tStart).due = some (Interrupts.constInit ts tStart) := by
    unfold TrackerSpec.init
    rw [hsched]
    exact ⟨rfl, rfl⟩
  have hge := constInit_ge' ts tStart
  exact served_exactly_once_within_half_step c hdt he0 he1 D _ hD _ (sched_constLike D) u0
    (specs.map (fun s => s.init tStart)) j (sp.init tStart) hj' hs0.1 hs0.2
    (by show tStart - dt / 2 ≤ _; linarith) (defaultFuel c)

/-! ### non-vacuity and corner witnesses (concrete runs at `Rat`) -/

/-- dt = 1/4 on [0, 3] (12 steps); tracker 0: storage every 5/8 (= 2.5 dt, rounding ties);
tracker 1: callback at the fixed times 5/4 and 2 -/
def exRun (stop0 stop1 : Nat → Option StopReq) : Result Rat Rat (Sched Rat) :=
  runSpec (1 / 4) 0 3 (1 / 1000000) (fun u t => u + 1 / 4 * t) 0
    [ { kind := .storage, sched := .const (5 / 8) none, stopAt := fun n _ _ => stop0 n },
      { kind := .callback, sched := .fixed [5 / 4, 2], stopAt := fun n _ _ => stop1 n } ]

/-- read-only: ⌊3/(5/8)⌋ + 1 = 5 frames, each within dt/2 = 1/8 of k*5/8 (0, 5/8, 5/4, 15/8, 5/2);
the scheduled time 5/8 is a rounding tie (2.5 steps): round-half-even goes to t = 1/2, where the
tracker is not yet due (`1/2 > 5/8 - 1/8` is false), so it is served one step later at distance
exactly dt/2 -/
example : ((exRun (fun _ => none) (fun _ => none)).trackers.map (fun tr => tr.times)) =
    [[0, 3 / 4, 5 / 4, 2, 5 / 2], []] ∧ (exRun (fun _ => none) (fun _ => none)).exit = .final ∧
    (exRun (fun _ => none) (fun _ => none)).trace.map (fun e => (e.1, e.2.1)) =
      [(0, 0), (0, 3 / 4), (0, 5 / 4), (1, 5 / 4), (0, 2), (1, 2), (0, 5 / 2)] := by decide +kernel

/-- both trackers are due at t = 5/4; the first raises `StopIteration()`, the second
`FinishedSimulation("done")`: both are served, the last request is reported, the run ends at 5/4
after 5 steps, both trackers are finalised -/
example :
    let R := exRun (fun n => if n = 2 then some (.stopIteration "") else none)
      (fun n => if n = 0 then some (.finished "done") else none)
    R.exit = .stopped (.finished "done") ∧ R.exit.reason = "done" ∧ R.exit.successful = true ∧
      R.tFinal = 5 / 4 ∧ R.steps = 5 ∧
      R.trace.map (fun e => (e.1, e.2.1)) = [(0, 0), (0, 3 / 4), (0, 5 / 4), (1, 5 / 4)] ∧
      R.trackers.map (fun tr => tr.finalized) = [1, 1] ∧
      R.trackers.map (fun tr => tr.times) = [[0, 3 / 4], []] := by decide +kernel

/-- a stop raised by the final handle (tracker 0 is due at t_end = 3 when D = 3/4) -/
example :
    let R := runSpec (1 / 4 : Rat) 0 3 (1 / 1000000) (fun u _ => u + 1 / 4) (0 : Rat)
      [ { kind := .data, sched := .const (3 / 4) none,
          stopAt := fun n _ _ => if n = 4 then some (.stopIteration "") else none } ]
    R.exit = .finalStopped (.stopIteration "") ∧ R.exit.reason = "Tracker raised StopIteration" ∧
      R.exit.successful = false ∧ R.tFinal = 3 ∧ R.steps = 12 ∧
      R.trackers.map (fun tr => (tr.times, tr.frames)) =
        [([0, 3 / 4, 3 / 2, 9 / 4, 3], [0, 3 / 4, 3 / 2, 9 / 4])] := by decide +kernel

/-- **corner_scheduled_time_at_t_end_missed**: the guard of the general-range statement is
needed.  dt = 1, range [0, 1 + 10^-6], interval D = 1 + 10^-6: the scheduled time D = t_end is not
served, because the loop ends at t_final = 1 = t_end - eps*dt and the final handle tests
`t > t_next - eps*dt` strictly. -/
theorem corner_scheduled_time_at_t_end_missed :
    let R := runSpec (1 : Rat) 0 (1000001 / 1000000) (1 / 1000000) (fun u _ => u + 1) (0 : Rat)
      [ { kind := .storage, sched := .const (1000001 / 1000000) none, stopAt := fun _ _ _ => none } ]
    R.exit = .final ∧ R.tFinal = 1 ∧ R.steps = 1 ∧ R.trackers.map (fun tr => tr.times) = [[0]] := by
  decide +kernel

/-- the extra frame of a range that is not a whole number of steps need not be at the final time:
dt = 1, range [0, 23/10], D = 6/5: the scheduled time 12/5 > t_end is served at t = 2, the run
ends at t = 3 -/
theorem extra_frame_not_at_final_time :
    let R := runSpec (1 : Rat) 0 (23 / 10) (1 / 1000000) (fun u _ => u + 1) (0 : Rat)
      [ { kind := .storage, sched := .const (6 / 5) none, stopAt := fun _ _ _ => none } ]
    R.exit = .final ∧ R.tFinal = 3 ∧ R.trackers.map (fun tr => tr.times) = [[0, 1, 2]] := by
  decide +kernel

/-- **sliver_frame_on_whole_range**: on a range that is a whole number of steps the frame count need
not be `⌊T/D⌋ + 1`: dt = 1, range [0, 2], D = 1 + 2*10^-7: `⌊T/D⌋ + 1 = 2`, but the scheduled time
`2D = 2 + 4*10^-7` lies in `(t_end, t_end + eps*dt)` and is served by the final handle: frames at
0, 1, 2 -/
theorem sliver_frame_on_whole_range :
    let R := runSpec (1 : Rat) 0 2 (1 / 1000000) (fun u _ => u + 1) (0 : Rat)
      [ { kind := .storage, sched := .const (10000002 / 10000000) none, stopAt := fun _ _ _ => none } ]
    R.exit = .final ∧ R.tFinal = 2 ∧ R.steps = 2 ∧ R.trackers.map (fun tr => tr.times) = [[0, 1, 2]] ∧
      -- ⌊T/D⌋ = 1:  1*D ≤ T < 2*D
      (1 * (10000002 / 10000000 : Rat) ≤ 2 ∧ (2 : Rat) < 2 * (10000002 / 10000000)) := by
  decide +kernel


/-! ### steppers that reach their target exactly (ScipySolver, adaptive steppers) -/

/-- `x` serves the `k`-th scheduled time exactly - or it is the call of the final handle at
`t_end` for a scheduled time in the sliver `(t_end, t_end + eps*dt)` -/
def ExactOr (c : Cfg K S σ) (D τ0 : K) (k : Nat) (x : K) : Prop :=
  x = τ0 + k * D ∨ (x = c.tEnd ∧ c.tEnd < τ0 + k * D ∧ τ0 + k * D < c.tEnd + c.eps * c.dt)

/-- loop-head invariant of a run with an exact stepper and a *single* tracker with constant
schedule: `m` scheduled times served, each exactly; the loop time is the pending time itself,
or `t_end` before it -/
structure ExInv (c : Cfg K S σ) (D τ0 : K) (C : σ → K → Prop) (st : LState K S σ) (m : Nat) : Prop where
  tr : ∃ tr, st.trs = [tr] ∧ C tr.sched (τ0 + m * D) ∧ tr.due = some (τ0 + m * D)
  pos : st.t = τ0 + m * D ∨ (st.t = c.tEnd ∧ c.tEnd < τ0 + m * D)
  calls : List.Forall₂ (fun (k : Nat) (x : K) => x = τ0 + k * D) (List.range m) (callsOf 0 st.trace)

theorem exactOr_of_exact (c : Cfg K S σ) (D τ0 : K) (m : Nat) (l : List K)
    (h : List.Forall₂ (fun (k : Nat) (x : K) => x = τ0 + k * D) (List.range m) l) :
    List.Forall₂ (ExactOr c D τ0) (List.range m) l :=
  h.imp (fun _ _ e => Or.inl e)

/-- one `handle` (tolerance `atol > 0`) at a state satisfying `ExInv` whose time is the pending
time: the tracker is served, exactly at its scheduled time, and advances by `D` -/
theorem exInv_handle_on_time (c : Cfg K S σ) (D τ0 : K) (hD : 0 < D) (C : σ → K → Prop)
    (hC : ConstLike c.nxt D C) (st : LState K S σ) (m : Nat) (h : ExInv c D τ0 C st m)
    (ht : st.t = τ0 + m * D) (atol : K) (ha : 0 < atol) :
    (∃ tr, (handleAll c.nxt atol st.t st.u 0 st.trs).1 = [tr] ∧ C tr.sched (τ0 + ((m + 1 : Nat) : K) * D) ∧
      tr.due = some (τ0 + ((m + 1 : Nat) : K) * D)) ∧
    List.Forall₂ (fun (k : Nat) (x : K) => x = τ0 + k * D) (List.range (m + 1))
      (callsOf 0 (st.trace ++ (handleAll c.nxt atol st.t st.u 0 st.trs).2.1)) := by
  obtain ⟨tr, htrs, hs, hdue⟩ := h.tr
  have hj : st.trs[0]? = some tr := by rw [htrs]; rfl
  have hd : isDue tr.due atol st.t = true := by
    rw [hdue, ht]; simp [isDue]; linarith
  obtain ⟨n1, n2⟩ := hC tr.sched (τ0 + m * D) st.t hs
  have hnc : Interrupts.constNext (τ0 + m * D) D st.t = τ0 + ((m + 1 : Nat) : K) * D := by
    rw [constNext_no_catchup' _ _ _ (by rw [ht]; linarith)]; push_cast; ring
  refine ⟨⟨served c.nxt st.t st.u tr, ?_, ?_, ?_⟩, ?_⟩
  · rw [handleAll_trackers, htrs]; simp [hd]
  · show C (c.nxt tr.sched st.t).1 _
    rw [← hnc]; exact n2
  · show (c.nxt tr.sched st.t).2 = _
    rw [n1, hnc]
  · rw [callsOf_append, handleAll_callsOf c.nxt atol st.t st.u st.trs 0 tr hj, if_pos hd, List.range_succ]
    exact List.rel_append h.calls (List.Forall₂.cons ht List.Forall₂.nil)

/-- **adaptive_served_exactly_partial** (exact stepper, single tracker, fixed tolerances): with a
stepper that reaches its target exactly and tolerances `eps*dt`, `dt/2` that stay fixed
(`ScipySolver(dt)`), a tracker with constant interval `D > 0` starting at `t_start`, alone in the
collection, is called exactly at its scheduled times `t_start + k*D` - on every path; the only
exception is the call of the final handle at `t_end` for a scheduled time in the sliver
`(t_end, t_end + eps*dt)`.
PARTIAL with respect to the clause "exactly at it for adaptive steppers": (1) with a second tracker
the clause is false for the code that exists (`adaptive_two_trackers_served_early`, known finding);
(2) the adaptive Euler / Runge-Kutta steppers change `dt` - and with it both tolerances - during the
run and overshoot a target by up to `dt_min = 1e-10`: neither is modelled (monitor only). -/
theorem adaptive_served_exactly_partial (c : Cfg K S σ) (flow : S → K → K → S) (hdt : 0 < c.dt)
    (he0 : 0 < c.eps) (D τ0 : K) (hD : 0 < D) (C : σ → K → Prop) (hC : ConstLike c.nxt D C) :
    ∀ (fuel : Nat) (st : LState K S σ) (m : Nat), ExInv c D τ0 C st m →
      ∃ m', List.Forall₂ (ExactOr c D τ0) (List.range m')
        (callsOf 0 (finalHandle c (loopExact c flow fuel st)).1.trace) := by
  have hea : 0 < c.eps * c.dt := mul_pos he0 hdt
  have hh : (half : K) * c.dt = c.dt / 2 := half_mul _
  intro fuel
  induction fuel with
  | zero =>
    intro st m h
    exact ⟨m, exactOr_of_exact c D τ0 m _ h.calls⟩
  | succ n ih =>
    intro st m h
    unfold loopExact iterOnceExact
    by_cases hc : st.t < c.tEnd - c.eps * c.dt
    · rw [if_pos hc]
      have ht : st.t = τ0 + m * D := by
        rcases h.pos with h1 | ⟨h1, _⟩
        · exact h1
        · rw [h1] at hc; linarith
      obtain ⟨⟨tr', htrs', hs', hdue'⟩, hcalls'⟩ :=
        exInv_handle_on_time c D τ0 hD C hC st m h ht (half * c.dt) (by rw [hh]; linarith)
      cases herr : (handleAll c.nxt (half * c.dt) st.t st.u 0 st.trs).2.2 with
      | some r =>
        simp only [herr]
        exact ⟨m + 1, exactOr_of_exact c D τ0 _ _ hcalls'⟩
      | none =>
        simp only [herr]
        apply ih _ (m + 1)
        refine ⟨⟨tr', htrs', hs', hdue'⟩, ?_, hcalls'⟩
        show clip (nextAction (handleAll c.nxt (half * c.dt) st.t st.u 0 st.trs).1) c.tEnd = _ ∨ _
        rw [htrs']
        simp only [nextAction, hdue', optMin, clip]
        split_ifs with hlt
        · right; exact ⟨rfl, hlt⟩
        · left; rfl
    · rw [if_neg hc]
      simp only [finalHandle]
      rcases h.pos with ht | ⟨ht, hlt⟩
      · obtain ⟨_, hcalls'⟩ := exInv_handle_on_time c D τ0 hD C hC st m h ht (c.eps * c.dt) hea
        exact ⟨m + 1, exactOr_of_exact c D τ0 _ _ hcalls'⟩
      · obtain ⟨tr, htrs, hs, hdue⟩ := h.tr
        have hj : st.trs[0]? = some tr := by rw [htrs]; rfl
        by_cases hd : isDue tr.due (c.eps * c.dt) st.t = true
        · have hd' : τ0 + m * D - c.eps * c.dt < st.t := by
            rw [hdue] at hd; simpa [isDue] using hd
          refine ⟨m + 1, ?_⟩
          rw [callsOf_append, handleAll_callsOf c.nxt _ st.t st.u st.trs 0 tr hj, if_pos hd, List.range_succ]
          refine List.rel_append (exactOr_of_exact c D τ0 m _ h.calls) (List.Forall₂.cons ?_ List.Forall₂.nil)
          right
          exact ⟨ht, hlt, by rw [ht] at hd'; linarith⟩
        · refine ⟨m, ?_⟩
          rw [callsOf_append, handleAll_callsOf c.nxt _ st.t st.u st.trs 0 tr hj, if_neg hd, List.append_nil]
          exact exactOr_of_exact c D τ0 m _ h.calls

/-- the statement for a whole run with the concrete `ConstantInterrupts(D)` -/
theorem adaptive_served_exactly_run_partial (dt tStart tEnd eps : K) (flow : S → K → K → S) (u0 : S)
    (hdt : 0 < dt) (he0 : 0 < eps) (D : K) (hD : 0 < D) (sp : TrackerSpec K S)
    (hsched : sp.sched = .const D none) (fuel : Nat) :
    ∃ m, List.Forall₂
      (ExactOr ({ dt := dt, tStart := tStart, tEnd := tEnd, eps := eps, step := fun u _ => u,
                  nxt := Sched.next } : Cfg K S (Sched K)) D tStart) (List.range m)
      (callsOf 0 (runExactSpec dt tStart tEnd eps flow u0 [sp] fuel).trace) := by
  set c : Cfg K S (Sched K) :=
    { dt := dt, tStart := tStart, tEnd := tEnd, eps := eps, step := fun u _ => u, nxt := Sched.next }
  have hs0 : (sp.init tStart).sched = Sched.const D tStart ∧ (sp.init tStart).due = some tStart := by
    unfold TrackerSpec.init
    rw [hsched]
    exact ⟨rfl, rfl⟩
  exact adaptive_served_exactly_partial c flow hdt he0 D tStart hD _ (sched_constLike D) fuel
    { t := tStart, u := u0, steps := 0, trs := [sp.init tStart], trace := [], iters := 0 } 0
    ⟨⟨sp.init tStart, rfl, by simpa using hs0.1, by simpa using hs0.2⟩, Or.inl (by simp),
      by simp [callsOf]⟩

/-- **adaptive_two_trackers_served_early**: with a second tracker "exactly at it" fails.  Exact
stepper, dt = 1/10 (tolerance dt/2 = 1/20), range [0, 3]; tracker 0 every 1, tracker 1 every
97/100: tracker 0 is called at 0, 97/100, 2, 3 instead of 0, 1, 2, 3: its scheduled time 1 is
served 3/100 early, because it is handled together with tracker 1 as soon as `t > t_next - dt/2`
(the real `ScipySolver(dt=0.1)` run records the same times). -/
theorem adaptive_two_trackers_served_early :
    let R := runExactSpec (1 / 10 : Rat) 0 3 (1 / 1000000) (fun u t s => u + (s - t)) (0 : Rat)
      [ { kind := .storage, sched := .const 1 none, stopAt := fun _ _ _ => none },
        { kind := .storage, sched := .const (97 / 100) none, stopAt := fun _ _ _ => none } ] 100
    R.exit = .final ∧ R.tFinal = 3 ∧
      R.trackers.map (fun tr => tr.times) =
        [[0, 97 / 100, 2, 3], [0, 97 / 100, 97 / 50, 291 / 100]] := by
  decide +kernel

/-! ### any schedule whose scheduled times are at least `dt` apart (fixed lists, geometric, logarithmic) -/

/-- a schedule as a sequence of scheduled times `τ 0, τ 1, …` (`none`: exhausted, for ever) whose consecutive
members are at least `dt` apart - the analogue of `D ≥ dt` -/
structure Spaced (dt : K) (τ : Nat → Option K) : Prop where
  gap : ∀ m a b, τ m = some a → τ (m + 1) = some b → a + dt ≤ b
  done : ∀ m, τ m = none → τ (m + 1) = none

/-- `nxt` acts on the schedule states `s` with `C s m` like an interrupt object whose pending time is the `m`-th
scheduled time: asked at a time `t` not later than `dt/2` after it (the tracker has just been served), it answers the
next scheduled time -/
def SeqLike (nxt : σ → K → σ × Option K) (dt : K) (τ : Nat → Option K) (C : σ → Nat → Prop) : Prop :=
  ∀ s m a t, C s m → τ m = some a → t ≤ a + dt / 2 → (nxt s t).2 = τ (m + 1) ∧ C (nxt s t).1 (m + 1)

/-- the `k`-th call serves the `k`-th scheduled time, within half a step -/
def NearSeq (dt : K) (τ : Nat → Option K) (k : Nat) (x : K) : Prop := ∃ a, τ k = some a ∧ |x - a| ≤ dt / 2

structure SeqInv (c : Cfg K S σ) (τ : Nat → Option K) (C : σ → Nat → Prop) (j : Nat) (st : LState K S σ)
    (m : Nat) : Prop where
  tr : ∃ tr, st.trs[j]? = some tr ∧ C tr.sched m ∧ tr.due = τ m
  window : ∀ a, τ m = some a → st.t - c.dt / 2 ≤ a
  near : List.Forall₂ (NearSeq c.dt τ) (List.range m) (callsOf j st.trace)
  before : ∀ k : Nat, k < m → ∀ a, τ k = some a → a ≤ st.t - c.dt / 2

/-- one `handle` with tolerance `0 < atol ≤ dt/2` at a state satisfying the invariant -/
theorem seq_window_invariant (c : Cfg K S σ) (hdt : 0 < c.dt) (τ : Nat → Option K) (hτ : Spaced c.dt τ)
    (C : σ → Nat → Prop) (hC : SeqLike c.nxt c.dt τ C) (j : Nat) (st : LState K S σ) (m : Nat)
    (h : SeqInv c τ C j st m) (atol : K) (ha0 : 0 < atol) (ha1 : atol ≤ c.dt / 2) :
    ∃ m', (m' = m ∨ m' = m + 1) ∧
      (∃ tr, (handleAll c.nxt atol st.t st.u 0 st.trs).1[j]? = some tr ∧ C tr.sched m' ∧ tr.due = τ m') ∧
      (∀ a, τ m' = some a → st.t + atol ≤ a) ∧
      List.Forall₂ (NearSeq c.dt τ) (List.range m')
        (callsOf j (st.trace ++ (handleAll c.nxt atol st.t st.u 0 st.trs).2.1)) ∧
      (∀ k : Nat, k < m' → ∀ a, τ k = some a → a < st.t + atol) := by
  obtain ⟨tr, hj, hs, hdue⟩ := h.tr
  have hget := handleAll_getElem? c.nxt atol st.t st.u st.trs 0 j tr hj
  have hcalls := handleAll_callsOf c.nxt atol st.t st.u st.trs j tr hj
  by_cases hd : isDue tr.due atol st.t = true
  · -- due: served now
    obtain ⟨a, ha⟩ : ∃ a, τ m = some a := by
      cases hm : τ m with
      | none => rw [hdue, hm] at hd; simp [isDue] at hd
      | some a => exact ⟨a, rfl⟩
    have hw := h.window a ha
    have hd' : a - atol < st.t := by
      rw [hdue, ha] at hd; simpa [isDue] using hd
    obtain ⟨n1, n2⟩ := hC tr.sched m a st.t hs ha (by linarith)
    refine ⟨m + 1, Or.inr rfl, ?_, ?_, ?_, ?_⟩
    · exact ⟨served c.nxt st.t st.u tr, by rw [hget, if_pos hd], n2, n1⟩
    · intro b hb
      have := hτ.gap m a b ha hb
      linarith
    · rw [callsOf_append, hcalls, if_pos hd, List.range_succ]
      refine List.rel_append h.near ?_
      refine List.Forall₂.cons ⟨a, ha, ?_⟩ List.Forall₂.nil
      rw [abs_le]; constructor <;> linarith
    · intro k hk b hb
      rcases Nat.lt_succ_iff_lt_or_eq.mp hk with h1 | h1
      · have := h.before k h1 b hb; linarith
      · subst h1; rw [ha] at hb; cases hb; linarith
  · -- not due
    refine ⟨m, Or.inl rfl, ⟨tr, by rw [hget, if_neg hd], hs, hdue⟩, ?_, ?_, ?_⟩
    · intro a ha
      have hd' : ¬ a - atol < st.t := by
        rw [hdue, ha] at hd; simpa [isDue] using hd
      linarith
    · rw [callsOf_append, hcalls, if_neg hd, List.append_nil]; exact h.near
    · intro k hk b hb
      have := h.before k hk b hb; linarith

theorem seqInv_advance (c : Cfg K S σ) (hdt : 0 < c.dt) (τ : Nat → Option K) (hτ : Spaced c.dt τ)
    (C : σ → Nat → Prop) (hC : SeqLike c.nxt c.dt τ C) (j : Nat) (st : LState K S σ)
    (h : ∃ m, SeqInv c τ C j st m) : ∃ m, SeqInv c τ C j (advance c st) m := by
  obtain ⟨m, h⟩ := h
  have hh : (half : K) * c.dt = c.dt / 2 := half_mul _
  obtain ⟨m', _, ⟨tr', hj', hs', hdue'⟩, hp, hnear, hbef⟩ :=
    seq_window_invariant c hdt τ hτ C hC j st m h (half * c.dt) (by rw [hh]; linarith) (by rw [hh])
  rw [hh] at hp hbef
  have hn1 := one_le_nsteps st.t (clip (nextAction (mainHandle c st).1) c.tEnd) c.dt
  have ht : (advance c st).t = st.t + (nsteps st.t (clip (nextAction (mainHandle c st).1) c.tEnd) c.dt : K) * c.dt :=
    stepperTime_eq _ _ _ hn1
  have hge : st.t + c.dt ≤ (advance c st).t := by
    rw [ht]
    have : (1 : K) ≤ (nsteps st.t (clip (nextAction (mainHandle c st).1) c.tEnd) c.dt : K) := by
      exact_mod_cast hn1
    nlinarith
  refine ⟨m', ⟨tr', hj', hs', hdue'⟩, ?_, hnear, ?_⟩
  · intro a ha
    have hmem : tr' ∈ (mainHandle c st).1 := List.mem_of_getElem? hj'
    have hclip := clip_nextAction_le (mainHandle c st).1 c.tEnd tr' hmem a (by rw [hdue', ha])
    have hwin := nsteps_window st.t (clip (nextAction (mainHandle c st).1) c.tEnd) c.dt a hdt hclip (hp a ha)
    rw [ht]; linarith
  · intro k hk a ha
    have := hbef k hk a ha
    linarith

/-- **served_exactly_once_sequence.**  A tracker (list position `j`, any class, any stop behaviour, among any
other trackers with any schedules) whose schedule offers the times `τ 0 < τ 1 < …`, consecutive ones at least `dt`
apart, the first not more than `dt/2` before `t_start` (fixed lists, geometric and logarithmic schedules:
`sched_fixed_seqLike`, `sched_geom_seqLike`, `sched_log_seqLike`): its `k`-th call serves its `k`-th scheduled
time at distance at most `dt/2` - none is skipped, none is served twice, on every path.  If the run reaches the end
of the loop, the scheduled times that were served are exactly those before `t_final + eps*dt`. -/
theorem served_exactly_once_sequence (c : Cfg K S σ) (hdt : 0 < c.dt) (he0 : 0 < c.eps)
    (he1 : c.eps ≤ 1 / 2) (τ : Nat → Option K) (hτ : Spaced c.dt τ) (C : σ → Nat → Prop)
    (hC : SeqLike c.nxt c.dt τ C)
    (u0 : S) (trs : List (Tracker K S σ)) (j : Nat) (tr0 : Tracker K S σ) (hj : trs[j]? = some tr0)
    (hs : C tr0.sched 0) (hdue : tr0.due = τ 0) (h0 : ∀ a, τ 0 = some a → c.tStart - c.dt / 2 ≤ a)
    (fuel : Nat) :
    ∃ m : Nat,
      List.Forall₂ (NearSeq c.dt τ) (List.range m) (callsOf j (runFuel c u0 trs fuel).trace) ∧
      ((runFuel c u0 trs fuel).exit.reachedEnd →
        ∀ k a, τ k = some a → (a < (runFuel c u0 trs fuel).tFinal + c.eps * c.dt ↔ k < m)) := by
  have hi : ∃ m, SeqInv c τ C j (initState c u0 trs) m :=
    ⟨0, ⟨tr0, hj, hs, hdue⟩, by simpa [initState] using h0,
      by simp [initState, callsOf], by intro k hk; omega⟩
  obtain ⟨st, ⟨m, hinv⟩, hT, _, _, sh⟩ := run_shape c (fun st => ∃ m, SeqInv c τ C j st m)
    (fun st h _ _ => seqInv_advance c hdt τ hτ C hC j st h) u0 trs fuel hi
  have hea : c.eps * c.dt ≤ c.dt / 2 := by nlinarith
  have hea0 : 0 < c.eps * c.dt := mul_pos he0 hdt
  -- the scheduled times increase with the index
  have hmono : ∀ (d k : Nat) a b, τ k = some a → τ (k + d) = some b → a ≤ b := by
    intro d
    induction d with
    | zero => intro k a b ha hb; rw [Nat.add_zero, ha] at hb; cases hb; exact le_refl _
    | succ d ih =>
      intro k a b ha hb
      cases hm : τ (k + d) with
      | none => have := hτ.done (k + d) hm; rw [show k + (d + 1) = k + d + 1 by omega, this] at hb; cases hb
      | some x =>
        have h1 := ih k a x ha hm
        have h2 := hτ.gap (k + d) x b hm (by rw [← hb]; congr 1)
        linarith
  rcases sh with ⟨he, ht, _⟩ | ⟨hc, ht, _, he⟩ | ⟨hc, r, hr, he, ht, _⟩
  · refine ⟨m, by rw [ht]; exact hinv.near, ?_⟩
    intro hre; rw [he] at hre; exact absurd hre (by simp [Exit.reachedEnd])
  · obtain ⟨m', _, _, hp, hnear, hbef⟩ :=
      seq_window_invariant c hdt τ hτ C hC j st m hinv (c.eps * c.dt) hea0 hea
    refine ⟨m', by rw [ht]; exact hnear, ?_⟩
    intro _ k a ha
    rw [hT]
    constructor
    · intro hk
      by_contra hcon
      have hmk : m' ≤ k := not_lt.mp hcon
      cases hm : τ m' with
      | none =>
        -- exhausted at m' ≤ k: τ k = none
        have : ∀ d, τ (m' + d) = none := by
          intro d; induction d with
          | zero => exact hm
          | succ d ih => exact hτ.done _ ih
        have := this (k - m'); rw [show m' + (k - m') = k by omega, ha] at this; cases this
      | some b =>
        have h1 := hp b hm
        have h2 := hmono (k - m') m' b a hm (by rw [show m' + (k - m') = k by omega]; exact ha)
        linarith
    · intro hk; exact hbef k hk a ha
  · have hh : (half : K) * c.dt = c.dt / 2 := half_mul _
    obtain ⟨m', _, _, _, hnear, _⟩ :=
      seq_window_invariant c hdt τ hτ C hC j st m hinv (half * c.dt) (by rw [hh]; linarith) (by rw [hh])
    refine ⟨m', by rw [ht]; exact hnear, ?_⟩
    intro hre; rw [he] at hre; exact absurd hre (by simp [Exit.reachedEnd])

/-- a run that starts on a scheduled time: the first call is AT `t_start` (every call is a lattice time
`t_start + n*dt` and the first one lies within `dt/2` of `τ 0 = t_start`); a run that reaches the end of its loop
does make that call -/
theorem first_call_at_t_start (c : Cfg K S σ) (hdt : 0 < c.dt) (he0 : 0 < c.eps)
    (he1 : c.eps ≤ 1 / 2) (τ : Nat → Option K) (hτ : Spaced c.dt τ) (C : σ → Nat → Prop)
    (hC : SeqLike c.nxt c.dt τ C)
    (u0 : S) (trs : List (Tracker K S σ)) (j : Nat) (tr0 : Tracker K S σ) (hj : trs[j]? = some tr0)
    (hs : C tr0.sched 0) (hdue : tr0.due = τ 0) (hstart : τ 0 = some c.tStart) (fuel : Nat) :
    (∀ x, (callsOf j (runFuel c u0 trs fuel).trace).head? = some x → x = c.tStart) ∧
    ((runFuel c u0 trs fuel).exit.reachedEnd →
      ∃ rest, callsOf j (runFuel c u0 trs fuel).trace = c.tStart :: rest) := by
  obtain ⟨m, hnear, hiff⟩ := served_exactly_once_sequence c hdt he0 he1 τ hτ C hC u0 trs j tr0 hj hs hdue
    (by intro a ha; rw [hstart] at ha; cases ha; linarith) fuel
  have hfirst : ∀ x, (callsOf j (runFuel c u0 trs fuel).trace).head? = some x → x = c.tStart := by
    intro x hx
    cases hcs : callsOf j (runFuel c u0 trs fuel).trace with
    | nil => rw [hcs] at hx; cases hx
    | cons y rest =>
      rw [hcs] at hx hnear
      simp only [List.head?_cons, Option.some.injEq] at hx
      subst hx
      cases m with
      | zero => cases hnear
      | succ m' =>
        rw [List.range_succ_eq_map] at hnear
        cases hnear with
        | cons h1 _ =>
          obtain ⟨a, ha, habs⟩ := h1
          rw [hstart] at ha; cases ha
          -- y is a time of the trace: a lattice time
          have hmem : y ∈ callsOf j (runFuel c u0 trs fuel).trace := by rw [hcs]; exact List.mem_cons_self
          unfold callsOf at hmem
          obtain ⟨e, he, hey⟩ := List.mem_map.mp hmem
          obtain ⟨n, _, hn⟩ := handle_times_on_lattice c u0 trs fuel e (List.mem_of_mem_filter he)
          rw [← hey, hn]
          rcases Nat.eq_zero_or_pos n with h0 | hpos
          · subst h0; simp
          · exfalso
            rw [← hey, hn, abs_le] at habs
            have : (1 : K) ≤ (n : K) := by exact_mod_cast hpos
            nlinarith [habs.2]
  refine ⟨hfirst, ?_⟩
  intro hre
  have hm : 0 < m := by
    apply ((hiff hre) 0 c.tStart hstart).mp
    rw [run_tFinal_lattice]
    have : (0 : K) ≤ ((runFuel c u0 trs fuel).steps : K) * c.dt :=
      mul_nonneg (Nat.cast_nonneg _) hdt.le
    have : 0 < c.eps * c.dt := mul_pos he0 hdt
    linarith
  cases hcs : callsOf j (runFuel c u0 trs fuel).trace with
  | nil =>
    rw [hcs] at hnear
    have := hnear.length_eq
    simp at this; omega
  | cons y rest =>
    have := hfirst y (by rw [hcs]; rfl)
    exact ⟨rest, by rw [this]⟩

/-! #### fixed lists -/

theorem fixedSkip_append_of_lt (t : K) (pre post : List K) (h : ∀ x ∈ pre, x < t) :
    Interrupts.fixedSkip t (pre ++ post) =
      ((Interrupts.fixedSkip t post).1 + pre.length, (Interrupts.fixedSkip t post).2) := by
  induction pre with
  | nil => simp
  | cons x xs ih =>
    have hx : x < t := h x List.mem_cons_self
    have ih' := ih (fun y hy => h y (List.mem_cons_of_mem _ hy))
    have e : Interrupts.fixedSkip t (x :: (xs ++ post)) =
        ((Interrupts.fixedSkip t (xs ++ post)).1 + 1, (Interrupts.fixedSkip t (xs ++ post)).2) := by
      conv_lhs => unfold Interrupts.fixedSkip
      rw [if_pos hx]
    show Interrupts.fixedSkip t (x :: (xs ++ post)) = _
    rw [e, ih']
    simp only [List.length_cons]
    rfl

/-- the first entry of a list that is not before `t` -/
theorem fixedSkip_head (t : K) (post : List K) (h : ∀ a, post[0]? = some a → t ≤ a) :
    Interrupts.fixedSkip t post = (1, post[0]?) := by
  cases post with
  | nil => rfl
  | cons p ps =>
    have : ¬ p < t := not_lt.mpr (h p rfl)
    conv_lhs => unfold Interrupts.fixedSkip
    rw [if_neg this]; rfl

/-- `FixedInterrupts.initialize(t)` on `pre ++ post` (entries of `pre` before `t`, first entry of `post` not) -/
theorem fixedNext_init (t : K) (pre post : List K) (hpre : ∀ x ∈ pre, x < t)
    (hpost : ∀ a, post[0]? = some a → t ≤ a) :
    Interrupts.fixedNext (pre ++ post) 0 t = (pre.length + 0 + 1, post[0]?) := by
  unfold Interrupts.fixedNext
  rw [if_neg (by omega), List.drop_zero, fixedSkip_append_of_lt t pre post hpre, fixedSkip_head t post hpost]
  simp only [Nat.zero_add, Nat.add_zero]
  congr 1; omega

/-- `FixedInterrupts.next(t)` after `post[m]` has been served, the following entry not being before `t` -/
theorem fixedNext_step (t : K) (pre post : List K) (m : Nat) (hm : m < post.length)
    (hnext : ∀ b, post[m + 1]? = some b → t ≤ b) :
    Interrupts.fixedNext (pre ++ post) (pre.length + m + 1) t = (pre.length + (m + 1) + 1, post[m + 1]?) := by
  have hdrop : (pre ++ post).drop (pre.length + m + 1) = post.drop (m + 1) := by
    rw [Nat.add_assoc]; exact List.drop_length_add_append (m + 1)
  have hlen : ¬ pre.length + m + 1 > (pre ++ post).length := by
    rw [List.length_append]; omega
  unfold Interrupts.fixedNext
  rw [if_neg hlen, hdrop, fixedSkip_head t (post.drop (m + 1))
    (by intro a ha; rw [List.getElem?_drop] at ha; exact hnext a ha)]
  rw [List.getElem?_drop]
  simp only [Nat.add_zero]
  congr 1

theorem sched_next_fixed (l : List K) (idx : Nat) (t : K) :
    Sched.next (Sched.fixed l idx) t =
      (Sched.fixed l (Interrupts.fixedNext l idx t).1, (Interrupts.fixedNext l idx t).2) := rfl

/-- `FixedInterrupts(pre ++ post)`: the scheduled times of the run are the entries of `post` -/
theorem sched_fixed_seqLike (dt : K) (hdt : 0 < dt) (pre post : List K)
    (hgap : ∀ m a b, post[m]? = some a → post[m + 1]? = some b → a + dt ≤ b) :
    Spaced dt (fun m => post[m]?) ∧
    SeqLike (Sched.next (K := K)) dt (fun m => post[m]?)
      (fun s m => s = Sched.fixed (pre ++ post) (pre.length + m + 1)) := by
  refine ⟨⟨hgap, ?_⟩, ?_⟩
  · intro m hm
    rw [List.getElem?_eq_none_iff] at hm ⊢; omega
  · intro s m a t hs ha ht
    subst hs
    have hm : m < post.length := by
      by_contra hcon
      have : post[m]? = none := List.getElem?_eq_none_iff.mpr (not_lt.mp hcon)
      simp only [this] at ha; cases ha
    have hstep := fixedNext_step t pre post m hm (by
      intro b hb
      have := hgap m a b ha hb
      linarith)
    rw [sched_next_fixed, hstep]
    exact ⟨rfl, rfl⟩

/-- **fixed_list_served_exactly_once** (the statement for `FixedInterrupts`): a tracker with the list
`pre ++ post` - `pre`: entries before the start of the run, `post`: entries from `t_start` on, consecutive ones at
least `dt` apart - among any other trackers: its `k`-th call serves `post[k]` within `dt/2`; when the run reaches the
end of its loop exactly the entries before `t_final + eps*dt` have been served; an entry equal to `t_start` is served
AT `t_start`. -/
theorem fixed_list_served_exactly_once (dt tStart tEnd eps : K) (step : S → K → S) (u0 : S)
    (specs : List (TrackerSpec K S)) (hdt : 0 < dt) (he0 : 0 < eps) (he1 : eps ≤ 1 / 2)
    (pre post : List K) (hpre : ∀ x ∈ pre, x < tStart) (hpost : ∀ a, post[0]? = some a → tStart ≤ a)
    (hgap : ∀ m a b, post[m]? = some a → post[m + 1]? = some b → a + dt ≤ b)
    (j : Nat) (sp : TrackerSpec K S) (hj : specs[j]? = some sp) (hsched : sp.sched = .fixed (pre ++ post)) :
    (∃ m : Nat,
      List.Forall₂ (NearSeq dt (fun m => post[m]?)) (List.range m)
        (callsOf j (runSpec dt tStart tEnd eps step u0 specs).trace) ∧
      ((runSpec dt tStart tEnd eps step u0 specs).exit.reachedEnd →
        ∀ k a, post[k]? = some a →
          (a < (runSpec dt tStart tEnd eps step u0 specs).tFinal + eps * dt ↔ k < m))) ∧
    (post[0]? = some tStart →
      (∀ x, (callsOf j (runSpec dt tStart tEnd eps step u0 specs).trace).head? = some x → x = tStart) ∧
      ((runSpec dt tStart tEnd eps step u0 specs).exit.reachedEnd →
        ∃ rest, callsOf j (runSpec dt tStart tEnd eps step u0 specs).trace = tStart :: rest)) := by
  set c : Cfg K S (Sched K) :=
    { dt := dt, tStart := tStart, tEnd := tEnd, eps := eps, step := step, nxt := Sched.next } with hc
  have hj' : (specs.map (fun s => s.init tStart))[j]? = some (sp.init tStart) := by
    rw [List.getElem?_map, hj]; rfl
  obtain ⟨hsp, hlike⟩ := sched_fixed_seqLike dt hdt pre post hgap
  -- `initialize(t_start)` skips `pre` and answers the first entry of `post`
  have hinit : (sp.init tStart).sched = Sched.fixed (pre ++ post) (pre.length + 0 + 1) ∧
      (sp.init tStart).due = post[0]? := by
    have e : sp.init tStart =
        { kind := sp.kind, sched := ((SchedSpec.fixed (pre ++ post)).init tStart).1,
          due := ((SchedSpec.fixed (pre ++ post)).init tStart).2, stopAt := sp.stopAt, calls := 0, times := [],
          frames := [], finalized := 0 } := by
      unfold TrackerSpec.init; rw [hsched]
    have e2 : (SchedSpec.fixed (pre ++ post)).init tStart =
        (Sched.fixed (pre ++ post) (pre.length + 0 + 1), post[0]?) := by
      show Sched.next (Sched.fixed (pre ++ post) 0) tStart = _
      rw [sched_next_fixed, fixedNext_init tStart pre post hpre hpost]
    rw [e, e2]
    exact ⟨rfl, rfl⟩
  refine ⟨?_, ?_⟩
  · exact served_exactly_once_sequence c hdt he0 he1 _ hsp _ hlike u0
      (specs.map (fun s => s.init tStart)) j (sp.init tStart) hj' hinit.1 hinit.2
      (by intro a ha; have := hpost a ha; show tStart - dt / 2 ≤ a; linarith) (defaultFuel c)
  · intro h0
    have key := first_call_at_t_start c hdt he0 he1 (fun m => post[m]?) hsp
      (fun s m => s = Sched.fixed (pre ++ post) (pre.length + m + 1)) hlike u0
      (specs.map (fun s => s.init tStart)) j (sp.init tStart) hj' hinit.1 hinit.2 h0 (defaultFuel c)
    exact key

/-! #### logarithmic schedules -/

/-- state `(dt, _t_next)` of `LogarithmicInterrupts(d0, f)` after `initialize` (first scheduled time `τ0`) and `m`
calls of `next`: the scheduled times `τ0, τ0 + d0, τ0 + d0 + d0*f, …` -/
def logSeq (f d0 τ0 : K) : Nat → K × K
  | 0 => (d0 / f, τ0)
  | m + 1 => ((logSeq f d0 τ0 m).1 * f, (logSeq f d0 τ0 m).2 + (logSeq f d0 τ0 m).1 * f)

theorem logSeq_gap (f d0 τ0 dt : K) (hf : 1 ≤ f) (hdt : 0 < dt) (hd : dt ≤ d0) (m : Nat) :
    dt ≤ (logSeq f d0 τ0 m).1 * f := by
  have hf0 : f ≠ 0 := by intro h; rw [h] at hf; linarith
  induction m with
  | zero => show dt ≤ d0 / f * f; rw [div_mul_cancel₀ _ hf0]; exact hd
  | succ m ih =>
    show dt ≤ (logSeq f d0 τ0 m).1 * f * f
    have : 0 ≤ (logSeq f d0 τ0 m).1 * f := le_trans hdt.le ih
    nlinarith

theorem sched_next_log (f d tn t : K) :
    Sched.next (Sched.log f d tn) t =
      (Sched.log f (d * f) (Interrupts.constNext tn (d * f) t), some (Interrupts.constNext tn (d * f) t)) := rfl

/-- `LogarithmicInterrupts(d0, f)` with `d0 ≥ dt`, `f ≥ 1`: every gap is at least `dt`, no catch-up -/
theorem sched_log_seqLike (dt f d0 τ0 : K) (hf : 1 ≤ f) (hdt : 0 < dt) (hd : dt ≤ d0) :
    Spaced dt (fun m => some (logSeq f d0 τ0 m).2) ∧
    SeqLike (Sched.next (K := K)) dt (fun m => some (logSeq f d0 τ0 m).2)
      (fun s m => s = Sched.log f (logSeq f d0 τ0 m).1 (logSeq f d0 τ0 m).2) := by
  refine ⟨⟨?_, ?_⟩, ?_⟩
  · intro m a b ha hb
    cases ha; cases hb
    show (logSeq f d0 τ0 m).2 + dt ≤ (logSeq f d0 τ0 m).2 + (logSeq f d0 τ0 m).1 * f
    have := logSeq_gap f d0 τ0 dt hf hdt hd m
    linarith
  · intro m hm; cases hm
  · intro s m a t hs ha ht
    subst hs; cases ha
    have hg := logSeq_gap f d0 τ0 dt hf hdt hd m
    rw [sched_next_log, constNext_no_catchup' _ _ _ (by linarith)]
    exact ⟨rfl, rfl⟩

/-- **logarithmic_served_exactly_once** (the statement for `LogarithmicInterrupts(d0, f, t_start=ts)`, `d0 ≥ dt`,
`f ≥ 1`): the `k`-th call serves the `k`-th scheduled time `τ0 + d0 + d0*f + … + d0*f^(k-1)`,
`τ0 = max(t_start, ts)`, within `dt/2`; without own start time the first call is AT `t_start`. -/
theorem logarithmic_served_exactly_once (dt tStart tEnd eps : K) (step : S → K → S) (u0 : S)
    (specs : List (TrackerSpec K S)) (hdt : 0 < dt) (he0 : 0 < eps) (he1 : eps ≤ 1 / 2)
    (d0 f : K) (hf : 1 ≤ f) (hd : dt ≤ d0) (ts : Option K)
    (j : Nat) (sp : TrackerSpec K S) (hj : specs[j]? = some sp) (hsched : sp.sched = .log d0 f ts) :
    (∃ m : Nat,
      List.Forall₂ (NearSeq dt (fun m => some (logSeq f d0 (Interrupts.constInit ts tStart) m).2)) (List.range m)
        (callsOf j (runSpec dt tStart tEnd eps step u0 specs).trace) ∧
      ((runSpec dt tStart tEnd eps step u0 specs).exit.reachedEnd →
        ∀ k : Nat, ((logSeq f d0 (Interrupts.constInit ts tStart) k).2 <
          (runSpec dt tStart tEnd eps step u0 specs).tFinal + eps * dt ↔ k < m))) ∧
    (Interrupts.constInit ts tStart = tStart →
      (∀ x, (callsOf j (runSpec dt tStart tEnd eps step u0 specs).trace).head? = some x → x = tStart) ∧
      ((runSpec dt tStart tEnd eps step u0 specs).exit.reachedEnd →
        ∃ rest, callsOf j (runSpec dt tStart tEnd eps step u0 specs).trace = tStart :: rest)) := by
  set c : Cfg K S (Sched K) :=
    { dt := dt, tStart := tStart, tEnd := tEnd, eps := eps, step := step, nxt := Sched.next } with hc
  set τ0 := Interrupts.constInit ts tStart with hτ0
  have hj' : (specs.map (fun s => s.init tStart))[j]? = some (sp.init tStart) := by
    rw [List.getElem?_map, hj]; rfl
  obtain ⟨hsp, hlike⟩ := sched_log_seqLike dt f d0 τ0 hf hdt hd
  have hinit : (sp.init tStart).sched = Sched.log f (logSeq f d0 τ0 0).1 (logSeq f d0 τ0 0).2 ∧
      (sp.init tStart).due = some (logSeq f d0 τ0 0).2 := by
    unfold TrackerSpec.init
    rw [hsched]
    exact ⟨rfl, rfl⟩
  have hge := constInit_ge' ts tStart
  refine ⟨?_, ?_⟩
  · obtain ⟨m, h1, h2⟩ := served_exactly_once_sequence c hdt he0 he1 (fun m => some (logSeq f d0 τ0 m).2) hsp
      (fun s m => s = Sched.log f (logSeq f d0 τ0 m).1 (logSeq f d0 τ0 m).2) hlike u0
      (specs.map (fun s => s.init tStart)) j (sp.init tStart) hj' hinit.1 hinit.2
      (by intro a ha; cases ha; show tStart - dt / 2 ≤ τ0; linarith) (defaultFuel c)
    exact ⟨m, h1, fun hre k => h2 hre k _ rfl⟩
  · intro h0
    have key := first_call_at_t_start c hdt he0 he1 (fun m => some (logSeq f d0 τ0 m).2) hsp
      (fun s m => s = Sched.log f (logSeq f d0 τ0 m).1 (logSeq f d0 τ0 m).2) hlike u0
      (specs.map (fun s => s.init tStart)) j (sp.init tStart) hj' hinit.1 hinit.2
      (by show some τ0 = some tStart; rw [h0]) (defaultFuel c)
    exact key

/-! #### geometric schedules -/

theorem geomSearch_hit (f t : K) : ∀ (i fuel : Nat) (cand : K) (n : Nat), i < fuel →
    (∀ i' : Nat, i' < i → cand * f ^ i' < t) → t ≤ cand * f ^ i →
    Interrupts.geomSearch f t fuel cand n = some (cand * f ^ i, n + i) := by
  intro i
  induction i with
  | zero =>
    intro fuel cand n hfu _ hle
    obtain ⟨fu, rfl⟩ : ∃ fu, fuel = fu + 1 := ⟨fuel - 1, by omega⟩
    unfold Interrupts.geomSearch
    rw [if_pos (by simpa using hle)]
    simp
  | succ i ih =>
    intro fuel cand n hfu hlt hle
    obtain ⟨fu, rfl⟩ : ∃ fu, fuel = fu + 1 := ⟨fuel - 1, by omega⟩
    unfold Interrupts.geomSearch
    have h0 : ¬ t ≤ cand := by
      have := hlt 0 (by omega); simp at this; exact not_le.mpr this
    rw [if_neg h0, ih fu (cand * f) (n + 1) (by omega)
      (by intro i' hi'; have := hlt (i' + 1) (by omega); rw [pow_succ'] at this; rw [mul_assoc]; exact this)
      (by rw [mul_assoc, ← pow_succ']; exact hle)]
    rw [mul_assoc, ← pow_succ']
    congr 2; omega

theorem sched_next_geom (scale f : K) (fuel : Nat) (v : K) (k : Nat) (t : K) (r : K × Nat)
    (h : Interrupts.geomSearch f t fuel (v * f) (k + 1) = some r) :
    Sched.next (Sched.geom scale f fuel (some (v, k))) t = (Sched.geom scale f fuel (some r), some r.1) := by
  show (match Interrupts.geomNext scale f (some (v, k)) t fuel with
    | none => ((Sched.broken : Sched K), (none : Option K))
    | some r => (Sched.geom scale f fuel (some r), some r.1)) = _
  have : Interrupts.geomNext scale f (some (v, k)) t fuel = some r := h
  rw [this]

/-- `GeometricInterrupts(scale, f)` from its member `g0 = scale*f^k0` on, where the gaps have reached `dt`
(`g0*(f-1) ≥ dt`; they grow from there): the scheduled times are `g0*f^m` -/
theorem sched_geom_seqLike (dt scale f g0 : K) (k0 fuel : Nat) (hfuel : 0 < fuel) (hf : 1 ≤ f) (hdt : 0 < dt)
    (hg0 : 0 ≤ g0) (hgap : dt ≤ g0 * (f - 1)) :
    Spaced dt (fun m => some (g0 * f ^ m)) ∧
    SeqLike (Sched.next (K := K)) dt (fun m => some (g0 * f ^ m))
      (fun s m => s = Sched.geom scale f fuel (some (g0 * f ^ m, k0 + m))) := by
  have hstep : ∀ m : Nat, g0 * f ^ m + dt ≤ g0 * f ^ (m + 1) := by
    intro m
    have h1 : (1 : K) ≤ f ^ m := one_le_pow₀ hf
    have h2 : 0 ≤ g0 * (f - 1) := le_trans hdt.le hgap
    have : g0 * (f - 1) ≤ g0 * (f - 1) * f ^ m := by nlinarith
    rw [pow_succ]; nlinarith
  refine ⟨⟨?_, ?_⟩, ?_⟩
  · intro m a b ha hb
    cases ha; cases hb; exact hstep m
  · intro m hm; cases hm
  · intro s m a t hs ha ht
    subst hs; cases ha
    have hle : t ≤ g0 * f ^ m * f ^ 0 * f := by
      have := hstep m; rw [pow_succ] at this; simp only [pow_zero, mul_one]; linarith
    have hsearch := geomSearch_hit f t 0 fuel (g0 * f ^ m * f) (k0 + m + 1) hfuel (by intro i' hi'; omega)
      (by simpa using hle)
    rw [sched_next_geom scale f fuel _ _ t _ hsearch]
    simp only [pow_zero, mul_one, Nat.add_zero]
    rw [pow_succ, ← mul_assoc]
    exact ⟨rfl, rfl⟩

/-- **geometric_served_exactly_once** (the statement for `GeometricInterrupts(scale, f)`, also given as the string
`'geometric(scale, f)'`): let `scale*f^k0` be the first member of the sequence that is not before `t_start`, and let
the gaps have reached the step there (`scale*f^k0*(f-1) ≥ dt`).  Then the `k`-th call of the tracker serves
`scale*f^(k0+k)` within `dt/2`, every member before `t_final + eps*dt` is served when the run reaches the end of its
loop, and a run that starts ON the sequence (`t_start = scale*f^k0`, `k0 = 0` included) makes its first call AT
`t_start`. -/
theorem geometric_served_exactly_once (dt tStart tEnd eps : K) (step : S → K → S) (u0 : S)
    (specs : List (TrackerSpec K S)) (hdt : 0 < dt) (he0 : 0 < eps) (he1 : eps ≤ 1 / 2)
    (scale f : K) (fuel k0 : Nat) (hfuel : k0 < fuel) (hf : 1 ≤ f) (hscale : 0 ≤ scale)
    (hbefore : ∀ i : Nat, i < k0 → scale * f ^ i < tStart) (hfirst : tStart ≤ scale * f ^ k0)
    (hgap : dt ≤ scale * f ^ k0 * (f - 1))
    (j : Nat) (sp : TrackerSpec K S) (hj : specs[j]? = some sp) (hsched : sp.sched = .geom scale f fuel) :
    (∃ m : Nat,
      List.Forall₂ (NearSeq dt (fun m => some (scale * f ^ k0 * f ^ m))) (List.range m)
        (callsOf j (runSpec dt tStart tEnd eps step u0 specs).trace) ∧
      ((runSpec dt tStart tEnd eps step u0 specs).exit.reachedEnd →
        ∀ k : Nat, (scale * f ^ k0 * f ^ k <
          (runSpec dt tStart tEnd eps step u0 specs).tFinal + eps * dt ↔ k < m))) ∧
    (scale * f ^ k0 = tStart →
      (∀ x, (callsOf j (runSpec dt tStart tEnd eps step u0 specs).trace).head? = some x → x = tStart) ∧
      ((runSpec dt tStart tEnd eps step u0 specs).exit.reachedEnd →
        ∃ rest, callsOf j (runSpec dt tStart tEnd eps step u0 specs).trace = tStart :: rest)) := by
  set c : Cfg K S (Sched K) :=
    { dt := dt, tStart := tStart, tEnd := tEnd, eps := eps, step := step, nxt := Sched.next } with hc
  set g0 := scale * f ^ k0 with hg0
  have hj' : (specs.map (fun s => s.init tStart))[j]? = some (sp.init tStart) := by
    rw [List.getElem?_map, hj]; rfl
  have hg0n : 0 ≤ g0 := mul_nonneg hscale (pow_nonneg (le_trans zero_le_one hf) _)
  obtain ⟨hsp, hlike⟩ := sched_geom_seqLike dt scale f g0 k0 fuel (by omega) hf hdt hg0n hgap
  have hsearch := geomSearch_hit f tStart k0 fuel scale 0 hfuel hbefore hfirst
  have hinit : (sp.init tStart).sched = Sched.geom scale f fuel (some (g0 * f ^ 0, k0 + 0)) ∧
      (sp.init tStart).due = some (g0 * f ^ 0) := by
    have e : sp.init tStart =
        { kind := sp.kind, sched := ((SchedSpec.geom scale f fuel).init tStart).1,
          due := ((SchedSpec.geom scale f fuel).init tStart).2, stopAt := sp.stopAt, calls := 0, times := [],
          frames := [], finalized := 0 } := by
      unfold TrackerSpec.init; rw [hsched]
    have e2 : (SchedSpec.geom scale f fuel).init tStart =
        (Sched.geom scale f fuel (some (g0 * f ^ 0, k0 + 0)), some (g0 * f ^ 0)) := by
      show (match Interrupts.geomNext scale f none tStart fuel with
        | none => ((Sched.broken : Sched K), (none : Option K))
        | some r => (Sched.geom scale f fuel (some r), some r.1)) = _
      have : Interrupts.geomNext scale f none tStart fuel = some (scale * f ^ k0, 0 + k0) := hsearch
      rw [this]
      simp only [pow_zero, mul_one, Nat.add_zero, Nat.zero_add, hg0]
    rw [e, e2]
    exact ⟨rfl, rfl⟩
  refine ⟨?_, ?_⟩
  · obtain ⟨m, h1, h2⟩ := served_exactly_once_sequence c hdt he0 he1 (fun m => some (g0 * f ^ m)) hsp
      (fun s m => s = Sched.geom scale f fuel (some (g0 * f ^ m, k0 + m))) hlike u0
      (specs.map (fun s => s.init tStart)) j (sp.init tStart) hj' hinit.1 hinit.2
      (by intro a ha; cases ha; show tStart - dt / 2 ≤ g0 * f ^ 0; simp only [pow_zero, mul_one]; linarith)
      (defaultFuel c)
    exact ⟨m, h1, fun hre k => h2 hre k _ rfl⟩
  · intro h0
    have key := first_call_at_t_start c hdt he0 he1 (fun m => some (g0 * f ^ m)) hsp
      (fun s m => s = Sched.geom scale f fuel (some (g0 * f ^ m, k0 + m))) hlike u0
      (specs.map (fun s => s.init tStart)) j (sp.init tStart) hj' hinit.1 hinit.2
      (by show some (g0 * f ^ 0) = some tStart; rw [pow_zero, mul_one, h0]) (defaultFuel c)
    exact key

theorem reachedEnd_of_final (e : Exit) (h : e = .final) : e.reachedEnd := by rw [h]; trivial

/-! #### non-vacuity: runs that start exactly on a scheduled time (concrete runs at `Rat`) -/

/-- `'geometric(1, 2)'` on `t_range = (1, 20)`, dt = 1/2: frames at 1, 2, 4, 8, 16 - the first one at `t_start` -/
example : (runSpec (1 / 2 : Rat) 1 20 (1 / 1000000) (fun u _ => u + 1 / 2) (0 : Rat)
    [ { kind := .storage, sched := .geom 1 2 50, stopAt := fun _ _ _ => none } ]).trackers.map
      (fun tr => tr.times) = [[1, 2, 4, 8, 16]] := by decide +kernel

/-- `t_range = (4, 40)`: 4, 8, 16, 32 (start on the member with exponent 2) -/
example : (runSpec (1 / 2 : Rat) 4 40 (1 / 1000000) (fun u _ => u + 1 / 2) (0 : Rat)
    [ { kind := .storage, sched := .geom 1 2 50, stopAt := fun _ _ _ => none } ]).trackers.map
      (fun tr => tr.times) = [[4, 8, 16, 32]] := by decide +kernel

/-- a fixed list with entries before the start, the start itself, and entries `≥ dt` apart; a logarithmic schedule
whose own start time is the start of the run -/
example : (runSpec (1 / 4 : Rat) 2 9 (1 / 1000000) (fun u _ => u + 1 / 4) (0 : Rat)
    [ { kind := .storage, sched := .fixed [1, 2, 3, 11 / 2, 9], stopAt := fun _ _ _ => none },
      { kind := .data, sched := .log (1 / 2) 2 (some 2), stopAt := fun _ _ _ => none } ]).trackers.map
      (fun tr => tr.times) = [[2, 3, 11 / 2, 9], [2, 5 / 2, 7 / 2, 11 / 2]] := by decide +kernel

/-- the hypotheses of `geometric_served_exactly_once` are satisfiable (dt = 1/2, `geometric(1, 2)`, run from the
member with exponent `k0 = 2`): the theorem gives the first call AT `t_start = 4` -/
example : ∃ rest, callsOf 0 (runSpec (1 / 2 : Rat) 4 40 (1 / 1000000) (fun u _ => u + 1 / 2) (0 : Rat)
    [ { kind := .storage, sched := .geom 1 2 50, stopAt := fun _ _ _ => none } ]).trace = 4 :: rest := by
  have h := geometric_served_exactly_once (K := Rat) (S := Rat) (1 / 2) 4 40 (1 / 1000000)
    (fun u _ => u + 1 / 2) 0
    [ { kind := .storage, sched := .geom 1 2 50, stopAt := fun _ _ _ => none } ] (by norm_num) (by norm_num)
    (by norm_num) 1 2 50 2 (by norm_num) (by norm_num) (by norm_num)
    (by intro i hi; match i, hi with
      | 0, _ => norm_num
      | 1, _ => norm_num
      | (n + 2), h => omega) (by norm_num) (by norm_num) 0 _ rfl rfl
  refine (h.2 (by norm_num)).2 ?_
  apply reachedEnd_of_final
  decide +kernel

/-- the hypotheses of `fixed_list_served_exactly_once` are satisfiable -/
example : ∃ rest, callsOf 0 (runSpec (1 / 4 : Rat) 2 9 (1 / 1000000) (fun u _ => u + 1 / 4) (0 : Rat)
    [ { kind := .storage, sched := .fixed ([1] ++ [2, 3, 11 / 2, 9]), stopAt := fun _ _ _ => none } ]).trace =
      2 :: rest := by
  have h := fixed_list_served_exactly_once (K := Rat) (S := Rat) (1 / 4) 2 9 (1 / 1000000)
    (fun u _ => u + 1 / 4) 0
    [ { kind := .storage, sched := .fixed ([1] ++ [2, 3, 11 / 2, 9]), stopAt := fun _ _ _ => none } ]
    (by norm_num) (by norm_num) (by norm_num) [1] [2, 3, 11 / 2, 9]
    (by intro x hx; simp at hx; subst hx; norm_num)
    (by intro a ha; simp at ha; subst ha; norm_num)
    (by
      intro m a b ha hb
      match m, ha, hb with
      | 0, ha, hb => simp at ha hb; subst ha; subst hb; norm_num
      | 1, ha, hb => simp at ha hb; subst ha; subst hb; norm_num
      | 2, ha, hb => simp at ha hb; subst ha; subst hb; norm_num
      | 3, ha, hb => simp at hb
      | (n + 4), ha, hb => simp at ha)
    0 _ rfl rfl
  refine (h.2 (by simp)).2 ?_
  apply reachedEnd_of_final
  decide +kernel

end
end PdeVerif.Controller
