import PdeVerif.Props.C15
/-
C15, theorem-gap round: VALUES of results (the clauses "arithmetic results ... never alias their source; binary
operations leave operands unchanged" say where results live - proved in Props/C15.lean; what they hold was tied by the
correspondence only).

* `binop_field_values`: `a <op> b` for two fields (any classes, numpy broadcasting of whole components);
* `inplace_field_values`: `a <op>= b` for a field or collection `b` (and `a`);
* `negate_field_values`: `-f`;
* `copy_collection_reads_members`: `fc.copy(dtype=..)` of a collection reads the CURRENT data of the member objects,
  in order, converted to the dtype of the copy.
* `copy_collection_member_reads`: member `k` of the copy reads member `k` of the original (converted);
* `binop_collection_scalar_values`: `fc <op> number`; `binop_collection_values`: `fc <op> field / collection`;
  `binop_into_second_collection_values`: `scalar field <op> fc`; `negate_collection_values`: `-fc`.
All about `Heap.step`, the definition the driver `c15.run` folds over every history.
-/
set_option linter.unusedSectionVars false

namespace PdeVerif.Heap

section
variable {K : Type} [Add K] [Sub K] [Mul K] [Div K] [Neg K] [NatCast K] [DCast K]
variable {G : List Grid}

/-- a freshly allocated array reads what it was allocated with -/
theorem readView_alloc_new (st : Store K) (c : List (Option K)) (d : DType) :
    (st.alloc c d).readView ⟨st.next, 0, c.length⟩ = c := by
  simp [Store.readView, Store.alloc, Store.next]

/-- what an existing handle reads is not changed by copying a field -/
theorem readView_copyField_old {s : State K} (hwf : WF s) {i : Nat} {o : Obj} (ho : s.objs[i]? = some o)
    (src : Obj) (dt : Option DType) :
    (copyField s src dt).store.readView o.view = s.store.readView o.view := by
  obtain ⟨hb, hsz⟩ := hwf i o ho
  have hsz' : o.view.off + o.view.len ≤ s.store.size o.view.buf := by simpa using hsz
  refine Store.readView_congr _ _ _ hsz' ?_ ?_
  · simp only [copyField, State.allocObj]; exact Store.size_alloc_lt _ _ _ hb
  · intro i _ _; simp only [copyField, State.allocObj]; exact Store.read_alloc_lt _ _ _ i hb

/-- `result = src.copy(dtype=t)`, then a ufunc writes `result.data`: valid cells hold what the ufunc computes, ghost
cells the content of `src` converted to `t` -/
theorem copyThenWrite_field_values {s s' : State K} (hwf : WF s) {i : Nat} {src : Obj}
    (ho : s.objs[i]? = some src) (hc : src.cls ≠ .coll) (t : DType) (f : State K → Nat → Option K)
    (hs : copyThenWrite G s src (some t) (fun s1 _ p _ => f s1 p) = .ok s') (p : Nat) (hp : p < src.view.len) :
    (s'.denote s.objs.length)[p]? = some
      (if validSel G src p = true then f (copyField s src (some t)) p
       else (((s.denote i)[p]?).join).map (DCast.dcast t)) := by
  obtain ⟨hb, hsz⟩ := hwf i src ho
  have hsz' : src.view.off + src.view.len ≤ s.store.size src.view.buf := by simpa using hsz
  have hlen : (s.store.readView src.view).length = src.view.len := Store.length_readView _ _ hsz'
  have hden : (s.denote i)[p]? = some (s.store.read src.view.buf (src.view.off + p)) := by
    unfold State.denote; rw [ho]
    exact Store.getElem?_readView _ _ p hp hsz'
  unfold copyThenWrite at hs
  split at hs
  · cases hs
  rename_i s1 hc1
  obtain ⟨e1, _, hf⟩ := eff_copyAny hwf hc1
  have hs1 := hf hc
  subst hs1
  split at hs
  · cases hs
  rename_i r hr
  cases hs
  have hlast : lastId (copyField s src (some t)) = s.objs.length := by
    simp [lastId, copyField, allocObj_length]
  have hr' := getObj_ok hr
  rw [hlast] at hr'
  have hr2 := hr'
  rw [copyField, allocObj_new] at hr2
  cases hr2
  have hp' : p < (castCells (some t) (s.store.readView src.view)).length := by
    rw [length_castCells, hlen]; exact hp
  rw [denote_writeSel e1.wf _ _ _ hr' p (by simpa using hp'), hden]
  simp only [Nat.zero_add, Nat.sub_zero, Option.join_some]
  have hnew : (copyField s src (some t)).store.read s.store.next p =
      (s.store.read src.view.buf (src.view.off + p)).map (DCast.dcast t) := by
    simp only [copyField, State.allocObj, Store.read_alloc_new, castCells, List.getElem?_map,
      Store.getElem?_readView _ _ p hp hsz']
    rfl
  have hvs : ∀ (ms : List Nat) (vw : View),
      validSel G { cls := src.cls, grid := src.grid, ncomp := src.ncomp, view := vw, members := ms } p =
        validSel G src p := fun _ _ => rfl
  by_cases hv : validSel G src p = true
  · rw [if_pos ⟨trivial, by omega, by simpa using hp', by rw [hvs]; exact hv⟩, if_pos hv]
  · rw [if_neg (fun h => hv (by rw [← hvs]; exact h.2.2.2)), if_neg hv, hnew]

/-- the operand that holds the result of `a <op> b` is one of the two -/
theorem binopSrc_cases {s : State K} {op : BinOp} {oa ob osrc : Obj} (h : binopSrc s op oa ob = .ok osrc) :
    osrc = oa ∨ osrc = ob := by
  unfold binopSrc at h
  split at h
  · split at h
    · cases h
    · split at h
      · cases h
      · cases h; exact Or.inl rfl
  · split at h
    · split at h
      · cases h
      · cases h; exact Or.inr rfl
    · split at h
      · cases h
      · cases h; exact Or.inl rfl

/-- **values of `a <op> b` for two fields** (`_binary_operation`, base.py:498-550; neither operand a collection).
The result is a new object (id `s.objs.length`) built from a copy of one of the operands - `i`, chosen by the three
compatibility branches (`binopSrc`) - with the promoted dtype `t`: every VALID cell `p` holds
`op(a[p mod len a], b[p mod len b])` (numpy broadcasting of whole components: a scalar field against a vector/tensor),
every ghost cell the content of operand `i` converted to `t`. -/
theorem binop_field_values {s s' : State K} (hwf : WF s) {bop : BinOp} {a hb : Nat} {oa ob : Obj}
    (hoa : s.objs[a]? = some oa) (hob : s.objs[hb]? = some ob) (hca : oa.cls ≠ .coll) (hcb : ob.cls ≠ .coll)
    (hs : step G s (.binop bop a (.obj hb)) = .ok s') :
    ∃ (t : DType) (i : Nat) (osrc : Obj), (i = a ∨ i = hb) ∧ s.objs[i]? = some osrc ∧
      binopSrc s bop oa ob = .ok osrc ∧
      ∀ p, p < osrc.view.len →
        (s'.denote s.objs.length)[p]? = some
          (if validSel G osrc p = true then opv bop (cellOf (s.denote a) p) (cellOf (s.denote hb) p)
           else (((s.denote i)[p]?).join).map (DCast.dcast t)) := by
  have ga : getObj s a = .ok oa := by unfold getObj; rw [hoa]
  have gb : getObj s hb = .ok ob := by unfold getObj; rw [hob]
  simp only [step, binop, ga, gb] at hs
  split at hs
  · cases hs
  split at hs
  · cases hs
  split at hs
  · cases hs
  rename_i osrc hsrc
  split at hs
  · cases hs
  split at hs
  · cases hs
  have hda : s.denote a = s.store.readView oa.view := by unfold State.denote; rw [hoa]
  have hdb : s.denote hb = s.store.readView ob.view := by unfold State.denote; rw [hob]
  have key : ∀ (i : Nat), s.objs[i]? = some osrc → osrc.cls ≠ .coll → ∀ p, p < osrc.view.len →
      (s'.denote s.objs.length)[p]? = some
        (if validSel G osrc p = true then opv bop (cellOf (s.denote a) p) (cellOf (s.denote hb) p)
         else (((s.denote i)[p]?).join).map
          (DCast.dcast ((s.store.dtOf oa.view.buf).result (s.store.dtOf ob.view.buf)))) := by
    intro i hi hci p hp
    have := copyThenWrite_field_values hwf hi hci _
      (fun s1 p => opv bop (cellOf (s1.store.readView oa.view) p) (cellOf (s1.store.readView ob.view) p)) hs p hp
    rw [this, readView_copyField_old hwf hoa, readView_copyField_old hwf hob, hda, hdb]
  rcases binopSrc_cases hsrc with e | e
  · subst e
    exact ⟨_, a, osrc, Or.inl rfl, hoa, hsrc, key a hoa hca⟩
  · subst e
    exact ⟨_, hb, osrc, Or.inr rfl, hob, hsrc, key hb hob hcb⟩

/-- **values of `a <op>= b` for a field or collection `b`** (`_binary_operation_inplace`, base.py:552-589; `a` may be
a field or a collection): every valid cell `p` of `a` holds `op(old a[p], b[p mod len b])` (broadcasting of whole
components), every ghost cell what it held before. -/
theorem inplace_field_values {s s' : State K} (hwf : WF s) {bop : BinOp} {a hb : Nat} {oa ob : Obj}
    (hoa : s.objs[a]? = some oa) (hob : s.objs[hb]? = some ob)
    (hs : step G s (.inplace bop a (.obj hb)) = .ok s') (p : Nat) (hp : p < oa.view.len) :
    (s'.denote a)[p]? = some
      (if validSel G oa p = true then opv bop ((s.denote a)[p]?).join (cellOf (s.denote hb) p)
       else ((s.denote a)[p]?).join) := by
  obtain ⟨hb', hsz⟩ := hwf a oa hoa
  have hsz' : oa.view.off + oa.view.len ≤ s.store.size oa.view.buf := by simpa using hsz
  have hden : (s.denote a)[p]? = some (s.store.read oa.view.buf (oa.view.off + p)) := by
    unfold State.denote; rw [hoa]
    exact Store.getElem?_readView _ _ p hp hsz'
  have hlen : (s.store.readView oa.view).length = oa.view.len := Store.length_readView _ _ hsz'
  have hdb : s.denote hb = s.store.readView ob.view := by unfold State.denote; rw [hob]
  have ga : getObj s a = .ok oa := by unfold getObj; rw [hoa]
  have gb : getObj s hb = .ok ob := by unfold getObj; rw [hob]
  simp only [step, inplace, ga, gb] at hs
  split at hs
  · cases hs
  split at hs
  · cases hs
  split at hs
  · cases hs
  split at hs
  · cases hs
  split at hs
  · cases hs
  cases hs
  rw [denote_writeSel hwf _ _ _ hoa p hp, hden]
  have e1 : oa.view.off + p - oa.view.off = p := by omega
  simp only [e1, Option.join_some]
  have hcell : cellOf (s.store.readView oa.view) p = s.store.read oa.view.buf (oa.view.off + p) := by
    unfold cellOf
    rw [hlen, Nat.mod_eq_of_lt hp, Store.getElem?_readView _ _ p hp hsz']
    rfl
  by_cases hv : validSel G oa p = true
  · rw [if_pos ⟨trivial, by omega, by omega, hv⟩, if_pos hv, hcell, hdb]
  · rw [if_neg (fun h => hv h.2.2.2), if_neg hv]

/-- **values of `-f`** for a field (base.py:461-471: `cls(grid, data=np.negative(f.data))`): the new object (id
`s.objs.length`) holds `-x` at every valid cell and NOTHING at its ghost cells (a new padded array whose ghost cells
are never written - unlike `f.copy()` and binary results, which carry the ghost cells of their source). -/
theorem negate_field_values {s s' : State K} {h : Nat} {o : Obj} (ho : s.objs[h]? = some o)
    (hc : o.cls ≠ .coll) (hs : step G s (.neg h) = .ok s') :
    s'.denote s.objs.length =
      (s.denote h).mapIdx (fun p x => if validSel G o p then x.map (fun y => -y) else none) := by
  have g : getObj s h = .ok o := by unfold getObj; rw [ho]
  simp only [step, g, negate] at hs
  split at hs
  · cases hs
  split at hs
  · rename_i hcoll; exact absurd (by simpa using hcoll) hc
  cases hs
  unfold State.denote
  rw [allocObj_new, ho]
  simp only [State.allocObj]
  rw [readView_alloc_new]
  rfl

/-! ### values of a copied collection -/

/-- what an existing handle reads is not changed by an allocation -/
theorem readView_allocObj_old {s : State K} (hwf : WF s) {i : Nat} {o : Obj} (ho : s.objs[i]? = some o)
    (cells : List (Option K)) (dt : DType) (o' : Obj) :
    (s.allocObj cells dt o').store.readView o.view = s.store.readView o.view := by
  obtain ⟨hb, hsz⟩ := hwf i o ho
  have hsz' : o.view.off + o.view.len ≤ s.store.size o.view.buf := by simpa using hsz
  refine Store.readView_congr _ _ _ hsz' ?_ ?_
  · simp only [State.allocObj]; exact Store.size_alloc_lt _ _ _ hb
  · intro i _ _; simp only [State.allocObj]; exact Store.read_alloc_lt _ _ _ i hb

/-- an operation that writes no old cell leaves what is read through any old view unchanged -/
theorem Eff.readView_eq {s s' : State K} {M : Nat → Prop} {S : Prop}
    (e : Eff s s' (fun _ _ => False) M S) (v : View) (hb : v.buf < s.store.next)
    (hsz : v.off + v.len ≤ s.store.size v.buf) : s'.store.readView v = s.store.readView v :=
  Store.readView_congr _ _ _ hsz (e.size_eq _ hb) (fun i _ _ => e.frame _ i hb (fun h => h))

/-- `[f.copy() for f in fields]`: the new objects, in order, read what the originals read -/
theorem copyEach_reads : ∀ (os : List Obj) (s : State K), WF s → (∀ o ∈ os, ∃ m : Nat, s.objs[m]? = some o) →
    ∃ os' : List Obj, getObjs (copyEach s os).1 (copyEach s os).2 = .ok os' ∧
      os'.map (fun o' => (copyEach s os).1.store.readView o'.view) =
        os.map (fun o => s.store.readView o.view) := by
  intro os
  induction os with
  | nil => intro s _ _; exact ⟨[], rfl, rfl⟩
  | cons o os ih =>
    intro s hwf hlive
    have e1 := eff_allocObj hwf (mkCopy s.store o).1 (mkCopy s.store o).2 { o with members := [] }
    set s1 := s.allocObj (mkCopy s.store o).1 (mkCopy s.store o).2 { o with members := [] } with hs1
    have hlive1 : ∀ x ∈ os, ∃ m : Nat, s1.objs[m]? = some x := by
      intro x hx
      obtain ⟨m, hm⟩ := hlive x (List.mem_cons_of_mem _ hx)
      obtain ⟨x', h1, h2⟩ := e1.old m x hm
      rcases h2 with h2 | ⟨f, _⟩
      · exact ⟨m, by rw [h1, h2]⟩
      · exact f.elim
    obtain ⟨os', hget, hreads⟩ := ih s1 e1.wf hlive1
    obtain ⟨e2, _, _⟩ := eff_mapEach mkCopy os s1 e1.wf
    have hnew : s1.objs[s.objs.length]? =
        some { o with members := [], view := ⟨s.store.next, 0, (mkCopy s.store o).1.length⟩ } := by
      rw [hs1, allocObj_new]
    obtain ⟨o1, ho1, h2⟩ := e2.old _ _ hnew
    have ho1' : o1 = { o with members := [], view := ⟨s.store.next, 0, (mkCopy s.store o).1.length⟩ } := by
      rcases h2 with h2 | ⟨f, _⟩
      · exact h2
      · exact f.elim
    have hunf : copyEach s (o :: os) = ((copyEach s1 os).1, s.objs.length :: (copyEach s1 os).2) := rfl
    have hg1 : getObj (copyEach s1 os).1 s.objs.length = .ok o1 := by
      unfold getObj; rw [show (copyEach s1 os).1 = (mapEach mkCopy s1 os).1 from rfl, ho1]
    refine ⟨o1 :: os', ?_, ?_⟩
    · rw [hunf]
      show getObjs (copyEach s1 os).1 (s.objs.length :: (copyEach s1 os).2) = _
      unfold getObjs
      rw [hg1, hget]
    · rw [hunf]
      simp only [List.map_cons]
      congr 1
      · obtain ⟨hb1, hsz1⟩ := e1.wf _ _ hnew
        have := e2.readView_eq _ hb1 hsz1
        rw [show (copyEach s1 os).1 = (mapEach mkCopy s1 os).1 from rfl, ho1', this]
        show (s.store.alloc _ _).readView ⟨s.store.next, 0, _⟩ = _
        rw [readView_alloc_new]; rfl
      · rw [hreads]
        apply List.map_congr_left
        intro x hx
        obtain ⟨m, hm⟩ := hlive x (List.mem_cons_of_mem _ hx)
        exact readView_allocObj_old hwf hm _ _ _

/-- **values of a copied collection** (`FieldCollection.copy`, collection.py:552-580; also the forced-copy path of
the constructor runs `copyEach` + `linkColl`).  `fc.copy(dtype=dt)` creates one new object per member and then the
collection (id `s.objs.length + number of members`), whose array reads the CURRENT data of the member objects - not
the array of `fc`, the two differ after a member was re-linked to another collection - in order, every cell (ghost
cells included) converted to `dt`, by default to the dtype of `fc`. -/
theorem copy_collection_reads_members {s s' : State K} (hwf : WF s) {h : Nat} {o : Obj} {dt : Option DType}
    {os : List Obj} (ho : s.objs[h]? = some o) (hc : o.cls = .coll) (hos : getObjs s o.members = .ok os)
    (hs : step G s (.copy h dt) = .ok s') :
    s'.objs.length = s.objs.length + os.length + 1 ∧
    s'.denote (s.objs.length + os.length) =
      castCells (some (dt.getD (s.store.dtOf o.view.buf))) (os.flatMap (fun m => s.store.readView m.view)) := by
  have g : getObj s h = .ok o := by unfold getObj; rw [ho]
  simp only [step, g, copyAny, hc, copyColl, hos] at hs
  obtain ⟨os', hget, hreads⟩ := copyEach_reads os s hwf (getObjs_mem hos)
  obtain ⟨e1, hids, hlen⟩ := eff_mapEach mkCopy os s hwf
  change (copyEach s os).2 = _ at hids
  change (copyEach s os).1.objs.length = _ at hlen
  unfold linkColl linkFrom at hs
  rw [hget] at hs
  simp only at hs
  split at hs
  · cases hs
  split at hs
  · cases hs
  split at hs
  · cases hs
  split at hs
  · cases hs
  cases hs
  have hnot : (copyEach s os).1.objs.length ∉ (copyEach s os).2 := by
    rw [hids, hlen]; simp [List.mem_range']
  constructor
  · rw [relinkAll_length, allocObj_length, hlen]
  · unfold State.denote
    rw [← hlen, relinkAll_not_mem _ _ _ _ _ _ hnot, allocObj_new, relinkAll_store]
    simp only [State.allocObj]
    rw [readView_alloc_new]
    simp only [collCells, collDType, Option.getD_some]
    congr 1
    rw [List.flatMap_def, List.flatMap_def, hreads]

/-! ### the copied collection as an object, its members, and arithmetic on collections -/

/-- the collection object created by `fc.copy(dtype=dt)`: a collection on the grid of `fc` whose array has as many
cells as the members of `fc` together -/
theorem copy_collection_object {s s' : State K} (hwf : WF s) {h : Nat} {o : Obj} {dt : Option DType}
    {os : List Obj} (ho : s.objs[h]? = some o) (hc : o.cls = .coll) (hos : getObjs s o.members = .ok os)
    (hs : step G s (.copy h dt) = .ok s') :
    ∃ r : Obj, s'.objs[s.objs.length + os.length]? = some r ∧ r.cls = .coll ∧ r.grid = o.grid ∧
      r.view.len = (os.flatMap (fun m => s.store.readView m.view)).length := by
  have g : getObj s h = .ok o := by unfold getObj; rw [ho]
  simp only [step, g, copyAny, hc, copyColl, hos] at hs
  obtain ⟨os', hget, hreads⟩ := copyEach_reads os s hwf (getObjs_mem hos)
  obtain ⟨e1, hids, hlen⟩ := eff_mapEach mkCopy os s hwf
  change (copyEach s os).2 = _ at hids
  change (copyEach s os).1.objs.length = _ at hlen
  unfold linkColl linkFrom at hs
  rw [hget] at hs
  simp only at hs
  split at hs
  · cases hs
  split at hs
  · cases hs
  split at hs
  · cases hs
  split at hs
  · cases hs
  cases hs
  have hnot : (copyEach s os).1.objs.length ∉ (copyEach s os).2 := by
    rw [hids, hlen]; simp [List.mem_range']
  rw [← hlen, relinkAll_not_mem _ _ _ _ _ _ hnot, allocObj_new]
  refine ⟨_, rfl, rfl, rfl, ?_⟩
  simp only [collCells, length_castCells]
  rw [List.flatMap_def, List.flatMap_def, hreads]

/-- **values of `fc <op> v` for a collection `fc` and a number `v`** (`_binary_operation`: `result =
fc.copy(dtype=t)`, then the ufunc writes `result.data`): the result collection (id `len + #members`; its members are
the objects before it) holds `op(fc[p], v)` at every valid cell - `fc[p]` read from the collection's OWN array - and,
at every ghost cell, the CURRENT data of the member objects converted to the result dtype `t`. -/
theorem binop_collection_scalar_values {s s' : State K} (hwf : WF s) {bop : BinOp} {a : Nat} {v : K} {k : Nat}
    {oa : Obj} {os : List Obj} (hoa : s.objs[a]? = some oa) (hc : oa.cls = .coll)
    (hos : getObjs s oa.members = .ok os) (hs : step G s (.binop bop a (.num v k)) = .ok s') :
    ∃ (t : DType) (r : Obj), s'.objs[s.objs.length + os.length]? = some r ∧ r.cls = .coll ∧ r.grid = oa.grid ∧
      r.view.len = (os.flatMap (fun m => s.store.readView m.view)).length ∧
      ∀ p, p < r.view.len →
        (s'.denote (s.objs.length + os.length))[p]? = some
          (if validSel G r p = true then opv bop (cellOf (s.denote a) p) (some v)
           else ((castCells (some t) (os.flatMap (fun m => s.store.readView m.view)))[p]?).join) := by
  have ga : getObj s a = .ok oa := by unfold getObj; rw [hoa]
  have hda : s.denote a = s.store.readView oa.view := by unfold State.denote; rw [hoa]
  simp only [step, binop, ga] at hs
  split at hs
  · cases hs
  split at hs
  · cases hs
  unfold copyThenWrite at hs
  split at hs
  · cases hs
  rename_i s1 hc1
  have hstep : step G s (.copy a (some ((s.store.dtOf oa.view.buf).resultScalar k))) = .ok s1 := by
    simp only [step, ga]; exact hc1
  obtain ⟨e1, _, _⟩ := eff_copyAny hwf hc1
  obtain ⟨hlen, hden⟩ := copy_collection_reads_members hwf hoa hc hos hstep
  simp only [Option.getD_some] at hden
  obtain ⟨r, hr, hrc, hrg, hrl⟩ := copy_collection_object hwf hoa hc hos hstep
  have hlast : lastId s1 = s.objs.length + os.length := by unfold lastId; omega
  rw [hlast] at hs
  have gr : getObj s1 (s.objs.length + os.length) = .ok r := by unfold getObj; rw [hr]
  rw [gr] at hs
  simp only at hs
  cases hs
  refine ⟨(s.store.dtOf oa.view.buf).resultScalar k, r, hr, hrc, hrg, hrl, ?_⟩
  intro p hp
  obtain ⟨hb1, hsz1⟩ := e1.wf _ _ hr
  have hsz1' : r.view.off + r.view.len ≤ s1.store.size r.view.buf := by simpa using hsz1
  rw [denote_writeSel e1.wf _ _ _ hr p hp]
  have e0 : r.view.off + p - r.view.off = p := by omega
  simp only [e0]
  have hold : s1.store.readView oa.view = s.store.readView oa.view := by
    obtain ⟨hb, hsz⟩ := hwf a oa hoa
    exact e1.readView_eq _ hb (by simpa using hsz)
  have hread : s1.store.read r.view.buf (r.view.off + p) =
      ((castCells (some ((s.store.dtOf oa.view.buf).resultScalar k))
        (os.flatMap (fun m => s.store.readView m.view)))[p]?).join := by
    rw [← hden]
    unfold State.denote
    rw [hr, Store.getElem?_readView _ _ p hp hsz1']
    rfl
  by_cases hv : validSel G r p = true
  · rw [if_pos ⟨trivial, by omega, by omega, hv⟩, if_pos hv, hold, hda]
  · rw [if_neg (fun h => hv h.2.2.2), if_neg hv, hread]

/-- **values of `fc <op> b` for a collection `fc` and a field or collection `b`**, in the branch of
`_binary_operation` in which `fc` holds the result (`binopSrc = fc`: compatible collections, or a scalar field as
second operand of `/`, `**`): `op(fc[p], b[p mod len b])` at every valid cell, the current data of the members of `fc`
converted to the result dtype at every ghost cell. -/
theorem binop_collection_values {s s' : State K} (hwf : WF s) {bop : BinOp} {a hb : Nat}
    {oa ob : Obj} {os : List Obj} (hoa : s.objs[a]? = some oa) (hob : s.objs[hb]? = some ob) (hc : oa.cls = .coll)
    (hos : getObjs s oa.members = .ok os) (hsrc : binopSrc s bop oa ob = .ok oa)
    (hs : step G s (.binop bop a (.obj hb)) = .ok s') :
    ∃ (t : DType) (r : Obj), s'.objs[s.objs.length + os.length]? = some r ∧ r.cls = .coll ∧ r.grid = oa.grid ∧
      r.view.len = (os.flatMap (fun m => s.store.readView m.view)).length ∧
      ∀ p, p < r.view.len →
        (s'.denote (s.objs.length + os.length))[p]? = some
          (if validSel G r p = true then opv bop (cellOf (s.denote a) p) (cellOf (s.denote hb) p)
           else ((castCells (some t) (os.flatMap (fun m => s.store.readView m.view)))[p]?).join) := by
  have ga : getObj s a = .ok oa := by unfold getObj; rw [hoa]
  have hda : s.denote a = s.store.readView oa.view := by unfold State.denote; rw [hoa]
  have gb : getObj s hb = .ok ob := by unfold getObj; rw [hob]
  have hdb : s.denote hb = s.store.readView ob.view := by unfold State.denote; rw [hob]
  simp only [step, binop, ga, gb, hsrc] at hs
  split at hs
  · cases hs
  split at hs
  · cases hs
  split at hs
  · cases hs
  split at hs
  · cases hs
  unfold copyThenWrite at hs
  split at hs
  · cases hs
  rename_i s1 hc1
  have hstep : step G s (.copy a (some ((s.store.dtOf oa.view.buf).result (s.store.dtOf ob.view.buf)))) = .ok s1 := by
    simp only [step, ga]; exact hc1
  obtain ⟨e1, _, _⟩ := eff_copyAny hwf hc1
  obtain ⟨hlen, hden⟩ := copy_collection_reads_members hwf hoa hc hos hstep
  simp only [Option.getD_some] at hden
  obtain ⟨r, hr, hrc, hrg, hrl⟩ := copy_collection_object hwf hoa hc hos hstep
  have hlast : lastId s1 = s.objs.length + os.length := by unfold lastId; omega
  rw [hlast] at hs
  have gr : getObj s1 (s.objs.length + os.length) = .ok r := by unfold getObj; rw [hr]
  rw [gr] at hs
  simp only at hs
  cases hs
  refine ⟨(s.store.dtOf oa.view.buf).result (s.store.dtOf ob.view.buf), r, hr, hrc, hrg, hrl, ?_⟩
  intro p hp
  obtain ⟨hb1, hsz1⟩ := e1.wf _ _ hr
  have hsz1' : r.view.off + r.view.len ≤ s1.store.size r.view.buf := by simpa using hsz1
  rw [denote_writeSel e1.wf _ _ _ hr p hp]
  have e0 : r.view.off + p - r.view.off = p := by omega
  simp only [e0]
  have hold : s1.store.readView oa.view = s.store.readView oa.view := by
    obtain ⟨hb, hsz⟩ := hwf a oa hoa
    exact e1.readView_eq _ hb (by simpa using hsz)
  have holdb : s1.store.readView ob.view = s.store.readView ob.view := by
    obtain ⟨hb, hsz⟩ := hwf hb ob hob
    exact e1.readView_eq _ hb (by simpa using hsz)
  have hread : s1.store.read r.view.buf (r.view.off + p) =
      ((castCells (some ((s.store.dtOf oa.view.buf).result (s.store.dtOf ob.view.buf)))
        (os.flatMap (fun m => s.store.readView m.view)))[p]?).join := by
    rw [← hden]
    unfold State.denote
    rw [hr, Store.getElem?_readView _ _ p hp hsz1']
    rfl
  by_cases hv : validSel G r p = true
  · rw [if_pos ⟨trivial, by omega, by omega, hv⟩, if_pos hv, hold, holdb, hda, hdb]
  · rw [if_neg (fun h => hv h.2.2.2), if_neg hv, hread]

/-- **values of `a <op> fc` when the SECOND operand, a collection, holds the result** (`binopSrc = fc`: a scalar
field as first operand, base.py:527-531): `op(a[p mod len a], fc[p])` at every valid cell, the current data of the
members of `fc` converted to the result dtype at every ghost cell. -/
theorem binop_into_second_collection_values {s s' : State K} (hwf : WF s) {bop : BinOp} {a hb : Nat}
    {oa ob : Obj} {os : List Obj} (hoa : s.objs[a]? = some oa) (hob : s.objs[hb]? = some ob) (hc : ob.cls = .coll)
    (hos : getObjs s ob.members = .ok os) (hsrc : binopSrc s bop oa ob = .ok ob)
    (hs : step G s (.binop bop a (.obj hb)) = .ok s') :
    ∃ (t : DType) (r : Obj), s'.objs[s.objs.length + os.length]? = some r ∧ r.cls = .coll ∧ r.grid = ob.grid ∧
      r.view.len = (os.flatMap (fun m => s.store.readView m.view)).length ∧
      ∀ p, p < r.view.len →
        (s'.denote (s.objs.length + os.length))[p]? = some
          (if validSel G r p = true then opv bop (cellOf (s.denote a) p) (cellOf (s.denote hb) p)
           else ((castCells (some t) (os.flatMap (fun m => s.store.readView m.view)))[p]?).join) := by
  have ga : getObj s a = .ok oa := by unfold getObj; rw [hoa]
  have hda : s.denote a = s.store.readView oa.view := by unfold State.denote; rw [hoa]
  have gb : getObj s hb = .ok ob := by unfold getObj; rw [hob]
  have hdb : s.denote hb = s.store.readView ob.view := by unfold State.denote; rw [hob]
  simp only [step, binop, ga, gb, hsrc] at hs
  split at hs
  · cases hs
  split at hs
  · cases hs
  split at hs
  · cases hs
  split at hs
  · cases hs
  unfold copyThenWrite at hs
  split at hs
  · cases hs
  rename_i s1 hc1
  have hstep : step G s (.copy hb (some ((s.store.dtOf oa.view.buf).result (s.store.dtOf ob.view.buf)))) = .ok s1 := by
    simp only [step, gb]; exact hc1
  obtain ⟨e1, _, _⟩ := eff_copyAny hwf hc1
  obtain ⟨hlen, hden⟩ := copy_collection_reads_members hwf hob hc hos hstep
  simp only [Option.getD_some] at hden
  obtain ⟨r, hr, hrc, hrg, hrl⟩ := copy_collection_object hwf hob hc hos hstep
  have hlast : lastId s1 = s.objs.length + os.length := by unfold lastId; omega
  rw [hlast] at hs
  have gr : getObj s1 (s.objs.length + os.length) = .ok r := by unfold getObj; rw [hr]
  rw [gr] at hs
  simp only at hs
  cases hs
  refine ⟨(s.store.dtOf oa.view.buf).result (s.store.dtOf ob.view.buf), r, hr, hrc, hrg, hrl, ?_⟩
  intro p hp
  obtain ⟨hb1, hsz1⟩ := e1.wf _ _ hr
  have hsz1' : r.view.off + r.view.len ≤ s1.store.size r.view.buf := by simpa using hsz1
  rw [denote_writeSel e1.wf _ _ _ hr p hp]
  have e0 : r.view.off + p - r.view.off = p := by omega
  simp only [e0]
  have hold : s1.store.readView oa.view = s.store.readView oa.view := by
    obtain ⟨hb, hsz⟩ := hwf a oa hoa
    exact e1.readView_eq _ hb (by simpa using hsz)
  have holdb : s1.store.readView ob.view = s.store.readView ob.view := by
    obtain ⟨hb, hsz⟩ := hwf hb ob hob
    exact e1.readView_eq _ hb (by simpa using hsz)
  have hread : s1.store.read r.view.buf (r.view.off + p) =
      ((castCells (some ((s.store.dtOf oa.view.buf).result (s.store.dtOf ob.view.buf)))
        (os.flatMap (fun m => s.store.readView m.view)))[p]?).join := by
    rw [← hden]
    unfold State.denote
    rw [hr, Store.getElem?_readView _ _ p hp hsz1']
    rfl
  by_cases hv : validSel G r p = true
  · rw [if_pos ⟨trivial, by omega, by omega, hv⟩, if_pos hv, hold, holdb, hda, hdb]
  · rw [if_neg (fun h => hv h.2.2.2), if_neg hv, hread]

theorem flatMap_block {α β : Type} (f : α → List β) : ∀ (l : List α) (k : Nat) (x : α), l[k]? = some x →
    ((l.flatMap f).drop (((l.map (fun a => (f a).length)).take k).sum)).take (f x).length = f x := by
  intro l
  induction l with
  | nil => intro k x h; simp at h
  | cons a l ih =>
    intro k x h
    cases k with
    | zero =>
      simp at h; subst h
      simp
    | succ k =>
      simp at h
      simp only [List.flatMap_cons, List.map_cons, List.take_succ_cons, List.sum_cons]
      rw [List.drop_append, List.drop_eq_nil_of_le (by omega), List.nil_append, Nat.add_sub_cancel_left]
      exact ih k x h


theorem castCells_drop_take (l : List (Option K)) (dt : DType) (a b : Nat) :
    ((castCells (some dt) l).drop a).take b = castCells (some dt) ((l.drop a).take b) := by
  simp [castCells, List.map_drop, List.map_take]

/-- **values of the members of a copied collection**: member `k` of `fc.copy(dtype=dt)` (object `len + k`, re-linked
to block `k` of the new collection array) reads the current data of member `k` of `fc`, every cell converted to the
dtype of the copy. -/
theorem copy_collection_member_reads {s s' : State K} (hwf : WF s) {h : Nat} {o : Obj} {dt : Option DType}
    {os : List Obj} (ho : s.objs[h]? = some o) (hc : o.cls = .coll) (hos : getObjs s o.members = .ok os)
    (hs : step G s (.copy h dt) = .ok s') (k : Nat) (m : Obj) (hk : os[k]? = some m) :
    s'.denote (s.objs.length + k) =
      castCells (some (dt.getD (s.store.dtOf o.view.buf))) (s.store.readView m.view) := by
  have g : getObj s h = .ok o := by unfold getObj; rw [ho]
  simp only [step, g, copyAny, hc, copyColl, hos] at hs
  obtain ⟨os', hget, hreads⟩ := copyEach_reads os s hwf (getObjs_mem hos)
  obtain ⟨e1, hids, hlen⟩ := eff_mapEach mkCopy os s hwf
  change (copyEach s os).2 = _ at hids
  change (copyEach s os).1.objs.length = _ at hlen
  unfold linkColl linkFrom at hs
  rw [hget] at hs
  simp only at hs
  split at hs
  · cases hs
  split at hs
  · cases hs
  split at hs
  · cases hs
  split at hs
  · cases hs
  cases hs
  set A := (copyEach s os).1 with hA
  have wfA : WF A := e1.wf
  obtain ⟨hl', hko⟩ := getObjs_ok hget
  have hkl : k < os.length := lt_length_of_getElem? hk
  have hlo : os'.length = os.length := by rw [hl', hids]; simp
  have hmsk : (copyEach s os).2[k]? = some (s.objs.length + k) := by
    rw [hids]; simp [hkl]
  obtain ⟨m', hm'1, hm'2⟩ := hko k _ hmsk
  have hnd : (copyEach s os).2.Nodup := by rw [hids]; exact List.nodup_range'
  have hkm : k < (copyEach s os).2.length := by rw [hids]; simpa using hkl
  have hkls : k < (os'.map (·.view.len)).length := by simpa [hlo] using hkl
  have hmsk' : (copyEach s os).2[k] = s.objs.length + k := by
    have := List.getElem?_eq_getElem hkm; rw [hmsk] at this; exact (Option.some.inj this).symm
  have hrel := relinkAll_mem A.store.next (copyEach s os).2 (os'.map (·.view.len))
    (A.allocObj (collCells A os' none (collDType A os' none (some (dt.getD (s.store.dtOf o.view.buf)))))
      (collDType A os' none (some (dt.getD (s.store.dtOf o.view.buf))))
      { cls := .coll, grid := o.grid, ncomp := (os'.map (·.ncomp)).sum, view := ⟨0, 0, 0⟩,
        members := (copyEach s os).2 }) 0 hnd (by simp [hl']) k hkm hkls
  rw [hmsk'] at hrel
  have hold : (A.allocObj (collCells A os' none (collDType A os' none (some (dt.getD (s.store.dtOf o.view.buf)))))
      (collDType A os' none (some (dt.getD (s.store.dtOf o.view.buf))))
      { cls := .coll, grid := o.grid, ncomp := (os'.map (·.ncomp)).sum, view := ⟨0, 0, 0⟩,
        members := (copyEach s os).2 }).objs[s.objs.length + k]? = some m' := by
    simp only [State.allocObj]
    rw [List.getElem?_append_left (by rw [hlen]; omega)]
    exact hm'2
  rw [hold] at hrel
  unfold State.denote
  rw [hrel]
  simp only [Option.map_some, relinkAll_store, State.allocObj]
  -- the new buffer
  have hrv : ∀ (st : Store K) (c : List (Option K)) (d : DType) (a b : Nat),
      (st.alloc c d).readView ⟨st.next, a, b⟩ = (c.drop a).take b := by
    intro st c d a b; simp [Store.readView, Store.alloc, Store.next]
  rw [hrv]
  simp only [collCells, collDType, Option.getD_some, Nat.zero_add]
  rw [castCells_drop_take]
  congr 1
  -- lengths of the blocks are the lengths of what the copied members read
  have hlens : os'.map (·.view.len) = os'.map (fun a => (A.store.readView a.view).length) := by
    apply List.map_congr_left
    intro x hx
    obtain ⟨j, hj⟩ := getObjs_mem hget x hx
    exact (Store.length_readView _ _ (by simpa using (wfA j x hj).2)).symm
  have hxk : (os'.map (·.view.len))[k] = (A.store.readView m'.view).length := by
    have : (os'.map (·.view.len))[k]? = some (A.store.readView m'.view).length := by
      rw [hlens, List.getElem?_map, hm'1]; rfl
    rw [List.getElem?_eq_getElem hkls] at this; exact Option.some.inj this
  rw [hxk, hlens, flatMap_block (fun a => A.store.readView a.view) os' k m' hm'1]
  -- what the copied member reads is what the original member reads
  have := congrArg (fun l => l[k]?) hreads
  simp only [List.getElem?_map, hm'1, hk, Option.map_some] at this
  exact Option.some.inj this

/-- `[make(f) for f in fields]` for any `make` whose content depends on what the field reads only: the new objects,
in order, read `make(f)` of the originals -/
theorem mapEach_reads (mk : Store K → Obj → List (Option K) × DType)
    (hmk : ∀ (st st' : Store K) (o : Obj), st'.readView o.view = st.readView o.view → (mk st' o).1 = (mk st o).1) :
    ∀ (os : List Obj) (s : State K), WF s → (∀ o ∈ os, ∃ m : Nat, s.objs[m]? = some o) →
    ∃ os' : List Obj, getObjs (mapEach mk s os).1 (mapEach mk s os).2 = .ok os' ∧
      os'.map (fun o' => (mapEach mk s os).1.store.readView o'.view) =
        os.map (fun o => (mk s.store o).1) := by
  intro os
  induction os with
  | nil => intro s _ _; exact ⟨[], rfl, rfl⟩
  | cons o os ih =>
    intro s hwf hlive
    have e1 := eff_allocObj hwf (mk s.store o).1 (mk s.store o).2 { o with members := [] }
    set s1 := s.allocObj (mk s.store o).1 (mk s.store o).2 { o with members := [] } with hs1
    have hlive1 : ∀ x ∈ os, ∃ m : Nat, s1.objs[m]? = some x := by
      intro x hx
      obtain ⟨m, hm⟩ := hlive x (List.mem_cons_of_mem _ hx)
      obtain ⟨x', h1, h2⟩ := e1.old m x hm
      rcases h2 with h2 | ⟨f, _⟩
      · exact ⟨m, by rw [h1, h2]⟩
      · exact f.elim
    obtain ⟨os', hget, hreads⟩ := ih s1 e1.wf hlive1
    obtain ⟨e2, _, _⟩ := eff_mapEach mk os s1 e1.wf
    have hnew : s1.objs[s.objs.length]? =
        some { o with members := [], view := ⟨s.store.next, 0, (mk s.store o).1.length⟩ } := by
      rw [hs1, allocObj_new]
    obtain ⟨o1, ho1, h2⟩ := e2.old _ _ hnew
    have ho1' : o1 = { o with members := [], view := ⟨s.store.next, 0, (mk s.store o).1.length⟩ } := by
      rcases h2 with h2 | ⟨f, _⟩
      · exact h2
      · exact f.elim
    have hunf : mapEach mk s (o :: os) = ((mapEach mk s1 os).1, s.objs.length :: (mapEach mk s1 os).2) := rfl
    have hg1 : getObj (mapEach mk s1 os).1 s.objs.length = .ok o1 := by
      unfold getObj; rw [ho1]
    refine ⟨o1 :: os', ?_, ?_⟩
    · rw [hunf]
      show getObjs (mapEach mk s1 os).1 (s.objs.length :: (mapEach mk s1 os).2) = _
      unfold getObjs
      rw [hg1, hget]
    · rw [hunf]
      simp only [List.map_cons]
      congr 1
      · obtain ⟨hb1, hsz1⟩ := e1.wf _ _ hnew
        have := e2.readView_eq _ hb1 hsz1
        rw [ho1', this]
        show (s.store.alloc _ _).readView ⟨s.store.next, 0, _⟩ = _
        rw [readView_alloc_new]
      · rw [hreads]
        apply List.map_congr_left
        intro x hx
        obtain ⟨m, hm⟩ := hlive x (List.mem_cons_of_mem _ hx)
        exact hmk _ _ _ (readView_allocObj_old hwf hm _ _ _)

/-- **values of `-fc`** for a collection (collection.py:632-643: `FieldCollection([-f for f in fields])`): one new
object per member, then the collection (id `len + #members`), whose array holds, member after member, `-x` at the
valid cells and NOTHING at the ghost cells - converted to the dtype `t` the constructor derives from the members. -/
theorem negate_collection_values {s s' : State K} (hwf : WF s) {h : Nat} {o : Obj} {os : List Obj}
    (ho : s.objs[h]? = some o) (hc : o.cls = .coll) (hos : getObjs s o.members = .ok os)
    (hs : step G s (.neg h) = .ok s') :
    s'.objs.length = s.objs.length + os.length + 1 ∧
    ∃ t : DType, s'.denote (s.objs.length + os.length) = castCells (some t) (os.flatMap (fun m =>
      (s.store.readView m.view).mapIdx (fun p x => if validSel G m p then x.map (fun y => -y) else none))) := by
  have g : getObj s h = .ok o := by unfold getObj; rw [ho]
  simp only [step, g, negate, hc, hos] at hs
  have hs' : linkColl (mapEach (mkNeg G) s os).1 (mapEach (mkNeg G) s os).2 o.grid none = .ok s' := by
    simpa using hs
  clear hs
  obtain ⟨os', hget, hreads⟩ := mapEach_reads (mkNeg G)
    (fun st st' o e => by simp only [mkNeg, e]) os s hwf (getObjs_mem hos)
  obtain ⟨e1, hids, hlen⟩ := eff_mapEach (mkNeg G) os s hwf
  unfold linkColl linkFrom at hs'
  rw [hget] at hs'
  simp only at hs'
  split at hs'
  · cases hs'
  split at hs'
  · cases hs'
  split at hs'
  · cases hs'
  split at hs'
  · cases hs'
  cases hs'
  have hnot : (mapEach (mkNeg G) s os).1.objs.length ∉ (mapEach (mkNeg G) s os).2 := by
    rw [hids, hlen]; simp [List.mem_range']
  constructor
  · rw [relinkAll_length, allocObj_length, hlen]
  · refine ⟨collDType (mapEach (mkNeg G) s os).1 os' none none, ?_⟩
    unfold State.denote
    rw [← hlen, relinkAll_not_mem _ _ _ _ _ _ hnot, allocObj_new, relinkAll_store]
    simp only [State.allocObj]
    rw [readView_alloc_new]
    simp only [collCells]
    congr 1
    rw [List.flatMap_def, List.flatMap_def, hreads]
    rfl

end

/-! ### concrete histories (kernel-evaluated): the hypotheses are satisfiable, the conclusions are what the model computes -/

/-- a scalar field (0), a vector field on the 1-d grid (1) with boundary values in its ghost cells, their product (2:
a copy of the VECTOR operand, ghost cells 7 and 8 carried along), `-v` (3: ghost cells never written), a collection
of both (4), a write through member 0, and the copy of the collection (members 5 and 6, collection 7) -/
def exVals : List (Op Int) :=
  [ .mkField .scalar 0 none false (.valid [5, 1, 2, 6]),
    .mkField .vector 0 none false (.valid [7, 3, 4, 8]),
    .setGhosts 1 [some 7, none, none, some 8],
    .binop .mul 0 (.obj 1),
    .neg 1,
    .mkColl [0, 1] false none,
    .writeCell 0 1 9,
    .copy 4 none ]

example : (run exGrid {} exVals).denote 2 = [some 7, some 3, some 8, some 8] ∧
    (run exGrid {} exVals).denote 3 = [none, some (-3), some (-4), none] ∧
    (run exGrid {} exVals).denote 7 = [none, some 9, some 2, none, some 7, some 3, some 4, some 8] ∧
    (run exGrid {} exVals).denote 5 = [none, some 9, some 2, none] ∧
    aliases (run exGrid {} exVals) 7 4 = false ∧ aliases (run exGrid {} exVals) 5 7 = true := by
  decide +kernel

/-- `negate_field_values`, `binop_field_values` and `copy_collection_reads_members` applied to these steps: every
hypothesis is discharged on the concrete state -/
example : ∃ s' : State Int, step exGrid (run exGrid {} (exVals.take 4)) (.neg 1) = .ok s' ∧
    s'.denote 3 = [none, some (-3), some (-4), none] := by
  refine ⟨run exGrid {} (exVals.take 5), rfl, ?_⟩
  rw [show (3 : Nat) = (run exGrid {} (exVals.take 4)).objs.length by decide +kernel,
    negate_field_values (G := exGrid) (h := 1) (o := ⟨.vector, 0, 1, ⟨1, 0, 4⟩, []⟩)
      rfl (by decide) rfl]
  decide +kernel

example : ∃ s' : State Int, step exGrid (run exGrid {} (exVals.take 7)) (.copy 4 none) = .ok s' ∧
    s'.objs.length = 8 ∧ s'.denote 7 = [none, some 9, some 2, none, some 7, some 3, some 4, some 8] := by
  refine ⟨run exGrid {} exVals, rfl, ?_⟩
  have h := copy_collection_reads_members (G := exGrid) (s := run exGrid {} (exVals.take 7))
    (s' := run exGrid {} exVals) (h := 4) (dt := none)
    (o := ⟨.coll, 0, 2, ⟨4, 0, 8⟩, [0, 1]⟩)
    (os := [⟨.scalar, 0, 1, ⟨4, 0, 4⟩, []⟩, ⟨.vector, 0, 1, ⟨4, 4, 4⟩, []⟩])
    (wf_run wf_empty _) rfl rfl rfl rfl
  refine ⟨by decide +kernel, ?_⟩
  have e : (7 : Nat) = (run exGrid {} (exVals.take 7)).objs.length + 2 := by decide +kernel
  rw [e]
  exact h.2.trans (by decide +kernel)

/-- the hypotheses of `binop_field_values` hold for the product of the scalar and the vector field -/
example : True := by
  have := binop_field_values (G := exGrid) (s := run exGrid {} (exVals.take 3))
    (s' := run exGrid {} (exVals.take 4)) (bop := .mul) (a := 0) (hb := 1)
    (oa := ⟨.scalar, 0, 1, ⟨0, 0, 4⟩, []⟩) (ob := ⟨.vector, 0, 1, ⟨1, 0, 4⟩, []⟩)
    (wf_run wf_empty _) rfl rfl (by decide) (by decide) rfl
  trivial

/-- the hypotheses of `inplace_field_values` hold for `v *= f` (vector field times scalar field, in place): valid
cells 3*1 and 4*2, the boundary values 7 and 8 in the ghost cells stay -/
example : True := by
  have := inplace_field_values (G := exGrid) (s := run exGrid {} (exVals.take 3))
    (s' := run exGrid {} (exVals.take 3 ++ [.inplace .mul 1 (.obj 0)])) (bop := .mul) (a := 1) (hb := 0)
    (oa := ⟨.vector, 0, 1, ⟨1, 0, 4⟩, []⟩) (ob := ⟨.scalar, 0, 1, ⟨0, 0, 4⟩, []⟩)
    (wf_run wf_empty _) rfl rfl rfl
  trivial
example : (run exGrid {} (exVals.take 3 ++ [.inplace .mul 1 (.obj 0)])).denote 1 =
    [some 7, some 3, some 8, some 8] := by decide +kernel

/-- `copy_collection_member_reads` and `binop_collection_scalar_values` on the collection of the example (handle 4,
members 0 and 1): the hypotheses are satisfiable; `fc * 2` = members 5, 6 and collection 7 -/
example : True := by
  have h1 := copy_collection_member_reads (G := exGrid) (s := run exGrid {} (exVals.take 7))
    (s' := run exGrid {} exVals) (h := 4) (dt := none) (o := ⟨.coll, 0, 2, ⟨4, 0, 8⟩, [0, 1]⟩)
    (os := [⟨.scalar, 0, 1, ⟨4, 0, 4⟩, []⟩, ⟨.vector, 0, 1, ⟨4, 4, 4⟩, []⟩])
    (wf_run wf_empty _) rfl rfl rfl rfl 1 ⟨.vector, 0, 1, ⟨4, 4, 4⟩, []⟩ rfl
  have h2 := binop_collection_scalar_values (G := exGrid) (s := run exGrid {} (exVals.take 7))
    (s' := run exGrid {} (exVals.take 7 ++ [.binop .mul 4 (.num 2 0)])) (bop := .mul) (a := 4) (v := 2) (k := 0)
    (oa := ⟨.coll, 0, 2, ⟨4, 0, 8⟩, [0, 1]⟩)
    (os := [⟨.scalar, 0, 1, ⟨4, 0, 4⟩, []⟩, ⟨.vector, 0, 1, ⟨4, 4, 4⟩, []⟩])
    (wf_run wf_empty _) rfl rfl rfl rfl
  trivial
example : (run exGrid {} exVals).denote 6 = [some 7, some 3, some 4, some 8] ∧
    (run exGrid {} (exVals.take 7 ++ [.binop .mul 4 (.num 2 0)])).denote 7 =
      [none, some 18, some 4, none, some 7, some 6, some 8, some 8] := by decide +kernel

/-- `negate_collection_values` on the same collection: `-fc` = members 5, 6 and collection 7; ghost cells never written -/
example : True := by
  have h := negate_collection_values (G := exGrid) (s := run exGrid {} (exVals.take 7))
    (s' := run exGrid {} (exVals.take 7 ++ [.neg 4])) (h := 4) (o := ⟨.coll, 0, 2, ⟨4, 0, 8⟩, [0, 1]⟩)
    (os := [⟨.scalar, 0, 1, ⟨4, 0, 4⟩, []⟩, ⟨.vector, 0, 1, ⟨4, 4, 4⟩, []⟩])
    (wf_run wf_empty _) rfl rfl rfl rfl
  trivial
example : (run exGrid {} (exVals.take 7 ++ [.neg 4])).denote 7 =
    [none, some (-9), some (-2), none, none, some (-3), some (-4), none] := by decide +kernel

/-- `binop_collection_values` on `fc * fc`: hypotheses satisfiable (the collection itself holds the result) -/
example : True := by
  have h := binop_collection_values (G := exGrid) (s := run exGrid {} (exVals.take 7))
    (s' := run exGrid {} (exVals.take 7 ++ [.binop .mul 4 (.obj 4)])) (bop := .mul) (a := 4) (hb := 4)
    (oa := ⟨.coll, 0, 2, ⟨4, 0, 8⟩, [0, 1]⟩) (ob := ⟨.coll, 0, 2, ⟨4, 0, 8⟩, [0, 1]⟩)
    (os := [⟨.scalar, 0, 1, ⟨4, 0, 4⟩, []⟩, ⟨.vector, 0, 1, ⟨4, 4, 4⟩, []⟩])
    (wf_run wf_empty _) rfl rfl rfl rfl rfl rfl
  trivial
example : (run exGrid {} (exVals.take 7 ++ [.binop .mul 4 (.obj 4)])).denote 7 =
    [none, some 81, some 4, none, some 7, some 9, some 16, some 8] := by decide +kernel

/-- `binop_into_second_collection_values` on `f * fc` (scalar field 0, a member of the collection 4, times the
collection): the collection operand holds the result, the scalar field is broadcast over both members -/
example : True := by
  have h := binop_into_second_collection_values (G := exGrid) (s := run exGrid {} (exVals.take 7))
    (s' := run exGrid {} (exVals.take 7 ++ [.binop .mul 0 (.obj 4)])) (bop := .mul) (a := 0) (hb := 4)
    (oa := ⟨.scalar, 0, 1, ⟨4, 0, 4⟩, []⟩) (ob := ⟨.coll, 0, 2, ⟨4, 0, 8⟩, [0, 1]⟩)
    (os := [⟨.scalar, 0, 1, ⟨4, 0, 4⟩, []⟩, ⟨.vector, 0, 1, ⟨4, 4, 4⟩, []⟩])
    (wf_run wf_empty _) rfl rfl rfl rfl rfl rfl
  trivial
example : (run exGrid {} (exVals.take 7 ++ [.binop .mul 0 (.obj 4)])).denote 7 =
    [none, some 81, some 4, none, some 7, some 27, some 8, some 8] := by decide +kernel

end PdeVerif.Heap
