import PdeVerif.Props.C16Eps
/-
C16, theorem gaps closed after the second review (gap round):

* `insert_compiled_ghost_integral3` (any clipping constant), `insert_conserves_compiled_ghost3`
  (inert clipping: exactly `amount`), `insert_conserves_compiled_ghost3_eps` (the code's constant:
  within `3·eps·|amount|`) - the ghost-cell variant of the compiled inserter on **3 axes** (was proved
  for 1 and 2 axes only).
* `ghost_mode_value_upper`, `ghost_mode_derivative_lower/upper` - the 1-axis interpolant next to a face
  as a function of the imposed value / derivative on BOTH faces (was: lower-face Dirichlet only).
-/
set_option linter.unusedSectionVars false
namespace PdeVerif.Interp
open PdeVerif

section
variable {K : Type} [Field K] [LinearOrder K] [IsStrictOrderedRing K] [FloorRing K]

/-! ## compiled inserter with ghost cells, 3 axes -/

theorem volIdx_ghost_valid {n i : Int} (h0 : 1 ≤ i) (h1 : i ≤ n) : volIdx true n i = i - 1 := by
  unfold volIdx; simp only [if_true]; rw [if_neg (by omega), if_neg (by omega)]

/-- **compiled inserter with ghost cells, 3 axes, any clipping constant**: when all support points are
valid cells the integral over the valid cells rises by the product of the weight sums times the
amount (the volumes are looked up at the un-shifted indices, `volIdx`) -/
theorem insert_compiled_ghost_integral3 (eps : K) (ax ay az : Axis K)
    (vol full : Idx → K) (px py pz amount : K)
    (hvol : ∀ i j k, 0 ≤ i → i < ax.size → 0 ≤ j → j < ay.size → 0 ≤ k → k < az.size →
      vol [i, j, k] ≠ 0)
    (a b c : AxisData K) (ha : axisData eps true false ax px = some a)
    (hb : axisData eps true false ay py = some b) (hc : axisData eps true false az pz = some c)
    (hina : 1 ≤ a.li ∧ a.li ≤ ax.size ∧ 1 ≤ a.hi ∧ a.hi ≤ ax.size)
    (hinb : 1 ≤ b.li ∧ b.li ≤ ay.size ∧ 1 ≤ b.hi ∧ b.hi ≤ ay.size)
    (hinc : 1 ≤ c.li ∧ c.li ≤ az.size ∧ 1 ≤ c.hi ∧ c.hi ≤ az.size)
    (full' : Idx → K)
    (h : insertComp3 eps true ax ay az vol full px py pz amount = some full') :
    integral [ax.size, ay.size, az.size] vol (validView full')
      = integral [ax.size, ay.size, az.size] vol (validView full)
        + (a.wl + a.wh) * (b.wl + b.wh) * (c.wl + c.wh) * amount := by
  unfold insertComp3 at h
  rw [ha, hb, hc] at h; simp only [Option.some.injEq] at h; rw [← h]
  obtain ⟨al0, al1, ah0, ah1⟩ := hina
  obtain ⟨bl0, bl1, bh0, bh1⟩ := hinb
  obtain ⟨cl0, cl1, ch0, ch1⟩ := hinc
  rw [validView_deposit, validView_deposit, validView_deposit, validView_deposit,
    validView_deposit, validView_deposit, validView_deposit, validView_deposit,
    volIdx_ghost_valid al0 al1, volIdx_ghost_valid ah0 ah1, volIdx_ghost_valid bl0 bl1,
    volIdx_ghost_valid bh0 bh1, volIdx_ghost_valid cl0 cl1, volIdx_ghost_valid ch0 ch1]
  simp only [List.map_cons, List.map_nil]
  rw [integral_deposit _ _ _ _ _
      (validIdx3 (by omega) (by omega) (by omega) (by omega) (by omega) (by omega)),
    integral_deposit _ _ _ _ _
      (validIdx3 (by omega) (by omega) (by omega) (by omega) (by omega) (by omega)),
    integral_deposit _ _ _ _ _
      (validIdx3 (by omega) (by omega) (by omega) (by omega) (by omega) (by omega)),
    integral_deposit _ _ _ _ _
      (validIdx3 (by omega) (by omega) (by omega) (by omega) (by omega) (by omega)),
    integral_deposit _ _ _ _ _
      (validIdx3 (by omega) (by omega) (by omega) (by omega) (by omega) (by omega)),
    integral_deposit _ _ _ _ _
      (validIdx3 (by omega) (by omega) (by omega) (by omega) (by omega) (by omega)),
    integral_deposit _ _ _ _ _
      (validIdx3 (by omega) (by omega) (by omega) (by omega) (by omega) (by omega)),
    integral_deposit _ _ _ _ _
      (validIdx3 (by omega) (by omega) (by omega) (by omega) (by omega) (by omega))]
  have v1 := hvol (a.li - 1) (b.li - 1) (c.li - 1) (by omega) (by omega) (by omega) (by omega)
    (by omega) (by omega)
  have v2 := hvol (a.li - 1) (b.li - 1) (c.hi - 1) (by omega) (by omega) (by omega) (by omega)
    (by omega) (by omega)
  have v3 := hvol (a.li - 1) (b.hi - 1) (c.li - 1) (by omega) (by omega) (by omega) (by omega)
    (by omega) (by omega)
  have v4 := hvol (a.li - 1) (b.hi - 1) (c.hi - 1) (by omega) (by omega) (by omega) (by omega)
    (by omega) (by omega)
  have v5 := hvol (a.hi - 1) (b.li - 1) (c.li - 1) (by omega) (by omega) (by omega) (by omega)
    (by omega) (by omega)
  have v6 := hvol (a.hi - 1) (b.li - 1) (c.hi - 1) (by omega) (by omega) (by omega) (by omega)
    (by omega) (by omega)
  have v7 := hvol (a.hi - 1) (b.hi - 1) (c.li - 1) (by omega) (by omega) (by omega) (by omega)
    (by omega) (by omega)
  have v8 := hvol (a.hi - 1) (b.hi - 1) (c.hi - 1) (by omega) (by omega) (by omega) (by omega)
    (by omega) (by omega)
  field_simp
  ring

/-- **compiled inserter with ghost cells, 3 axes** (inert clipping): the integral over the valid
cells grows by exactly `amount` -/
theorem insert_conserves_compiled_ghost3 {eps : K} (he : eps ≤ 0) (ax ay az : Axis K)
    (vol full : Idx → K) (px py pz amount : K)
    (hvol : ∀ i j k, 0 ≤ i → i < ax.size → 0 ≤ j → j < ay.size → 0 ≤ k → k < az.size →
      vol [i, j, k] ≠ 0)
    (a b c : AxisData K) (ha : axisData eps true false ax px = some a)
    (hb : axisData eps true false ay py = some b) (hc : axisData eps true false az pz = some c)
    (hina : 1 ≤ a.li ∧ a.li ≤ ax.size ∧ 1 ≤ a.hi ∧ a.hi ≤ ax.size)
    (hinb : 1 ≤ b.li ∧ b.li ≤ ay.size ∧ 1 ≤ b.hi ∧ b.hi ≤ ay.size)
    (hinc : 1 ≤ c.li ∧ c.li ≤ az.size ∧ 1 ≤ c.hi ∧ c.hi ≤ az.size)
    (full' : Idx → K)
    (h : insertComp3 eps true ax ay az vol full px py pz amount = some full') :
    integral [ax.size, ay.size, az.size] vol (validView full')
      = integral [ax.size, ay.size, az.size] vol (validView full) + amount := by
  obtain ⟨hsa, -, -⟩ := weights_nonneg_sum_one he true false ax px a ha
  obtain ⟨hsb, -, -⟩ := weights_nonneg_sum_one he true false ay py b hb
  obtain ⟨hsc, -, -⟩ := weights_nonneg_sum_one he true false az pz c hc
  rw [insert_compiled_ghost_integral3 eps ax ay az vol full px py pz amount hvol a b c ha hb hc
    hina hinb hinc full' h, hsa, hsb, hsc]
  ring

/-- on periodic axes the hypothesis about the support points always holds: a fully periodic 3-axis
grid conserves the amount for EVERY point -/
theorem insert_conserves_compiled_ghost3_periodic {eps : K} (he : eps ≤ 0) (ax ay az : Axis K)
    (hsx : 1 ≤ ax.size) (hsy : 1 ≤ ay.size) (hsz : 1 ≤ az.size)
    (hpx : ax.periodic = true) (hpy : ay.periodic = true) (hpz : az.periodic = true)
    (vol full : Idx → K) (px py pz amount : K)
    (hvol : ∀ i j k, 0 ≤ i → i < ax.size → 0 ≤ j → j < ay.size → 0 ≤ k → k < az.size →
      vol [i, j, k] ≠ 0) :
    ∃ full', insertComp3 eps true ax ay az vol full px py pz amount = some full' ∧
      integral [ax.size, ay.size, az.size] vol (validView full')
        = integral [ax.size, ay.size, az.size] vol (validView full) + amount := by
  obtain ⟨a, ha⟩ := Option.isSome_iff_exists.mp (axisData_periodic_isSome eps true false ax hpx px)
  obtain ⟨b, hb⟩ := Option.isSome_iff_exists.mp (axisData_periodic_isSome eps true false ay hpy py)
  obtain ⟨c, hc⟩ := Option.isSome_iff_exists.mp (axisData_periodic_isSome eps true false az hpz pz)
  have hina := (indices_in_range_ghost eps false ax hsx px a ha).2.2.2.2 hpx
  have hinb := (indices_in_range_ghost eps false ay hsy py b hb).2.2.2.2 hpy
  have hinc := (indices_in_range_ghost eps false az hsz pz c hc).2.2.2.2 hpz
  have hsome : ∃ full', insertComp3 eps true ax ay az vol full px py pz amount = some full' := by
    unfold insertComp3; rw [ha, hb, hc]; exact ⟨_, rfl⟩
  obtain ⟨full', h⟩ := hsome
  exact ⟨full', h, insert_conserves_compiled_ghost3 he ax ay az vol full px py pz amount hvol
    a b c ha hb hc hina hinb hinc full' h⟩

/-- with the code's clipping: up to `3·eps·|amount|` -/
theorem insert_conserves_compiled_ghost3_eps {eps : K} (h0 : 0 ≤ eps) (h1 : eps ≤ 1/2)
    (ax ay az : Axis K) (vol full : Idx → K) (px py pz amount : K)
    (hvol : ∀ i j k, 0 ≤ i → i < ax.size → 0 ≤ j → j < ay.size → 0 ≤ k → k < az.size →
      vol [i, j, k] ≠ 0)
    (a b c : AxisData K) (ha : axisData eps true false ax px = some a)
    (hb : axisData eps true false ay py = some b) (hc : axisData eps true false az pz = some c)
    (hina : 1 ≤ a.li ∧ a.li ≤ ax.size ∧ 1 ≤ a.hi ∧ a.hi ≤ ax.size)
    (hinb : 1 ≤ b.li ∧ b.li ≤ ay.size ∧ 1 ≤ b.hi ∧ b.hi ≤ ay.size)
    (hinc : 1 ≤ c.li ∧ c.li ≤ az.size ∧ 1 ≤ c.hi ∧ c.hi ≤ az.size)
    (full' : Idx → K)
    (h : insertComp3 eps true ax ay az vol full px py pz amount = some full') :
    |integral [ax.size, ay.size, az.size] vol (validView full')
        - (integral [ax.size, ay.size, az.size] vol (validView full) + amount)|
      ≤ 3 * eps * |amount| := by
  obtain ⟨a1, a2⟩ := weight_sum_bounds h0 h1 ha
  obtain ⟨b1, b2⟩ := weight_sum_bounds h0 h1 hb
  obtain ⟨c1, c2⟩ := weight_sum_bounds h0 h1 hc
  rw [insert_compiled_ghost_integral3 eps ax ay az vol full px py pz amount hvol a b c ha hb hc
    hina hinb hinc full' h]
  set A := a.wl + a.wh
  set B := b.wl + b.wh
  set C := c.wl + c.wh
  have hA0 : 0 ≤ A := by linarith
  have hB0 : 0 ≤ B := by linarith
  have hC0 : 0 ≤ C := by linarith
  have hab := mass2_clip (A := A) (A0 := 1) (B := B) (B0 := 1) (eps := eps)
    ⟨hA0, a2, le_refl _, by linarith⟩ ⟨hB0, b2, le_refl _, by linarith⟩
  have hAB0 : 0 ≤ A * B := hab.1
  have hAB1 : A * B ≤ 1 := by linarith [hab.2.1]
  have e : 1 - A * B * C = (1 - A * B) + A * B * (1 - C) := by ring
  have t : A * B * (1 - C) ≤ 1 * eps := mul_le_mul hAB1 (by linarith) (by linarith) (by norm_num)
  have hnn : 0 ≤ 1 - A * B * C := by
    rw [e]; have := mul_nonneg hAB0 (by linarith : (0:K) ≤ 1 - C); linarith
  rw [show integral [ax.size, ay.size, az.size] vol (validView full) + A * B * C * amount
      - (integral [ax.size, ay.size, az.size] vol (validView full) + amount)
        = -((1 - A * B * C) * amount) by ring,
    abs_neg, abs_mul, abs_of_nonneg hnn]
  refine mul_le_mul_of_nonneg_right ?_ (abs_nonneg _)
  rw [e]; linarith [hab.2.2.2]

/-! ## ghost mode, 1 axis: the interpolant as a function of the imposed value / derivative, both faces -/

/-- imposed value `v` at the UPPER face (`ghost = 2 v - last cell`): from the face (`τ = 0`) to the last
centre (`τ = 1`) the interpolant is `v + τ (last - v)` -/
theorem ghost_mode_value_upper {eps : K} (he : eps ≤ 0) (fill : Option K) (ax : Axis K)
    (hper : ax.periodic = false) (hs : 1 ≤ ax.size) (hdx : ax.dx ≠ 0) (data : Idx → K) (v : K)
    (hbc : data [ax.size + 1] = 2 * v - data [ax.size]) {τ : K} (h0 : 0 ≤ τ) (h1 : τ ≤ 1) :
    interp1 eps true false fill ax data (upperEnd ax - τ * (ax.dx / 2))
      = some (v + τ * (data [ax.size] - v)) := by
  rw [(ghost_mode_linear_to_bc_value he fill ax hper hs hdx data h0 h1).2, hbc, ghostLine_dirichlet]

/-- imposed outward derivative `d` at the lower face (`ghost = first cell + d·dx`): the interpolant is
the line through the first cell value with outward slope `d` (distance to the centre
`(1-τ)·dx/2`) -/
theorem ghost_mode_derivative_lower {eps : K} (he : eps ≤ 0) (fill : Option K) (ax : Axis K)
    (hper : ax.periodic = false) (hs : 1 ≤ ax.size) (hdx : ax.dx ≠ 0) (data : Idx → K) (d : K)
    (hbc : data [0] = data [1] + d * ax.dx) {τ : K} (h0 : 0 ≤ τ) (h1 : τ ≤ 1) :
    interp1 eps true false fill ax data (ax.lo + τ * (ax.dx / 2))
      = some (data [1] + d * (ax.dx / 2) * (1 - τ)) := by
  rw [(ghost_mode_linear_to_bc_value he fill ax hper hs hdx data h0 h1).1, hbc, ghostLine_neumann]

/-- imposed outward derivative `d` at the upper face -/
theorem ghost_mode_derivative_upper {eps : K} (he : eps ≤ 0) (fill : Option K) (ax : Axis K)
    (hper : ax.periodic = false) (hs : 1 ≤ ax.size) (hdx : ax.dx ≠ 0) (data : Idx → K) (d : K)
    (hbc : data [ax.size + 1] = data [ax.size] + d * ax.dx) {τ : K} (h0 : 0 ≤ τ) (h1 : τ ≤ 1) :
    interp1 eps true false fill ax data (upperEnd ax - τ * (ax.dx / 2))
      = some (data [ax.size] + d * (ax.dx / 2) * (1 - τ)) := by
  rw [(ghost_mode_linear_to_bc_value he fill ax hper hs hdx data h0 h1).2, hbc, ghostLine_neumann]

end
end PdeVerif.Interp
