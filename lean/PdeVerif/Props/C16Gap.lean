import PdeVerif.Props.C16Eps
import PdeVerif.Model.InterpGrid
/-
C16, theorem gaps closed after the second review (gap round):

* `insert_compiled_ghost_integral3` (any clipping constant), `insert_conserves_compiled_ghost3`
  (inert clipping: exactly `amount`), `insert_conserves_compiled_ghost3_eps` (the code's constant:
  within `3·eps·|amount|`) - the ghost-cell variant of the compiled inserter on **3 axes** (was proved
  for 1 and 2 axes only).
* `ghost_mode_value_upper`, `ghost_mode_derivative_lower/upper` - the 1-axis interpolant next to a face
  as a function of the imposed value / derivative on BOTH faces (was: lower-face Dirichlet only).
* `interpolate_to_grid_spec`, `interpolate_to_grid_same_grid`, `..2`, `..3`, `interpolate_to_grid_affine`,
  `interpolate_to_grid_outside` -
  `ScalarField.interpolate_to_grid` (model `interpToGrid` in `Model/InterpGrid.lean`, tied by the driver handler
  `c16.togrid`): the new field holds the interpolant at the centres of the new cells; to the same grid it is the
  identity (any `eps ≤ 1`, every mode); beyond the source it raises / fills.
* interpolation with boundary conditions on the padded array the conditions DEFINE (`padFull`, tied by `c16.pad`
  against the real `_data_full`): `padFull1`, `padFull2_x`, `padFull2_y`, `padFull3_x/y/z`, `padFull2_corner` (ghost
  cells as functions of the imposed value / derivative, corner = mean), `bc_mode_approaches_imposed_condition`
  (1 axis, both faces), `..2`, `..2_y` (2 axes, all four faces), `..3`, `..3_y`, `..3_z` (3 axes, all six faces),
  `.._eps`, `..2_eps` (the code's clipping constant); `bc_mode_corner_square2` (the value in a corner square),
  `bc_mode_corner_square_value_on_face`, `bc_mode_corner_square_misses_imposed_value` (kernel-checked witness of
  the known finding "corner square": on the face the imposed value is missed by `(1-σ)(v-cell)/2`).
* `periodic_seam_both2_eps`, `periodic_seam_all3_eps`, `domain_corner2_eps`, `boundary_strip_nearest2_eps` - the
  multi-axis seam / strip / corner statements at the clipping constant of the code (`0 ≤ eps ≤ 1/2`).
-/
set_option linter.unusedSectionVars false
namespace PdeVerif.Interp
open PdeVerif

section
variable {K : Type} [Field K] [LinearOrder K] [IsStrictOrderedRing K] [FloorRing K]

/-! ## compiled inserter with ghost cells, 3 axes -/

theorem volIdx_ghost_valid {n i : Int} (h0 : 1 ≤ i) (h1 : i ≤ n) : volIdx true n i = i - 1 := by
  unfold volIdx; simp only [if_true]; rw [if_neg (by omega), if_neg (by omega)]

/-- **compiled inserter with ghost cells, 3 axes, any clipping constant**: when all support points are
valid cells the integral over the valid cells rises by the product of the weight sums times the
amount (the volumes are looked up at the un-shifted indices, `volIdx`) -/
theorem insert_compiled_ghost_integral3 (eps : K) (ax ay az : Axis K)
    (vol full : Idx → K) (px py pz amount : K)
    (hvol : ∀ i j k, 0 ≤ i → i < ax.size → 0 ≤ j → j < ay.size → 0 ≤ k → k < az.size →
      vol [i, j, k] ≠ 0)
    (a b c : AxisData K) (ha : axisData eps true false ax px = some a)
    (hb : axisData eps true false ay py = some b) (hc : axisData eps true false az pz = some c)
    (hina : 1 ≤ a.li ∧ a.li ≤ ax.size ∧ 1 ≤ a.hi ∧ a.hi ≤ ax.size)
    (hinb : 1 ≤ b.li ∧ b.li ≤ ay.size ∧ 1 ≤ b.hi ∧ b.hi ≤ ay.size)
    (hinc : 1 ≤ c.li ∧ c.li ≤ az.size ∧ 1 ≤ c.hi ∧ c.hi ≤ az.size)
    (full' : Idx → K)
    (h : insertComp3 eps true ax ay az vol full px py pz amount = some full') :
    integral [ax.size, ay.size, az.size] vol (validView full')
      = integral [ax.size, ay.size, az.size] vol (validView full)
        + (a.wl + a.wh) * (b.wl + b.wh) * (c.wl + c.wh) * amount := by
  unfold insertComp3 at h
  rw [ha, hb, hc] at h; simp only [Option.some.injEq] at h; rw [← h]
  obtain ⟨al0, al1, ah0, ah1⟩ := hina
  obtain ⟨bl0, bl1, bh0, bh1⟩ := hinb
  obtain ⟨cl0, cl1, ch0, ch1⟩ := hinc
  rw [validView_deposit, validView_deposit, validView_deposit, validView_deposit,
    validView_deposit, validView_deposit, validView_deposit, validView_deposit,
    volIdx_ghost_valid al0 al1, volIdx_ghost_valid ah0 ah1, volIdx_ghost_valid bl0 bl1,
    volIdx_ghost_valid bh0 bh1, volIdx_ghost_valid cl0 cl1, volIdx_ghost_valid ch0 ch1]
  simp only [List.map_cons, List.map_nil]
  rw [integral_deposit _ _ _ _ _
      (validIdx3 (by omega) (by omega) (by omega) (by omega) (by omega) (by omega)),
    integral_deposit _ _ _ _ _
      (validIdx3 (by omega) (by omega) (by omega) (by omega) (by omega) (by omega)),
    integral_deposit _ _ _ _ _
      (validIdx3 (by omega) (by omega) (by omega) (by omega) (by omega) (by omega)),
    integral_deposit _ _ _ _ _
      (validIdx3 (by omega) (by omega) (by omega) (by omega) (by omega) (by omega)),
    integral_deposit _ _ _ _ _
      (validIdx3 (by omega) (by omega) (by omega) (by omega) (by omega) (by omega)),
    integral_deposit _ _ _ _ _
      (validIdx3 (by omega) (by omega) (by omega) (by omega) (by omega) (by omega)),
    integral_deposit _ _ _ _ _
      (validIdx3 (by omega) (by omega) (by omega) (by omega) (by omega) (by omega)),
    integral_deposit _ _ _ _ _
      (validIdx3 (by omega) (by omega) (by omega) (by omega) (by omega) (by omega))]
  have v1 := hvol (a.li - 1) (b.li - 1) (c.li - 1) (by omega) (by omega) (by omega) (by omega)
    (by omega) (by omega)
  have v2 := hvol (a.li - 1) (b.li - 1) (c.hi - 1) (by omega) (by omega) (by omega) (by omega)
    (by omega) (by omega)
  have v3 := hvol (a.li - 1) (b.hi - 1) (c.li - 1) (by omega) (by omega) (by omega) (by omega)
    (by omega) (by omega)
  have v4 := hvol (a.li - 1) (b.hi - 1) (c.hi - 1) (by omega) (by omega) (by omega) (by omega)
    (by omega) (by omega)
  have v5 := hvol (a.hi - 1) (b.li - 1) (c.li - 1) (by omega) (by omega) (by omega) (by omega)
    (by omega) (by omega)
  have v6 := hvol (a.hi - 1) (b.li - 1) (c.hi - 1) (by omega) (by omega) (by omega) (by omega)
    (by omega) (by omega)
  have v7 := hvol (a.hi - 1) (b.hi - 1) (c.li - 1) (by omega) (by omega) (by omega) (by omega)
    (by omega) (by omega)
  have v8 := hvol (a.hi - 1) (b.hi - 1) (c.hi - 1) (by omega) (by omega) (by omega) (by omega)
    (by omega) (by omega)
  field_simp
  ring

/-- **compiled inserter with ghost cells, 3 axes** (inert clipping): the integral over the valid
cells grows by exactly `amount` -/
theorem insert_conserves_compiled_ghost3 {eps : K} (he : eps ≤ 0) (ax ay az : Axis K)
    (vol full : Idx → K) (px py pz amount : K)
    (hvol : ∀ i j k, 0 ≤ i → i < ax.size → 0 ≤ j → j < ay.size → 0 ≤ k → k < az.size →
      vol [i, j, k] ≠ 0)
    (a b c : AxisData K) (ha : axisData eps true false ax px = some a)
    (hb : axisData eps true false ay py = some b) (hc : axisData eps true false az pz = some c)
    (hina : 1 ≤ a.li ∧ a.li ≤ ax.size ∧ 1 ≤ a.hi ∧ a.hi ≤ ax.size)
    (hinb : 1 ≤ b.li ∧ b.li ≤ ay.size ∧ 1 ≤ b.hi ∧ b.hi ≤ ay.size)
    (hinc : 1 ≤ c.li ∧ c.li ≤ az.size ∧ 1 ≤ c.hi ∧ c.hi ≤ az.size)
    (full' : Idx → K)
    (h : insertComp3 eps true ax ay az vol full px py pz amount = some full') :
    integral [ax.size, ay.size, az.size] vol (validView full')
      = integral [ax.size, ay.size, az.size] vol (validView full) + amount := by
  obtain ⟨hsa, -, -⟩ := weights_nonneg_sum_one he true false ax px a ha
  obtain ⟨hsb, -, -⟩ := weights_nonneg_sum_one he true false ay py b hb
  obtain ⟨hsc, -, -⟩ := weights_nonneg_sum_one he true false az pz c hc
  rw [insert_compiled_ghost_integral3 eps ax ay az vol full px py pz amount hvol a b c ha hb hc
    hina hinb hinc full' h, hsa, hsb, hsc]
  ring

/-- on periodic axes the hypothesis about the support points always holds: a fully periodic 3-axis
grid conserves the amount for EVERY point -/
theorem insert_conserves_compiled_ghost3_periodic {eps : K} (he : eps ≤ 0) (ax ay az : Axis K)
    (hsx : 1 ≤ ax.size) (hsy : 1 ≤ ay.size) (hsz : 1 ≤ az.size)
    (hpx : ax.periodic = true) (hpy : ay.periodic = true) (hpz : az.periodic = true)
    (vol full : Idx → K) (px py pz amount : K)
    (hvol : ∀ i j k, 0 ≤ i → i < ax.size → 0 ≤ j → j < ay.size → 0 ≤ k → k < az.size →
      vol [i, j, k] ≠ 0) :
    ∃ full', insertComp3 eps true ax ay az vol full px py pz amount = some full' ∧
      integral [ax.size, ay.size, az.size] vol (validView full')
        = integral [ax.size, ay.size, az.size] vol (validView full) + amount := by
  obtain ⟨a, ha⟩ := Option.isSome_iff_exists.mp (axisData_periodic_isSome eps true false ax hpx px)
  obtain ⟨b, hb⟩ := Option.isSome_iff_exists.mp (axisData_periodic_isSome eps true false ay hpy py)
  obtain ⟨c, hc⟩ := Option.isSome_iff_exists.mp (axisData_periodic_isSome eps true false az hpz pz)
  have hina := (indices_in_range_ghost eps false ax hsx px a ha).2.2.2.2 hpx
  have hinb := (indices_in_range_ghost eps false ay hsy py b hb).2.2.2.2 hpy
  have hinc := (indices_in_range_ghost eps false az hsz pz c hc).2.2.2.2 hpz
  have hsome : ∃ full', insertComp3 eps true ax ay az vol full px py pz amount = some full' := by
    unfold insertComp3; rw [ha, hb, hc]; exact ⟨_, rfl⟩
  obtain ⟨full', h⟩ := hsome
  exact ⟨full', h, insert_conserves_compiled_ghost3 he ax ay az vol full px py pz amount hvol
    a b c ha hb hc hina hinb hinc full' h⟩

/-- with the code's clipping: up to `3·eps·|amount|` -/
theorem insert_conserves_compiled_ghost3_eps {eps : K} (h0 : 0 ≤ eps) (h1 : eps ≤ 1/2)
    (ax ay az : Axis K) (vol full : Idx → K) (px py pz amount : K)
    (hvol : ∀ i j k, 0 ≤ i → i < ax.size → 0 ≤ j → j < ay.size → 0 ≤ k → k < az.size →
      vol [i, j, k] ≠ 0)
    (a b c : AxisData K) (ha : axisData eps true false ax px = some a)
    (hb : axisData eps true false ay py = some b) (hc : axisData eps true false az pz = some c)
    (hina : 1 ≤ a.li ∧ a.li ≤ ax.size ∧ 1 ≤ a.hi ∧ a.hi ≤ ax.size)
    (hinb : 1 ≤ b.li ∧ b.li ≤ ay.size ∧ 1 ≤ b.hi ∧ b.hi ≤ ay.size)
    (hinc : 1 ≤ c.li ∧ c.li ≤ az.size ∧ 1 ≤ c.hi ∧ c.hi ≤ az.size)
    (full' : Idx → K)
    (h : insertComp3 eps true ax ay az vol full px py pz amount = some full') :
    |integral [ax.size, ay.size, az.size] vol (validView full')
        - (integral [ax.size, ay.size, az.size] vol (validView full) + amount)|
      ≤ 3 * eps * |amount| := by
  obtain ⟨a1, a2⟩ := weight_sum_bounds h0 h1 ha
  obtain ⟨b1, b2⟩ := weight_sum_bounds h0 h1 hb
  obtain ⟨c1, c2⟩ := weight_sum_bounds h0 h1 hc
  rw [insert_compiled_ghost_integral3 eps ax ay az vol full px py pz amount hvol a b c ha hb hc
    hina hinb hinc full' h]
  set A := a.wl + a.wh
  set B := b.wl + b.wh
  set C := c.wl + c.wh
  have hA0 : 0 ≤ A := by linarith
  have hB0 : 0 ≤ B := by linarith
  have hC0 : 0 ≤ C := by linarith
  have hab := mass2_clip (A := A) (A0 := 1) (B := B) (B0 := 1) (eps := eps)
    ⟨hA0, a2, le_refl _, by linarith⟩ ⟨hB0, b2, le_refl _, by linarith⟩
  have hAB0 : 0 ≤ A * B := hab.1
  have hAB1 : A * B ≤ 1 := by linarith [hab.2.1]
  have e : 1 - A * B * C = (1 - A * B) + A * B * (1 - C) := by ring
  have t : A * B * (1 - C) ≤ 1 * eps := mul_le_mul hAB1 (by linarith) (by linarith) (by norm_num)
  have hnn : 0 ≤ 1 - A * B * C := by
    rw [e]; have := mul_nonneg hAB0 (by linarith : (0:K) ≤ 1 - C); linarith
  rw [show integral [ax.size, ay.size, az.size] vol (validView full) + A * B * C * amount
      - (integral [ax.size, ay.size, az.size] vol (validView full) + amount)
        = -((1 - A * B * C) * amount) by ring,
    abs_neg, abs_mul, abs_of_nonneg hnn]
  refine mul_le_mul_of_nonneg_right ?_ (abs_nonneg _)
  rw [e]; linarith [hab.2.2.2]

/-! ## ghost mode, 1 axis: the interpolant as a function of the imposed value / derivative, both faces -/

/-- imposed value `v` at the UPPER face (`ghost = 2 v - last cell`): from the face (`τ = 0`) to the last
centre (`τ = 1`) the interpolant is `v + τ (last - v)` -/
theorem ghost_mode_value_upper {eps : K} (he : eps ≤ 0) (fill : Option K) (ax : Axis K)
    (hper : ax.periodic = false) (hs : 1 ≤ ax.size) (hdx : ax.dx ≠ 0) (data : Idx → K) (v : K)
    (hbc : data [ax.size + 1] = 2 * v - data [ax.size]) {τ : K} (h0 : 0 ≤ τ) (h1 : τ ≤ 1) :
    interp1 eps true false fill ax data (upperEnd ax - τ * (ax.dx / 2))
      = some (v + τ * (data [ax.size] - v)) := by
  rw [(ghost_mode_linear_to_bc_value he fill ax hper hs hdx data h0 h1).2, hbc, ghostLine_dirichlet]

/-- imposed outward derivative `d` at the lower face (`ghost = first cell + d·dx`): the interpolant is
the line through the first cell value with outward slope `d` (distance to the centre
`(1-τ)·dx/2`) -/
theorem ghost_mode_derivative_lower {eps : K} (he : eps ≤ 0) (fill : Option K) (ax : Axis K)
    (hper : ax.periodic = false) (hs : 1 ≤ ax.size) (hdx : ax.dx ≠ 0) (data : Idx → K) (d : K)
    (hbc : data [0] = data [1] + d * ax.dx) {τ : K} (h0 : 0 ≤ τ) (h1 : τ ≤ 1) :
    interp1 eps true false fill ax data (ax.lo + τ * (ax.dx / 2))
      = some (data [1] + d * (ax.dx / 2) * (1 - τ)) := by
  rw [(ghost_mode_linear_to_bc_value he fill ax hper hs hdx data h0 h1).1, hbc, ghostLine_neumann]

/-- imposed outward derivative `d` at the upper face -/
theorem ghost_mode_derivative_upper {eps : K} (he : eps ≤ 0) (fill : Option K) (ax : Axis K)
    (hper : ax.periodic = false) (hs : 1 ≤ ax.size) (hdx : ax.dx ≠ 0) (data : Idx → K) (d : K)
    (hbc : data [ax.size + 1] = data [ax.size] + d * ax.dx) {τ : K} (h0 : 0 ≤ τ) (h1 : τ ≤ 1) :
    interp1 eps true false fill ax data (upperEnd ax - τ * (ax.dx / 2))
      = some (data [ax.size] + d * (ax.dx / 2) * (1 - τ)) := by
  rw [(ghost_mode_linear_to_bc_value he fill ax hper hs hdx data h0 h1).2, hbc, ghostLine_neumann]

/-! ## `interpolate_to_grid` -/

/-- the model's cell centre is the `centre` the value theorems speak about -/
theorem cellCentre_eq (ax : Axis K) (i : Int) : cellCentre ax i = centre ax i := by
  unfold cellCentre centre; rw [half_eq]

theorem allSome_eq_some_iff : ∀ (l : List (Option K)) (vs : List K),
    allSome l = some vs ↔ l = vs.map some
  | [], vs => by cases vs <;> simp [allSome]
  | none :: r, vs => by cases vs <;> simp [allSome]
  | some v :: r, vs => by
    cases vs with
    | nil => cases h : allSome r <;> simp [allSome, h]
    | cons w ws =>
      have ih := allSome_eq_some_iff r ws
      cases h : allSome r with
      | none =>
        rw [h] at ih
        simp only [allSome, h, List.map_cons, List.cons.injEq, Option.some.injEq, reduceCtorEq,
          false_iff, not_and]
        intro _ hr; exact absurd (ih.mpr hr) (by simp)
      | some us =>
        rw [h] at ih
        simp only [allSome, h, Option.some.injEq, List.cons.injEq, List.map_cons]
        constructor
        · rintro ⟨rfl, rfl⟩; exact ⟨rfl, ih.mp rfl⟩
        · rintro ⟨rfl, hr⟩; exact ⟨rfl, Option.some.inj (ih.mpr hr)⟩

theorem allSome_eq_none_iff : ∀ (l : List (Option K)), allSome l = none ↔ none ∈ l
  | [] => by simp [allSome]
  | none :: r => by simp [allSome]
  | some v :: r => by
    have ih := allSome_eq_none_iff r
    cases h : allSome r with
    | none => rw [h] at ih; simp [allSome, h, ih.mp rfl]
    | some us =>
      rw [h] at ih
      have : none ∉ r := fun hm => absurd (ih.mpr hm) (by simp)
      simp [allSome, h, this]

/-- **`interpolate_to_grid` evaluates the interpolant at the centres of the new cells**: the new field
holds, cell by cell (C order), the value of the interpolator at the centre of that cell; it raises iff
the interpolator raises at one of these centres -/
theorem interpolate_to_grid_spec (eps : K) (ghost : Bool) (fill : Option K) (src tgt : List (Axis K))
    (data : Idx → K) :
    (∀ vs, interpToGrid eps ghost fill src data tgt = some vs ↔
      (cells (tgt.map (·.size))).map
        (fun c => interpN eps ghost false fill src data (List.zipWith centre tgt c)) = vs.map some) ∧
    (interpToGrid eps ghost fill src data tgt = none ↔
      ∃ c ∈ cells (tgt.map (·.size)),
        interpN eps ghost false fill src data (List.zipWith centre tgt c) = none) := by
  have hc : ∀ c : Idx, List.zipWith cellCentre tgt c = List.zipWith centre tgt c := by
    intro c; congr 1; funext ax i; exact cellCentre_eq ax i
  constructor
  · intro vs
    unfold interpToGrid cellCentres
    rw [allSome_eq_some_iff, List.map_map]
    simp only [Function.comp_def, hc]
  · unfold interpToGrid cellCentres
    rw [allSome_eq_none_iff, List.map_map]
    simp only [Function.comp_def, hc, List.mem_map]

theorem mem_cells1 {n : Int} {c : Idx} (h : c ∈ cells [n]) : ∃ i, c = [i] ∧ 0 ≤ i ∧ i < n := by
  rw [mem_cells_iff] at h
  rcases c with _ | ⟨i, _ | ⟨j, r⟩⟩
  · simp [validIdx] at h
  · simp only [validIdx, Bool.and_eq_true, decide_eq_true_eq, Bool.and_true] at h
    exact ⟨i, rfl, h.1, h.2⟩
  · simp [validIdx] at h

theorem mem_cells2 {n m : Int} {c : Idx} (h : c ∈ cells [n, m]) :
    ∃ i j, c = [i, j] ∧ 0 ≤ i ∧ i < n ∧ 0 ≤ j ∧ j < m := by
  rw [mem_cells_iff] at h
  rcases c with _ | ⟨i, _ | ⟨j, _ | ⟨k, r⟩⟩⟩
  · simp [validIdx] at h
  · simp [validIdx] at h
  · simp only [validIdx, Bool.and_eq_true, decide_eq_true_eq, Bool.and_true] at h
    exact ⟨i, j, rfl, h.1.1, h.1.2, h.2.1, h.2.2⟩
  · simp [validIdx] at h

theorem mem_cells3 {n m l : Int} {c : Idx} (h : c ∈ cells [n, m, l]) :
    ∃ i j k, c = [i, j, k] ∧ 0 ≤ i ∧ i < n ∧ 0 ≤ j ∧ j < m ∧ 0 ≤ k ∧ k < l := by
  rw [mem_cells_iff] at h
  rcases c with _ | ⟨i, _ | ⟨j, _ | ⟨k, _ | ⟨l', r⟩⟩⟩⟩
  · simp [validIdx] at h
  · simp [validIdx] at h
  · simp [validIdx] at h
  · simp only [validIdx, Bool.and_eq_true, decide_eq_true_eq, Bool.and_true] at h
    exact ⟨i, j, k, rfl, h.1.1, h.1.2, h.2.1.1, h.2.1.2, h.2.2.1, h.2.2.2⟩
  · simp [validIdx] at h

/-- **interpolating to the same grid returns the data** (1 axis; every mode - plain, periodic, with
boundary conditions (`ghost`, index shifted by one) -, any `eps ≤ 1`, any fill value) -/
theorem interpolate_to_grid_same_grid {eps : K} (he : eps ≤ 1) (ghost : Bool) (fill : Option K)
    (ax : Axis K) (hdx : ax.dx ≠ 0) (data : Idx → K) :
    interpToGrid eps ghost fill [ax] data [ax]
      = some ((cells [ax.size]).map (fun c => data (c.map (· + shift ghost)))) := by
  rw [(interpolate_to_grid_spec eps ghost fill [ax] [ax] data).1, List.map_map]
  apply List.map_congr_left
  intro c hc
  obtain ⟨i, rfl, h0, h1⟩ := mem_cells1 hc
  simp only [Function.comp_def, List.zipWith_cons_cons, List.zipWith_nil_right, List.map_cons,
    List.map_nil, interpN]
  exact exact_at_centres he ghost fill ax hdx data i h0 h1

theorem interpolate_to_grid_same_grid2 {eps : K} (he : eps ≤ 1) (ghost : Bool) (fill : Option K)
    (ax ay : Axis K) (hdx : ax.dx ≠ 0) (hdy : ay.dx ≠ 0) (data : Idx → K) :
    interpToGrid eps ghost fill [ax, ay] data [ax, ay]
      = some ((cells [ax.size, ay.size]).map (fun c => data (c.map (· + shift ghost)))) := by
  rw [(interpolate_to_grid_spec eps ghost fill [ax, ay] [ax, ay] data).1, List.map_map]
  apply List.map_congr_left
  intro c hc
  obtain ⟨i, j, rfl, h0, h1, h2, h3⟩ := mem_cells2 hc
  simp only [Function.comp_def, List.zipWith_cons_cons, List.zipWith_nil_right, List.map_cons,
    List.map_nil, interpN]
  exact exact_at_centres2 he ghost fill ax ay hdx hdy data i j h0 h1 h2 h3

theorem interpolate_to_grid_same_grid3 {eps : K} (he : eps ≤ 1) (ghost : Bool) (fill : Option K)
    (ax ay az : Axis K) (hdx : ax.dx ≠ 0) (hdy : ay.dx ≠ 0) (hdz : az.dx ≠ 0) (data : Idx → K) :
    interpToGrid eps ghost fill [ax, ay, az] data [ax, ay, az]
      = some ((cells [ax.size, ay.size, az.size]).map (fun c => data (c.map (· + shift ghost)))) := by
  rw [(interpolate_to_grid_spec eps ghost fill [ax, ay, az] [ax, ay, az] data).1, List.map_map]
  apply List.map_congr_left
  intro c hc
  obtain ⟨i, j, k, rfl, h0, h1, h2, h3, h4, h5⟩ := mem_cells3 hc
  simp only [Function.comp_def, List.zipWith_cons_cons, List.zipWith_nil_right, List.map_cons,
    List.map_nil, interpN]
  exact exact_at_centres3 he ghost fill ax ay az hdx hdy hdz data i j k h0 h1 h2 h3 h4 h5

/-- **`interpolate_to_grid` is exact on affine fields** (1 axis): data `α + β·x(centre)` interpolated to any
target grid whose cell centres lie in the closed interval between the first and the last source centre gives
`α + β·x(new centre)` in every new cell -/
theorem interpolate_to_grid_affine {eps : K} (he : eps ≤ 0) (fill : Option K) (src tgt : Axis K)
    (hs : 1 ≤ src.size) (hdx : 0 < src.dx) (data : Idx → K) (α β : K)
    (hd : ∀ i, 0 ≤ i → i < src.size → data [i] = α + β * centre src i)
    (hin : ∀ i, 0 ≤ i → i < tgt.size →
      centre src 0 ≤ centre tgt i ∧ centre tgt i ≤ centre src (src.size - 1)) :
    interpToGrid eps false fill [src] data [tgt]
      = some ((cells [tgt.size]).map (fun c => α + β * centre tgt (c.headD 0))) := by
  rw [(interpolate_to_grid_spec eps false fill [src] [tgt] data).1, List.map_map]
  apply List.map_congr_left
  intro c hc
  obtain ⟨i, rfl, h0, h1⟩ := mem_cells1 hc
  simp only [Function.comp_def, List.zipWith_cons_cons, List.zipWith_nil_right, interpN, List.headD_cons]
  exact exact_on_affine he fill src hs hdx data α β hd _ (hin i h0 h1).1 (hin i h0 h1).2

/-- **a target grid that reaches beyond the source raises** (no fill value; 1 axis): if the centre of
some new cell lies outside the source axis the result is the `DomainError`; with a fill value the
call never raises -/
theorem interpolate_to_grid_outside (eps : K) (ghost : Bool) (src tgt : Axis K) (hok : src.ok)
    (data : Idx → K) :
    ((∃ i, 0 ≤ i ∧ i < tgt.size ∧ outsideAxis src (centre tgt i)) →
      interpToGrid eps ghost none [src] data [tgt] = none) ∧
    (∀ f, ∃ vs, interpToGrid eps ghost (some f) [src] data [tgt] = some vs) := by
  constructor
  · rintro ⟨i, h0, h1, ho⟩
    rw [(interpolate_to_grid_spec eps ghost none [src] [tgt] data).2]
    refine ⟨[i], (mem_cells_iff _ _).mpr (validIdx1 h0 h1), ?_⟩
    simp only [List.zipWith_cons_cons, List.zipWith_nil_right, interpN]
    exact outside_is_rejected eps ghost none src hok data _ ho
  · intro f
    cases h : interpToGrid eps ghost (some f) [src] data [tgt] with
    | some vs => exact ⟨vs, rfl⟩
    | none =>
      exfalso
      rw [(interpolate_to_grid_spec eps ghost (some f) [src] [tgt] data).2] at h
      obtain ⟨c, hc, hn⟩ := h
      obtain ⟨i, rfl, -, -⟩ := mem_cells1 hc
      simp only [List.zipWith_cons_cons, List.zipWith_nil_right, interpN] at hn
      unfold interp1 at hn
      cases ha : axisData eps ghost false src (centre tgt i) <;> rw [ha] at hn <;> simp at hn


/-! ## interpolation with boundary conditions: the padded array as a function of the imposed conditions -/

/-- the interpolant on the inward normal of a face as a function of the imposed condition, `τ` = distance
from the face in half cells: imposed value `v` - the line from `v` (on the face) to the cell value (at the
centre); imposed outward derivative `d` - the line through the cell value with outward slope `d` -/
def bcLine (s : Side K) (dx cell τ : K) : K :=
  match s with
  | .value v => v + τ * (cell - v)
  | .derivative d => cell + d * (dx / 2) * (1 - τ)

theorem ghostLine_ghostOf (s : Side K) (dx cell τ : K) :
    ghostLine (ghostOf s dx cell) cell τ = bcLine s dx cell τ := by
  cases s with
  | value v => simp only [ghostOf, bcLine, Nat.cast_ofNat]; exact ghostLine_dirichlet v cell τ
  | derivative d => simp only [ghostOf, bcLine]; exact ghostLine_neumann d dx cell τ

/-- on the face (`τ = 0`) an imposed value is attained, at the centre (`τ = 1`) the cell value -/
theorem bcLine_value_face (v dx cell : K) : bcLine (Side.value v) dx cell 0 = v := by
  simp [bcLine]
theorem bcLine_centre (s : Side K) (dx cell : K) : bcLine s dx cell 1 = cell := by
  cases s <;> simp [bcLine]

/-! ### one unfolding step of `padFull` (any recursion depth left) -/

theorem isGhostAt_valid (pa : PadAxis K) {i : Int} (h0 : 1 ≤ i) (h1 : i ≤ pa.ax.size) :
    isGhostAt pa i = false := by
  have e1 : ¬ (i = 0) := by omega
  have e2 : ¬ (i = pa.ax.size + 1) := by omega
  simp [isGhostAt, e1, e2]

theorem isGhostAt_lower (pa : PadAxis K) (hper : pa.ax.periodic = false) : isGhostAt pa 0 = true := by
  simp [isGhostAt, hper]

theorem isGhostAt_upper (pa : PadAxis K) (hper : pa.ax.periodic = false) :
    isGhostAt pa (pa.ax.size + 1) = true := by
  simp [isGhostAt, hper]

theorem unpad_valid (pa : PadAxis K) {i : Int} (h0 : 0 ≤ i) (h1 : i < pa.ax.size) :
    unpad pa (i + 1) = i := by
  unfold unpad
  cases pa.ax.periodic
  · simp
  · simp [Int.emod_eq_of_lt h0 h1]

theorem padAux1_valid (pa : PadAxis K) (data : Idx → K) (fuel : Nat) {i : Int}
    (hi : isGhostAt pa i = false) : padAux [pa] data (fuel + 1) [i] = data [unpad pa i] := by
  simp [padAux, ghostAxesFrom, hi]

theorem padAux1_ghost (pa : PadAxis K) (data : Idx → K) (fuel : Nat) {i : Int}
    (hi : isGhostAt pa i = true) :
    padAux [pa] data (fuel + 1) [i]
      = ghostOf (if i = 0 then pa.lower else pa.upper) pa.ax.dx
          (padAux [pa] data fuel [inwardOf pa i]) := by
  simp [padAux, ghostAxesFrom, hi, faceAt, inwardAt]

theorem padAux2_valid (pa pb : PadAxis K) (data : Idx → K) (fuel : Nat) {i j : Int}
    (hi : isGhostAt pa i = false) (hj : isGhostAt pb j = false) :
    padAux [pa, pb] data (fuel + 1) [i, j] = data [unpad pa i, unpad pb j] := by
  simp [padAux, ghostAxesFrom, hi, hj]

theorem padAux2_ghost_x (pa pb : PadAxis K) (data : Idx → K) (fuel : Nat) {i j : Int}
    (hi : isGhostAt pa i = true) (hj : isGhostAt pb j = false) :
    padAux [pa, pb] data (fuel + 1) [i, j]
      = ghostOf (if i = 0 then pa.lower else pa.upper) pa.ax.dx
          (padAux [pa, pb] data fuel [inwardOf pa i, j]) := by
  simp [padAux, ghostAxesFrom, hi, hj, faceAt, inwardAt]

theorem padAux2_ghost_y (pa pb : PadAxis K) (data : Idx → K) (fuel : Nat) {i j : Int}
    (hi : isGhostAt pa i = false) (hj : isGhostAt pb j = true) :
    padAux [pa, pb] data (fuel + 1) [i, j]
      = ghostOf (if j = 0 then pb.lower else pb.upper) pb.ax.dx
          (padAux [pa, pb] data fuel [i, inwardOf pb j]) := by
  simp [padAux, ghostAxesFrom, hi, hj, faceAt, inwardAt]

/-- a corner ghost cell is the mean of the two adjacent ghost cells (`set_corners=True`) -/
theorem padAux2_corner (pa pb : PadAxis K) (data : Idx → K) (fuel : Nat) {i j : Int}
    (hi : isGhostAt pa i = true) (hj : isGhostAt pb j = true) :
    padAux [pa, pb] data (fuel + 1) [i, j]
      = (padAux [pa, pb] data fuel [inwardOf pa i, j]
          + padAux [pa, pb] data fuel [i, inwardOf pb j]) / 2 := by
  simp [padAux, ghostAxesFrom, hi, hj, inwardAt, sumK]

/-- padded array, 1 axis: valid cells, lower and upper ghost cell -/
theorem padFull1 (pa : PadAxis K) (hper : pa.ax.periodic = false) (hs : 1 ≤ pa.ax.size)
    (data : Idx → K) :
    (∀ i, 0 ≤ i → i < pa.ax.size → padFull [pa] data [i + 1] = data [i]) ∧
    padFull [pa] data [0] = ghostOf pa.lower pa.ax.dx (data [0]) ∧
    padFull [pa] data [pa.ax.size + 1] = ghostOf pa.upper pa.ax.dx (data [pa.ax.size - 1]) := by
  have hv : ∀ i, 0 ≤ i → i < pa.ax.size → ∀ fuel, padAux [pa] data (fuel + 1) [i + 1] = data [i] := by
    intro i h0 h1 fuel
    rw [padAux1_valid pa data fuel (isGhostAt_valid pa (by omega) (by omega)), unpad_valid pa h0 h1]
  refine ⟨fun i h0 h1 => hv i h0 h1 _, ?_, ?_⟩
  · have := hv 0 (le_refl 0) (by omega) 0
    simp only [zero_add] at this
    unfold padFull
    rw [show ([pa].length + 1 : Nat) = 1 + 1 from rfl, padAux1_ghost pa data _ (isGhostAt_lower pa hper)]
    simp [inwardOf, this]
  · have := hv (pa.ax.size - 1) (by omega) (by omega) 0
    simp only [sub_add_cancel] at this
    have e1 : ¬ (pa.ax.size + 1 = 0) := by omega
    unfold padFull
    rw [show ([pa].length + 1 : Nat) = 1 + 1 from rfl, padAux1_ghost pa data _ (isGhostAt_upper pa hper)]
    simp [inwardOf, this, e1]

/-- **interpolation with boundary conditions approaches the imposed condition linearly, 1 axis, both
faces, imposed value or derivative**: with the padded array the conditions define (`padFull`), from
the face (`τ = 0`) to the first / last centre (`τ = 1`) the interpolant is `bcLine` of the condition of
that face and the first / last cell -/
theorem bc_mode_approaches_imposed_condition {eps : K} (he : eps ≤ 0) (fill : Option K)
    (pa : PadAxis K) (hper : pa.ax.periodic = false) (hs : 1 ≤ pa.ax.size) (hdx : pa.ax.dx ≠ 0)
    (data : Idx → K) {τ : K} (h0 : 0 ≤ τ) (h1 : τ ≤ 1) :
    interp1 eps true false fill pa.ax (padFull [pa] data) (pa.ax.lo + τ * (pa.ax.dx / 2))
        = some (bcLine pa.lower pa.ax.dx (data [0]) τ) ∧
    interp1 eps true false fill pa.ax (padFull [pa] data) (upperEnd pa.ax - τ * (pa.ax.dx / 2))
        = some (bcLine pa.upper pa.ax.dx (data [pa.ax.size - 1]) τ) := by
  obtain ⟨hv, hl, hu⟩ := padFull1 pa hper hs data
  obtain ⟨g1, g2⟩ := ghost_mode_linear_to_bc_value he fill pa.ax hper hs hdx (padFull [pa] data) h0 h1
  have v0 := hv 0 (le_refl 0) (by omega)
  have v1 := hv (pa.ax.size - 1) (by omega) (by omega)
  simp only [zero_add, sub_add_cancel] at v0 v1
  rw [g1, g2, hl, hu, v0, v1, ghostLine_ghostOf, ghostLine_ghostOf]
  exact ⟨rfl, rfl⟩

/-- padded array, 2 axes, the layers next to the two faces of the first axis (tangential index a valid
cell; the second axis may be periodic or not) -/
theorem padFull2_x (pa pb : PadAxis K) (hpa : pa.ax.periodic = false) (hsx : 1 ≤ pa.ax.size)
    (data : Idx → K) (j : Int) (h0 : 0 ≤ j) (h1 : j < pb.ax.size) :
    padFull [pa, pb] data [1, j + 1] = data [0, j] ∧
    padFull [pa, pb] data [0, j + 1] = ghostOf pa.lower pa.ax.dx (data [0, j]) ∧
    padFull [pa, pb] data [pa.ax.size, j + 1] = data [pa.ax.size - 1, j] ∧
    padFull [pa, pb] data [pa.ax.size + 1, j + 1]
      = ghostOf pa.upper pa.ax.dx (data [pa.ax.size - 1, j]) := by
  have gj : isGhostAt pb (j + 1) = false := isGhostAt_valid pb (by omega) (by omega)
  have hv : ∀ i, 0 ≤ i → i < pa.ax.size → ∀ fuel,
      padAux [pa, pb] data (fuel + 1) [i + 1, j + 1] = data [i, j] := by
    intro i i0 i1 fuel
    rw [padAux2_valid pa pb data fuel (isGhostAt_valid pa (by omega) (by omega)) gj,
      unpad_valid pa i0 i1, unpad_valid pb h0 h1]
  have v0 := hv 0 (le_refl 0) (by omega)
  have v1 := hv (pa.ax.size - 1) (by omega) (by omega)
  simp only [zero_add, sub_add_cancel] at v0 v1
  have e5 : ¬ (pa.ax.size + 1 = 0) := by omega
  refine ⟨v0 _, ?_, v1 _, ?_⟩
  · unfold padFull
    rw [show ([pa, pb].length + 1 : Nat) = 2 + 1 from rfl,
      padAux2_ghost_x pa pb data _ (isGhostAt_lower pa hpa) gj]
    simp [inwardOf, v0 1]
  · unfold padFull
    rw [show ([pa, pb].length + 1 : Nat) = 2 + 1 from rfl,
      padAux2_ghost_x pa pb data _ (isGhostAt_upper pa hpa) gj]
    simp [inwardOf, v1 1, e5]

/-- **2 axes, the two faces of the first axis**: tangentially between the centres of cells `j` and `j+1`
the interpolant is the linear interpolation of the two normal lines `bcLine` - it goes linearly to the
imposed value (resp. keeps the imposed slope) along the normal -/
theorem bc_mode_approaches_imposed_condition2 {eps : K} (he : eps ≤ 0) (fill : Option K)
    (pa pb : PadAxis K) (hpa : pa.ax.periodic = false) (hsx : 1 ≤ pa.ax.size)
    (hdx : pa.ax.dx ≠ 0) (hdy : pb.ax.dx ≠ 0) (data : Idx → K) (j : Int) (hj0 : 0 ≤ j)
    (hj1 : j + 1 < pb.ax.size) {τ t : K} (h0 : 0 ≤ τ) (h1 : τ ≤ 1) (ht0 : 0 ≤ t) (ht1 : t < 1) :
    interp2 eps true false fill pa.ax pb.ax (padFull [pa, pb] data)
        (pa.ax.lo + τ * (pa.ax.dx / 2)) (centre pb.ax j + t * pb.ax.dx)
      = some (lerp t (bcLine pa.lower pa.ax.dx (data [0, j]) τ)
          (bcLine pa.lower pa.ax.dx (data [0, j + 1]) τ)) ∧
    interp2 eps true false fill pa.ax pb.ax (padFull [pa, pb] data)
        (upperEnd pa.ax - τ * (pa.ax.dx / 2)) (centre pb.ax j + t * pb.ax.dx)
      = some (lerp t (bcLine pa.upper pa.ax.dx (data [pa.ax.size - 1, j]) τ)
          (bcLine pa.upper pa.ax.dx (data [pa.ax.size - 1, j + 1]) τ)) := by
  obtain ⟨g1, g2⟩ := (ghost_mode_linear_to_bc_value2 he fill pa.ax pb.ax (padFull [pa, pb] data)
    0 (centre pb.ax j + t * pb.ax.dx) h0 h1).1 hpa hsx hdx
  obtain ⟨a1, a2, a3, a4⟩ := padFull2_x pa pb hpa hsx data j hj0 (by omega)
  obtain ⟨b1, b2, b3, b4⟩ := padFull2_x pa pb hpa hsx data (j + 1) (by omega) hj1
  rw [g1, g2, multilinear_between_centres he true fill pb.ax hdy _ j hj0 hj1 ht0 ht1,
    multilinear_between_centres he true fill pb.ax hdy _ j hj0 hj1 ht0 ht1]
  simp only [shift, if_true]
  rw [a1, a2, a3, a4, b1, b2, b3, b4]
  simp only [ghostLine_ghostOf, and_self]

/-- padded array, 2 axes, the corner below both axes: the corner ghost cell is the mean of the two
adjacent face ghost cells (`set_corners=True`) -/
theorem padFull2_corner (pa pb : PadAxis K) (hpa : pa.ax.periodic = false)
    (hpb : pb.ax.periodic = false) (hsx : 1 ≤ pa.ax.size) (hsy : 1 ≤ pb.ax.size) (data : Idx → K) :
    padFull [pa, pb] data [1, 1] = data [0, 0] ∧
    padFull [pa, pb] data [0, 1] = ghostOf pa.lower pa.ax.dx (data [0, 0]) ∧
    padFull [pa, pb] data [1, 0] = ghostOf pb.lower pb.ax.dx (data [0, 0]) ∧
    padFull [pa, pb] data [0, 0]
      = (ghostOf pb.lower pb.ax.dx (data [0, 0]) + ghostOf pa.lower pa.ax.dx (data [0, 0])) / 2 := by
  have g1a : isGhostAt pa 1 = false := isGhostAt_valid pa (by omega) (by omega)
  have g1b : isGhostAt pb 1 = false := isGhostAt_valid pb (by omega) (by omega)
  have u1a : unpad pa 1 = 0 := by have := unpad_valid pa (le_refl 0) (by omega : (0:Int) < pa.ax.size); simpa using this
  have u1b : unpad pb 1 = 0 := by have := unpad_valid pb (le_refl 0) (by omega : (0:Int) < pb.ax.size); simpa using this
  have v : ∀ fuel, padAux [pa, pb] data (fuel + 1) [1, 1] = data [0, 0] := by
    intro fuel; rw [padAux2_valid pa pb data fuel g1a g1b, u1a, u1b]
  have gx : ∀ fuel, padAux [pa, pb] data (fuel + 2) [0, 1]
      = ghostOf pa.lower pa.ax.dx (data [0, 0]) := by
    intro fuel
    rw [padAux2_ghost_x pa pb data _ (isGhostAt_lower pa hpa) g1b]
    simp [inwardOf, v fuel]
  have gy : ∀ fuel, padAux [pa, pb] data (fuel + 2) [1, 0]
      = ghostOf pb.lower pb.ax.dx (data [0, 0]) := by
    intro fuel
    rw [padAux2_ghost_y pa pb data _ g1a (isGhostAt_lower pb hpb)]
    simp [inwardOf, v fuel]
  refine ⟨v _, gx _, gy _, ?_⟩
  unfold padFull
  rw [show ([pa, pb].length + 1 : Nat) = 2 + 1 from rfl,
    padAux2_corner pa pb data _ (isGhostAt_lower pa hpa) (isGhostAt_lower pb hpb)]
  simp [inwardOf, gx 0, gy 0]

/-- **the corner square, 2 axes** (both coordinates within half a cell of a non-periodic lower
boundary): the interpolant is the bilinear function of the four padded cells around the corner, i.e.
`ghostLine` along `y` of the two `ghostLine`s along `x` - with the corner ghost cell that
`set_corners=True` defines -/
theorem bc_mode_corner_square2 {eps : K} (he : eps ≤ 0) (fill : Option K) (pa pb : PadAxis K)
    (hpa : pa.ax.periodic = false) (hpb : pb.ax.periodic = false) (hsx : 1 ≤ pa.ax.size)
    (hsy : 1 ≤ pb.ax.size) (hdx : pa.ax.dx ≠ 0) (hdy : pb.ax.dx ≠ 0) (data : Idx → K)
    {τ σ : K} (h0 : 0 ≤ τ) (h1 : τ ≤ 1) (s0 : 0 ≤ σ) (s1 : σ ≤ 1) :
    interp2 eps true false fill pa.ax pb.ax (padFull [pa, pb] data)
        (pa.ax.lo + τ * (pa.ax.dx / 2)) (pb.ax.lo + σ * (pb.ax.dx / 2))
      = some (ghostLine
          (ghostLine ((ghostOf pb.lower pb.ax.dx (data [0, 0])
              + ghostOf pa.lower pa.ax.dx (data [0, 0])) / 2)
            (ghostOf pb.lower pb.ax.dx (data [0, 0])) τ)
          (bcLine pa.lower pa.ax.dx (data [0, 0]) τ) σ) := by
  obtain ⟨g1, -⟩ := (ghost_mode_linear_to_bc_value2 he fill pa.ax pb.ax (padFull [pa, pb] data)
    0 (pb.ax.lo + σ * (pb.ax.dx / 2)) h0 h1).1 hpa hsx hdx
  obtain ⟨c11, c01, c10, c00⟩ := padFull2_corner pa pb hpa hpb hsx hsy data
  rw [g1, (ghost_mode_linear_to_bc_value he fill pb.ax hpb hsy hdy _ s0 s1).1, c11, c01, c10, c00,
    ghostLine_ghostOf]

/-- **deviation (known finding "corner square")**: the same value `v` imposed on both faces that meet
in the corner.  ON the face of the first axis (`τ = 0`), at tangential distance `σ` half cells from the
other face, the interpolant is `v + (1 - σ)(v - cell)/2`, not the imposed value `v` - the corner ghost
cell (mean of the two face ghost cells) is not the ghost cell that the condition of the first axis
defines for the ghost layer of the second -/
theorem bc_mode_corner_square_value_on_face {eps : K} (he : eps ≤ 0) (fill : Option K)
    (pa pb : PadAxis K) (hpa : pa.ax.periodic = false) (hpb : pb.ax.periodic = false)
    (hsx : 1 ≤ pa.ax.size) (hsy : 1 ≤ pb.ax.size) (hdx : pa.ax.dx ≠ 0) (hdy : pb.ax.dx ≠ 0)
    (data : Idx → K) (v : K) (hla : pa.lower = Side.value v) (hlb : pb.lower = Side.value v)
    {σ : K} (s0 : 0 ≤ σ) (s1 : σ ≤ 1) :
    interp2 eps true false fill pa.ax pb.ax (padFull [pa, pb] data)
        pa.ax.lo (pb.ax.lo + σ * (pb.ax.dx / 2))
      = some (v + (1 - σ) * (v - data [0, 0]) / 2) := by
  have h := bc_mode_corner_square2 he fill pa pb hpa hpb hsx hsy hdx hdy data
    (le_refl (0:K)) zero_le_one s0 s1
  simp only [zero_mul, add_zero] at h
  rw [h, hla, hlb]
  simp only [ghostOf, bcLine, ghostLine, Nat.cast_ofNat]
  congr 1; ring

/-- so the imposed value is missed on the face wherever `σ < 1` and the corner cell differs from it -/
theorem bc_mode_corner_square_misses_imposed_value {eps : K} (he : eps ≤ 0) (fill : Option K)
    (pa pb : PadAxis K) (hpa : pa.ax.periodic = false) (hpb : pb.ax.periodic = false)
    (hsx : 1 ≤ pa.ax.size) (hsy : 1 ≤ pb.ax.size) (hdx : pa.ax.dx ≠ 0) (hdy : pb.ax.dx ≠ 0)
    (data : Idx → K) (v : K) (hla : pa.lower = Side.value v) (hlb : pb.lower = Side.value v)
    (hne : data [0, 0] ≠ v) {σ : K} (s0 : 0 ≤ σ) (s1 : σ < 1) :
    interp2 eps true false fill pa.ax pb.ax (padFull [pa, pb] data)
        pa.ax.lo (pb.ax.lo + σ * (pb.ax.dx / 2)) ≠ some v := by
  rw [bc_mode_corner_square_value_on_face he fill pa pb hpa hpb hsx hsy hdx hdy data v hla hlb s0
    (le_of_lt s1)]
  intro h
  rw [Option.some.injEq] at h
  have h2 : (1 - σ) * (v - data [0, 0]) = 0 := by linarith
  rcases mul_eq_zero.mp h2 with h3 | h3
  · linarith
  · exact hne (by linarith)


/-- padded array, 2 axes, the layers next to the two faces of the second axis -/
theorem padFull2_y (pa pb : PadAxis K) (hpb : pb.ax.periodic = false) (hsy : 1 ≤ pb.ax.size)
    (data : Idx → K) (i : Int) (h0 : 0 ≤ i) (h1 : i < pa.ax.size) :
    padFull [pa, pb] data [i + 1, 1] = data [i, 0] ∧
    padFull [pa, pb] data [i + 1, 0] = ghostOf pb.lower pb.ax.dx (data [i, 0]) ∧
    padFull [pa, pb] data [i + 1, pb.ax.size] = data [i, pb.ax.size - 1] ∧
    padFull [pa, pb] data [i + 1, pb.ax.size + 1]
      = ghostOf pb.upper pb.ax.dx (data [i, pb.ax.size - 1]) := by
  have gi : isGhostAt pa (i + 1) = false := isGhostAt_valid pa (by omega) (by omega)
  have hv : ∀ j, 0 ≤ j → j < pb.ax.size → ∀ fuel,
      padAux [pa, pb] data (fuel + 1) [i + 1, j + 1] = data [i, j] := by
    intro j j0 j1 fuel
    rw [padAux2_valid pa pb data fuel gi (isGhostAt_valid pb (by omega) (by omega)),
      unpad_valid pa h0 h1, unpad_valid pb j0 j1]
  have v0 := hv 0 (le_refl 0) (by omega)
  have v1 := hv (pb.ax.size - 1) (by omega) (by omega)
  simp only [zero_add, sub_add_cancel] at v0 v1
  have e5 : ¬ (pb.ax.size + 1 = 0) := by omega
  refine ⟨v0 _, ?_, v1 _, ?_⟩
  · unfold padFull
    rw [show ([pa, pb].length + 1 : Nat) = 2 + 1 from rfl,
      padAux2_ghost_y pa pb data _ gi (isGhostAt_lower pb hpb)]
    simp [inwardOf, v0 1]
  · unfold padFull
    rw [show ([pa, pb].length + 1 : Nat) = 2 + 1 from rfl,
      padAux2_ghost_y pa pb data _ gi (isGhostAt_upper pb hpb)]
    simp [inwardOf, v1 1, e5]

/-- **2 axes, the two faces of the second axis** -/
theorem bc_mode_approaches_imposed_condition2_y {eps : K} (he : eps ≤ 0) (fill : Option K)
    (pa pb : PadAxis K) (hpb : pb.ax.periodic = false) (hsy : 1 ≤ pb.ax.size)
    (hdx : pa.ax.dx ≠ 0) (hdy : pb.ax.dx ≠ 0) (data : Idx → K) (i : Int) (hi0 : 0 ≤ i)
    (hi1 : i + 1 < pa.ax.size) {τ t : K} (h0 : 0 ≤ τ) (h1 : τ ≤ 1) (ht0 : 0 ≤ t) (ht1 : t < 1) :
    interp2 eps true false fill pa.ax pb.ax (padFull [pa, pb] data)
        (centre pa.ax i + t * pa.ax.dx) (pb.ax.lo + τ * (pb.ax.dx / 2))
      = some (lerp t (bcLine pb.lower pb.ax.dx (data [i, 0]) τ)
          (bcLine pb.lower pb.ax.dx (data [i + 1, 0]) τ)) ∧
    interp2 eps true false fill pa.ax pb.ax (padFull [pa, pb] data)
        (centre pa.ax i + t * pa.ax.dx) (upperEnd pb.ax - τ * (pb.ax.dx / 2))
      = some (lerp t (bcLine pb.upper pb.ax.dx (data [i, pb.ax.size - 1]) τ)
          (bcLine pb.upper pb.ax.dx (data [i + 1, pb.ax.size - 1]) τ)) := by
  obtain ⟨g1, g2⟩ := (ghost_mode_linear_to_bc_value2 he fill pa.ax pb.ax (padFull [pa, pb] data)
    (centre pa.ax i + t * pa.ax.dx) 0 h0 h1).2 hpb hsy hdy
  obtain ⟨a1, a2, a3, a4⟩ := padFull2_y pa pb hpb hsy data i hi0 (by omega)
  obtain ⟨b1, b2, b3, b4⟩ := padFull2_y pa pb hpb hsy data (i + 1) (by omega) hi1
  rw [g1, g2, multilinear_between_centres he true fill pa.ax hdx _ i hi0 hi1 ht0 ht1,
    multilinear_between_centres he true fill pa.ax hdx _ i hi0 hi1 ht0 ht1]
  simp only [shift, if_true, List.cons_append, List.nil_append]
  rw [a1, a2, a3, a4, b1, b2, b3, b4]
  simp only [ghostLine_ghostOf, and_self]

/-! ### 3 axes: the two faces of the first axis -/

theorem padAux3_valid (pa pb pc : PadAxis K) (data : Idx → K) (fuel : Nat) {i j k : Int}
    (hi : isGhostAt pa i = false) (hj : isGhostAt pb j = false) (hk : isGhostAt pc k = false) :
    padAux [pa, pb, pc] data (fuel + 1) [i, j, k] = data [unpad pa i, unpad pb j, unpad pc k] := by
  simp [padAux, ghostAxesFrom, hi, hj, hk]

theorem padAux3_ghost_x (pa pb pc : PadAxis K) (data : Idx → K) (fuel : Nat) {i j k : Int}
    (hi : isGhostAt pa i = true) (hj : isGhostAt pb j = false) (hk : isGhostAt pc k = false) :
    padAux [pa, pb, pc] data (fuel + 1) [i, j, k]
      = ghostOf (if i = 0 then pa.lower else pa.upper) pa.ax.dx
          (padAux [pa, pb, pc] data fuel [inwardOf pa i, j, k]) := by
  simp [padAux, ghostAxesFrom, hi, hj, hk, faceAt, inwardAt]

theorem padFull3_x (pa pb pc : PadAxis K) (hpa : pa.ax.periodic = false) (hsx : 1 ≤ pa.ax.size)
    (data : Idx → K) (j k : Int) (hj0 : 0 ≤ j) (hj1 : j < pb.ax.size) (hk0 : 0 ≤ k)
    (hk1 : k < pc.ax.size) :
    padFull [pa, pb, pc] data [1, j + 1, k + 1] = data [0, j, k] ∧
    padFull [pa, pb, pc] data [0, j + 1, k + 1] = ghostOf pa.lower pa.ax.dx (data [0, j, k]) ∧
    padFull [pa, pb, pc] data [pa.ax.size, j + 1, k + 1] = data [pa.ax.size - 1, j, k] ∧
    padFull [pa, pb, pc] data [pa.ax.size + 1, j + 1, k + 1]
      = ghostOf pa.upper pa.ax.dx (data [pa.ax.size - 1, j, k]) := by
  have gj : isGhostAt pb (j + 1) = false := isGhostAt_valid pb (by omega) (by omega)
  have gk : isGhostAt pc (k + 1) = false := isGhostAt_valid pc (by omega) (by omega)
  have hv : ∀ i, 0 ≤ i → i < pa.ax.size → ∀ fuel,
      padAux [pa, pb, pc] data (fuel + 1) [i + 1, j + 1, k + 1] = data [i, j, k] := by
    intro i i0 i1 fuel
    rw [padAux3_valid pa pb pc data fuel (isGhostAt_valid pa (by omega) (by omega)) gj gk,
      unpad_valid pa i0 i1, unpad_valid pb hj0 hj1, unpad_valid pc hk0 hk1]
  have v0 := hv 0 (le_refl 0) (by omega)
  have v1 := hv (pa.ax.size - 1) (by omega) (by omega)
  simp only [zero_add, sub_add_cancel] at v0 v1
  have e5 : ¬ (pa.ax.size + 1 = 0) := by omega
  refine ⟨v0 _, ?_, v1 _, ?_⟩
  · unfold padFull
    rw [show ([pa, pb, pc].length + 1 : Nat) = 3 + 1 from rfl,
      padAux3_ghost_x pa pb pc data _ (isGhostAt_lower pa hpa) gj gk]
    simp [inwardOf, v0 2]
  · unfold padFull
    rw [show ([pa, pb, pc].length + 1 : Nat) = 3 + 1 from rfl,
      padAux3_ghost_x pa pb pc data _ (isGhostAt_upper pa hpa) gj gk]
    simp [inwardOf, v1 2, e5]

/-- **3 axes, the two faces of the first axis**: tangentially between the centres of the cells
`(j, k) .. (j+1, k+1)` the interpolant is the bilinear interpolation of the four normal lines -/
theorem bc_mode_approaches_imposed_condition3 {eps : K} (he : eps ≤ 0) (fill : Option K)
    (pa pb pc : PadAxis K) (hpa : pa.ax.periodic = false) (hsx : 1 ≤ pa.ax.size)
    (hdx : pa.ax.dx ≠ 0) (hdy : pb.ax.dx ≠ 0) (hdz : pc.ax.dx ≠ 0) (data : Idx → K) (j k : Int)
    (hj0 : 0 ≤ j) (hj1 : j + 1 < pb.ax.size) (hk0 : 0 ≤ k) (hk1 : k + 1 < pc.ax.size)
    {τ t u : K} (h0 : 0 ≤ τ) (h1 : τ ≤ 1) (ht0 : 0 ≤ t) (ht1 : t < 1) (hu0 : 0 ≤ u) (hu1 : u < 1) :
    interp3 eps true false fill pa.ax pb.ax pc.ax (padFull [pa, pb, pc] data)
        (pa.ax.lo + τ * (pa.ax.dx / 2)) (centre pb.ax j + t * pb.ax.dx) (centre pc.ax k + u * pc.ax.dx)
      = some (lerp t
          (lerp u (bcLine pa.lower pa.ax.dx (data [0, j, k]) τ)
            (bcLine pa.lower pa.ax.dx (data [0, j, k + 1]) τ))
          (lerp u (bcLine pa.lower pa.ax.dx (data [0, j + 1, k]) τ)
            (bcLine pa.lower pa.ax.dx (data [0, j + 1, k + 1]) τ))) ∧
    interp3 eps true false fill pa.ax pb.ax pc.ax (padFull [pa, pb, pc] data)
        (upperEnd pa.ax - τ * (pa.ax.dx / 2)) (centre pb.ax j + t * pb.ax.dx)
        (centre pc.ax k + u * pc.ax.dx)
      = some (lerp t
          (lerp u (bcLine pa.upper pa.ax.dx (data [pa.ax.size - 1, j, k]) τ)
            (bcLine pa.upper pa.ax.dx (data [pa.ax.size - 1, j, k + 1]) τ))
          (lerp u (bcLine pa.upper pa.ax.dx (data [pa.ax.size - 1, j + 1, k]) τ)
            (bcLine pa.upper pa.ax.dx (data [pa.ax.size - 1, j + 1, k + 1]) τ))) := by
  obtain ⟨g1, g2⟩ := (ghost_mode_linear_to_bc_value3 he fill pa.ax pb.ax pc.ax
    (padFull [pa, pb, pc] data) 0 (centre pb.ax j + t * pb.ax.dx) (centre pc.ax k + u * pc.ax.dx)
    h0 h1).1 hpa hsx hdx
  obtain ⟨a1, a2, a3, a4⟩ := padFull3_x pa pb pc hpa hsx data j k hj0 (by omega) hk0 (by omega)
  obtain ⟨b1, b2, b3, b4⟩ := padFull3_x pa pb pc hpa hsx data j (k + 1) hj0 (by omega) (by omega) hk1
  obtain ⟨c1, c2, c3, c4⟩ := padFull3_x pa pb pc hpa hsx data (j + 1) k (by omega) hj1 hk0 (by omega)
  obtain ⟨d1, d2, d3, d4⟩ :=
    padFull3_x pa pb pc hpa hsx data (j + 1) (k + 1) (by omega) hj1 (by omega) hk1
  rw [g1, g2,
    multilinear_between_centres2 he true fill pb.ax pc.ax hdy hdz _ j k hj0 hj1 hk0 hk1 ht0 ht1 hu0 hu1,
    multilinear_between_centres2 he true fill pb.ax pc.ax hdy hdz _ j k hj0 hj1 hk0 hk1 ht0 ht1 hu0 hu1]
  simp only [shift, if_true]
  rw [a1, a2, a3, a4, b1, b2, b3, b4, c1, c2, c3, c4, d1, d2, d3, d4]
  simp only [ghostLine_ghostOf, and_self]

/-! ### 3 axes: the faces of the second and third axis -/

theorem padAux3_ghost_y (pa pb pc : PadAxis K) (data : Idx → K) (fuel : Nat) {i j k : Int}
    (hi : isGhostAt pa i = false) (hj : isGhostAt pb j = true) (hk : isGhostAt pc k = false) :
    padAux [pa, pb, pc] data (fuel + 1) [i, j, k]
      = ghostOf (if j = 0 then pb.lower else pb.upper) pb.ax.dx
          (padAux [pa, pb, pc] data fuel [i, inwardOf pb j, k]) := by
  simp [padAux, ghostAxesFrom, hi, hj, hk, faceAt, inwardAt]

theorem padAux3_ghost_z (pa pb pc : PadAxis K) (data : Idx → K) (fuel : Nat) {i j k : Int}
    (hi : isGhostAt pa i = false) (hj : isGhostAt pb j = false) (hk : isGhostAt pc k = true) :
    padAux [pa, pb, pc] data (fuel + 1) [i, j, k]
      = ghostOf (if k = 0 then pc.lower else pc.upper) pc.ax.dx
          (padAux [pa, pb, pc] data fuel [i, j, inwardOf pc k]) := by
  simp [padAux, ghostAxesFrom, hi, hj, hk, faceAt, inwardAt]

theorem padFull3_y (pa pb pc : PadAxis K) (hpb : pb.ax.periodic = false) (hsy : 1 ≤ pb.ax.size)
    (data : Idx → K) (i k : Int) (hi0 : 0 ≤ i) (hi1 : i < pa.ax.size) (hk0 : 0 ≤ k)
    (hk1 : k < pc.ax.size) :
    padFull [pa, pb, pc] data [i + 1, 1, k + 1] = data [i, 0, k] ∧
    padFull [pa, pb, pc] data [i + 1, 0, k + 1] = ghostOf pb.lower pb.ax.dx (data [i, 0, k]) ∧
    padFull [pa, pb, pc] data [i + 1, pb.ax.size, k + 1] = data [i, pb.ax.size - 1, k] ∧
    padFull [pa, pb, pc] data [i + 1, pb.ax.size + 1, k + 1]
      = ghostOf pb.upper pb.ax.dx (data [i, pb.ax.size - 1, k]) := by
  have gi : isGhostAt pa (i + 1) = false := isGhostAt_valid pa (by omega) (by omega)
  have gk : isGhostAt pc (k + 1) = false := isGhostAt_valid pc (by omega) (by omega)
  have hv : ∀ j, 0 ≤ j → j < pb.ax.size → ∀ fuel,
      padAux [pa, pb, pc] data (fuel + 1) [i + 1, j + 1, k + 1] = data [i, j, k] := by
    intro j j0 j1 fuel
    rw [padAux3_valid pa pb pc data fuel gi (isGhostAt_valid pb (by omega) (by omega)) gk,
      unpad_valid pa hi0 hi1, unpad_valid pb j0 j1, unpad_valid pc hk0 hk1]
  have v0 := hv 0 (le_refl 0) (by omega)
  have v1 := hv (pb.ax.size - 1) (by omega) (by omega)
  simp only [zero_add, sub_add_cancel] at v0 v1
  have e5 : ¬ (pb.ax.size + 1 = 0) := by omega
  refine ⟨v0 _, ?_, v1 _, ?_⟩
  · unfold padFull
    rw [show ([pa, pb, pc].length + 1 : Nat) = 3 + 1 from rfl,
      padAux3_ghost_y pa pb pc data _ gi (isGhostAt_lower pb hpb) gk]
    simp [inwardOf, v0 2]
  · unfold padFull
    rw [show ([pa, pb, pc].length + 1 : Nat) = 3 + 1 from rfl,
      padAux3_ghost_y pa pb pc data _ gi (isGhostAt_upper pb hpb) gk]
    simp [inwardOf, v1 2, e5]

theorem padFull3_z (pa pb pc : PadAxis K) (hpc : pc.ax.periodic = false) (hsz : 1 ≤ pc.ax.size)
    (data : Idx → K) (i j : Int) (hi0 : 0 ≤ i) (hi1 : i < pa.ax.size) (hj0 : 0 ≤ j)
    (hj1 : j < pb.ax.size) :
    padFull [pa, pb, pc] data [i + 1, j + 1, 1] = data [i, j, 0] ∧
    padFull [pa, pb, pc] data [i + 1, j + 1, 0] = ghostOf pc.lower pc.ax.dx (data [i, j, 0]) ∧
    padFull [pa, pb, pc] data [i + 1, j + 1, pc.ax.size] = data [i, j, pc.ax.size - 1] ∧
    padFull [pa, pb, pc] data [i + 1, j + 1, pc.ax.size + 1]
      = ghostOf pc.upper pc.ax.dx (data [i, j, pc.ax.size - 1]) := by
  have gi : isGhostAt pa (i + 1) = false := isGhostAt_valid pa (by omega) (by omega)
  have gj : isGhostAt pb (j + 1) = false := isGhostAt_valid pb (by omega) (by omega)
  have hv : ∀ k, 0 ≤ k → k < pc.ax.size → ∀ fuel,
      padAux [pa, pb, pc] data (fuel + 1) [i + 1, j + 1, k + 1] = data [i, j, k] := by
    intro k k0 k1 fuel
    rw [padAux3_valid pa pb pc data fuel gi gj (isGhostAt_valid pc (by omega) (by omega)),
      unpad_valid pa hi0 hi1, unpad_valid pb hj0 hj1, unpad_valid pc k0 k1]
  have v0 := hv 0 (le_refl 0) (by omega)
  have v1 := hv (pc.ax.size - 1) (by omega) (by omega)
  simp only [zero_add, sub_add_cancel] at v0 v1
  have e5 : ¬ (pc.ax.size + 1 = 0) := by omega
  refine ⟨v0 _, ?_, v1 _, ?_⟩
  · unfold padFull
    rw [show ([pa, pb, pc].length + 1 : Nat) = 3 + 1 from rfl,
      padAux3_ghost_z pa pb pc data _ gi gj (isGhostAt_lower pc hpc)]
    simp [inwardOf, v0 2]
  · unfold padFull
    rw [show ([pa, pb, pc].length + 1 : Nat) = 3 + 1 from rfl,
      padAux3_ghost_z pa pb pc data _ gi gj (isGhostAt_upper pc hpc)]
    simp [inwardOf, v1 2, e5]

/-- **3 axes, the two faces of the second axis** -/
theorem bc_mode_approaches_imposed_condition3_y {eps : K} (he : eps ≤ 0) (fill : Option K)
    (pa pb pc : PadAxis K) (hpb : pb.ax.periodic = false) (hsy : 1 ≤ pb.ax.size)
    (hdx : pa.ax.dx ≠ 0) (hdy : pb.ax.dx ≠ 0) (hdz : pc.ax.dx ≠ 0) (data : Idx → K) (i k : Int)
    (hi0 : 0 ≤ i) (hi1 : i + 1 < pa.ax.size) (hk0 : 0 ≤ k) (hk1 : k + 1 < pc.ax.size)
    {τ t u : K} (h0 : 0 ≤ τ) (h1 : τ ≤ 1) (ht0 : 0 ≤ t) (ht1 : t < 1) (hu0 : 0 ≤ u) (hu1 : u < 1) :
    interp3 eps true false fill pa.ax pb.ax pc.ax (padFull [pa, pb, pc] data)
        (centre pa.ax i + t * pa.ax.dx) (pb.ax.lo + τ * (pb.ax.dx / 2)) (centre pc.ax k + u * pc.ax.dx)
      = some (lerp t
          (lerp u (bcLine pb.lower pb.ax.dx (data [i, 0, k]) τ)
            (bcLine pb.lower pb.ax.dx (data [i, 0, k + 1]) τ))
          (lerp u (bcLine pb.lower pb.ax.dx (data [i + 1, 0, k]) τ)
            (bcLine pb.lower pb.ax.dx (data [i + 1, 0, k + 1]) τ))) ∧
    interp3 eps true false fill pa.ax pb.ax pc.ax (padFull [pa, pb, pc] data)
        (centre pa.ax i + t * pa.ax.dx) (upperEnd pb.ax - τ * (pb.ax.dx / 2))
        (centre pc.ax k + u * pc.ax.dx)
      = some (lerp t
          (lerp u (bcLine pb.upper pb.ax.dx (data [i, pb.ax.size - 1, k]) τ)
            (bcLine pb.upper pb.ax.dx (data [i, pb.ax.size - 1, k + 1]) τ))
          (lerp u (bcLine pb.upper pb.ax.dx (data [i + 1, pb.ax.size - 1, k]) τ)
            (bcLine pb.upper pb.ax.dx (data [i + 1, pb.ax.size - 1, k + 1]) τ))) := by
  obtain ⟨g1, g2⟩ := (ghost_mode_linear_to_bc_value3 he fill pa.ax pb.ax pc.ax
    (padFull [pa, pb, pc] data) (centre pa.ax i + t * pa.ax.dx) 0 (centre pc.ax k + u * pc.ax.dx)
    h0 h1).2.1 hpb hsy hdy
  obtain ⟨a1, a2, a3, a4⟩ := padFull3_y pa pb pc hpb hsy data i k hi0 (by omega) hk0 (by omega)
  obtain ⟨b1, b2, b3, b4⟩ := padFull3_y pa pb pc hpb hsy data i (k + 1) hi0 (by omega) (by omega) hk1
  obtain ⟨c1, c2, c3, c4⟩ := padFull3_y pa pb pc hpb hsy data (i + 1) k (by omega) hi1 hk0 (by omega)
  obtain ⟨d1, d2, d3, d4⟩ :=
    padFull3_y pa pb pc hpb hsy data (i + 1) (k + 1) (by omega) hi1 (by omega) hk1
  rw [g1, g2,
    multilinear_between_centres2 he true fill pa.ax pc.ax hdx hdz _ i k hi0 hi1 hk0 hk1 ht0 ht1 hu0 hu1,
    multilinear_between_centres2 he true fill pa.ax pc.ax hdx hdz _ i k hi0 hi1 hk0 hk1 ht0 ht1 hu0 hu1]
  simp only [shift, if_true, List.take_succ_cons, List.take_zero, List.drop_succ_cons, List.drop_zero,
    List.cons_append, List.nil_append]
  rw [a1, a2, a3, a4, b1, b2, b3, b4, c1, c2, c3, c4, d1, d2, d3, d4]
  simp only [ghostLine_ghostOf, and_self]

/-- **3 axes, the two faces of the third axis** -/
theorem bc_mode_approaches_imposed_condition3_z {eps : K} (he : eps ≤ 0) (fill : Option K)
    (pa pb pc : PadAxis K) (hpc : pc.ax.periodic = false) (hsz : 1 ≤ pc.ax.size)
    (hdx : pa.ax.dx ≠ 0) (hdy : pb.ax.dx ≠ 0) (hdz : pc.ax.dx ≠ 0) (data : Idx → K) (i j : Int)
    (hi0 : 0 ≤ i) (hi1 : i + 1 < pa.ax.size) (hj0 : 0 ≤ j) (hj1 : j + 1 < pb.ax.size)
    {τ t u : K} (h0 : 0 ≤ τ) (h1 : τ ≤ 1) (ht0 : 0 ≤ t) (ht1 : t < 1) (hu0 : 0 ≤ u) (hu1 : u < 1) :
    interp3 eps true false fill pa.ax pb.ax pc.ax (padFull [pa, pb, pc] data)
        (centre pa.ax i + t * pa.ax.dx) (centre pb.ax j + u * pb.ax.dx) (pc.ax.lo + τ * (pc.ax.dx / 2))
      = some (lerp t
          (lerp u (bcLine pc.lower pc.ax.dx (data [i, j, 0]) τ)
            (bcLine pc.lower pc.ax.dx (data [i, j + 1, 0]) τ))
          (lerp u (bcLine pc.lower pc.ax.dx (data [i + 1, j, 0]) τ)
            (bcLine pc.lower pc.ax.dx (data [i + 1, j + 1, 0]) τ))) ∧
    interp3 eps true false fill pa.ax pb.ax pc.ax (padFull [pa, pb, pc] data)
        (centre pa.ax i + t * pa.ax.dx) (centre pb.ax j + u * pb.ax.dx)
        (upperEnd pc.ax - τ * (pc.ax.dx / 2))
      = some (lerp t
          (lerp u (bcLine pc.upper pc.ax.dx (data [i, j, pc.ax.size - 1]) τ)
            (bcLine pc.upper pc.ax.dx (data [i, j + 1, pc.ax.size - 1]) τ))
          (lerp u (bcLine pc.upper pc.ax.dx (data [i + 1, j, pc.ax.size - 1]) τ)
            (bcLine pc.upper pc.ax.dx (data [i + 1, j + 1, pc.ax.size - 1]) τ))) := by
  obtain ⟨g1, g2⟩ := (ghost_mode_linear_to_bc_value3 he fill pa.ax pb.ax pc.ax
    (padFull [pa, pb, pc] data) (centre pa.ax i + t * pa.ax.dx) (centre pb.ax j + u * pb.ax.dx) 0
    h0 h1).2.2 hpc hsz hdz
  obtain ⟨a1, a2, a3, a4⟩ := padFull3_z pa pb pc hpc hsz data i j hi0 (by omega) hj0 (by omega)
  obtain ⟨b1, b2, b3, b4⟩ := padFull3_z pa pb pc hpc hsz data i (j + 1) hi0 (by omega) (by omega) hj1
  obtain ⟨c1, c2, c3, c4⟩ := padFull3_z pa pb pc hpc hsz data (i + 1) j (by omega) hi1 hj0 (by omega)
  obtain ⟨d1, d2, d3, d4⟩ :=
    padFull3_z pa pb pc hpc hsz data (i + 1) (j + 1) (by omega) hi1 (by omega) hj1
  rw [g1, g2,
    multilinear_between_centres2 he true fill pa.ax pb.ax hdx hdy _ i j hi0 hi1 hj0 hj1 ht0 ht1 hu0 hu1,
    multilinear_between_centres2 he true fill pa.ax pb.ax hdx hdy _ i j hi0 hi1 hj0 hj1 ht0 ht1 hu0 hu1]
  simp only [shift, if_true, List.cons_append, List.nil_append]
  rw [a1, a2, a3, a4, b1, b2, b3, b4, c1, c2, c3, c4, d1, d2, d3, d4]
  simp only [ghostLine_ghostOf, and_self]

/-! ### the same at the clipping constant of the code -/

/-- 1 axis, `0 ≤ eps ≤ 1/2` (the code's `1e-15`): within `eps·M` of `bcLine`, `M` a bound of the padded
array -/
theorem bc_mode_approaches_imposed_condition_eps {eps : K} (e0 : 0 ≤ eps) (e1 : eps ≤ 1/2)
    (pa : PadAxis K) (hper : pa.ax.periodic = false) (hs : 1 ≤ pa.ax.size) (hdx : pa.ax.dx ≠ 0)
    (data : Idx → K) {M : K} (hM : ∀ i, 0 ≤ i → i < pa.ax.size + 2 → |padFull [pa] data [i]| ≤ M)
    {τ : K} (h0 : 0 ≤ τ) (h1 : τ ≤ 1) :
    (∃ w, (∀ fill, interp1 eps true false fill pa.ax (padFull [pa] data)
          (pa.ax.lo + τ * (pa.ax.dx / 2)) = some w) ∧
        |w - bcLine pa.lower pa.ax.dx (data [0]) τ| ≤ eps * M) ∧
    (∃ w, (∀ fill, interp1 eps true false fill pa.ax (padFull [pa] data)
          (upperEnd pa.ax - τ * (pa.ax.dx / 2)) = some w) ∧
        |w - bcLine pa.upper pa.ax.dx (data [pa.ax.size - 1]) τ| ≤ eps * M) :=
  ⟨real_eps_of_exact e0 e1 true false pa.ax hs _ (fun i a b => hM i a (by simpa [shift] using b)) _
      (bc_mode_approaches_imposed_condition (le_refl 0) none pa hper hs hdx data h0 h1).1,
   real_eps_of_exact e0 e1 true false pa.ax hs _ (fun i a b => hM i a (by simpa [shift] using b)) _
      (bc_mode_approaches_imposed_condition (le_refl 0) none pa hper hs hdx data h0 h1).2⟩

/-- 2 axes, faces of the first axis, `0 ≤ eps ≤ 1/2`: within `2·eps·M` -/
theorem bc_mode_approaches_imposed_condition2_eps {eps : K} (e0 : 0 ≤ eps) (e1 : eps ≤ 1/2)
    (pa pb : PadAxis K) (hpa : pa.ax.periodic = false) (hsx : 1 ≤ pa.ax.size)
    (hdx : pa.ax.dx ≠ 0) (hdy : pb.ax.dx ≠ 0) (data : Idx → K) {M : K}
    (hM : ∀ i j, 0 ≤ i → i < pa.ax.size + 2 → 0 ≤ j → j < pb.ax.size + 2 →
      |padFull [pa, pb] data [i, j]| ≤ M)
    (j : Int) (hj0 : 0 ≤ j) (hj1 : j + 1 < pb.ax.size) {τ t : K} (h0 : 0 ≤ τ) (h1 : τ ≤ 1)
    (ht0 : 0 ≤ t) (ht1 : t < 1) :
    (∃ w, (∀ fill, interp2 eps true false fill pa.ax pb.ax (padFull [pa, pb] data)
          (pa.ax.lo + τ * (pa.ax.dx / 2)) (centre pb.ax j + t * pb.ax.dx) = some w) ∧
        |w - lerp t (bcLine pa.lower pa.ax.dx (data [0, j]) τ)
          (bcLine pa.lower pa.ax.dx (data [0, j + 1]) τ)| ≤ 2 * eps * M) ∧
    (∃ w, (∀ fill, interp2 eps true false fill pa.ax pb.ax (padFull [pa, pb] data)
          (upperEnd pa.ax - τ * (pa.ax.dx / 2)) (centre pb.ax j + t * pb.ax.dx) = some w) ∧
        |w - lerp t (bcLine pa.upper pa.ax.dx (data [pa.ax.size - 1, j]) τ)
          (bcLine pa.upper pa.ax.dx (data [pa.ax.size - 1, j + 1]) τ)| ≤ 2 * eps * M) := by
  have hsy : 1 ≤ pb.ax.size := by omega
  have hM' : ∀ i j, 0 ≤ i → i < pa.ax.size + 2 * shift true → 0 ≤ j →
      j < pb.ax.size + 2 * shift true → |padFull [pa, pb] data [i, j]| ≤ M :=
    fun i j a b c d => hM i j a (by simpa [shift] using b) c (by simpa [shift] using d)
  exact ⟨real_eps_of_exact2 e0 e1 true false pa.ax pb.ax hsx hsy _ hM' _ _
      (bc_mode_approaches_imposed_condition2 (le_refl 0) none pa pb hpa hsx hdx hdy data j hj0 hj1
        h0 h1 ht0 ht1).1,
    real_eps_of_exact2 e0 e1 true false pa.ax pb.ax hsx hsy _ hM' _ _
      (bc_mode_approaches_imposed_condition2 (le_refl 0) none pa pb hpa hsx hdx hdy data j hj0 hj1
        h0 h1 ht0 ht1).2⟩


/-! ## 2- and 3-axis seam / strip / corner statements at the clipping constant of the code

(`Props/C16Eps.lean` spelled these out for 1 axis; the multi-axis statements of `Props/C16.lean` are
equalities at `eps ≤ 0`.  Here: `0 ≤ eps ≤ 1/2`, error `axes·eps·M`.) -/

/-- **periodic seam, both axes periodic, the code's clipping**: within `2·eps·M` of the bilinear formula
in the unrolled extension, for every point -/
theorem periodic_seam_both2_eps {eps : K} (h0 : 0 ≤ eps) (h1 : eps ≤ 1/2) (ghost cc : Bool)
    (ax ay : Axis K) (hx : ax.periodic = true) (hy : ay.periodic = true) (hsx : 1 ≤ ax.size)
    (hsy : 1 ≤ ay.size) (data : Idx → K) {M : K}
    (hM : ∀ i j, 0 ≤ i → i < ax.size + 2 * shift ghost → 0 ≤ j → j < ay.size + 2 * shift ghost →
      |data [i, j]| ≤ M) (px py : K) :
    ∃ v, (∀ fill, interp2 eps ghost cc fill ax ay data px py = some v) ∧
      |v - (let x := cellCoord cc ax px
            let y := cellCoord cc ay py
            let ext : Int → Int → K :=
              fun k l => data [k % ax.size + shift ghost, l % ay.size + shift ghost]
            lerp (x - ⌊x⌋)
              (lerp (y - ⌊y⌋) (ext ⌊x⌋ ⌊y⌋) (ext ⌊x⌋ (⌊y⌋ + 1)))
              (lerp (y - ⌊y⌋) (ext (⌊x⌋ + 1) ⌊y⌋) (ext (⌊x⌋ + 1) (⌊y⌋ + 1))))| ≤ 2 * eps * M :=
  real_eps_of_exact2 h0 h1 ghost cc ax ay hsx hsy data hM px py
    (periodic_seam_both2 (le_refl 0) ghost cc none ax ay hx hy data px py)

/-- **periodic seam, three periodic axes, the code's clipping**: within `3·eps·M` of the trilinear formula
in the unrolled extension -/
theorem periodic_seam_all3_eps {eps : K} (h0 : 0 ≤ eps) (h1 : eps ≤ 1/2) (ghost cc : Bool)
    (ax ay az : Axis K) (hx : ax.periodic = true) (hy : ay.periodic = true)
    (hz : az.periodic = true) (hsx : 1 ≤ ax.size) (hsy : 1 ≤ ay.size) (hsz : 1 ≤ az.size)
    (data : Idx → K) {M : K}
    (hM : ∀ i j k, 0 ≤ i → i < ax.size + 2 * shift ghost → 0 ≤ j → j < ay.size + 2 * shift ghost →
      0 ≤ k → k < az.size + 2 * shift ghost → |data [i, j, k]| ≤ M) (px py pz : K) :
    ∃ v, (∀ fill, interp3 eps ghost cc fill ax ay az data px py pz = some v) ∧
      |v - (let x := cellCoord cc ax px
            let y := cellCoord cc ay py
            let z := cellCoord cc az pz
            let s := shift ghost
            let ext : Int → Int → Int → K :=
              fun k l m => data [k % ax.size + s, l % ay.size + s, m % az.size + s]
            lerp (x - ⌊x⌋)
              (lerp (y - ⌊y⌋) (lerp (z - ⌊z⌋) (ext ⌊x⌋ ⌊y⌋ ⌊z⌋) (ext ⌊x⌋ ⌊y⌋ (⌊z⌋ + 1)))
                (lerp (z - ⌊z⌋) (ext ⌊x⌋ (⌊y⌋ + 1) ⌊z⌋) (ext ⌊x⌋ (⌊y⌋ + 1) (⌊z⌋ + 1))))
              (lerp (y - ⌊y⌋)
                (lerp (z - ⌊z⌋) (ext (⌊x⌋ + 1) ⌊y⌋ ⌊z⌋) (ext (⌊x⌋ + 1) ⌊y⌋ (⌊z⌋ + 1)))
                (lerp (z - ⌊z⌋) (ext (⌊x⌋ + 1) (⌊y⌋ + 1) ⌊z⌋)
                  (ext (⌊x⌋ + 1) (⌊y⌋ + 1) (⌊z⌋ + 1)))))| ≤ 3 * eps * M :=
  real_eps_of_exact3 h0 h1 ghost cc ax ay az hsx hsy hsz data hM px py pz
    (periodic_seam_all3 (le_refl 0) ghost cc none ax ay az hx hy hz data px py pz)

/-- **domain corner, 2 axes, the code's clipping**: within `2·eps·M` of the corner cell (all four
corners) -/
theorem domain_corner2_eps {eps : K} (h0 : 0 ≤ eps) (h1 : eps ≤ 1/2) (ax ay : Axis K)
    (hx : ax.ok) (hy : ay.ok) (data : Idx → K) {M : K}
    (hM : ∀ i j, 0 ≤ i → i < ax.size → 0 ≤ j → j < ay.size → |data [i, j]| ≤ M) (px py : K) :
    (inLowerStrip ax px → inLowerStrip ay py →
      ∃ v, (∀ fill, interp2 eps false false fill ax ay data px py = some v) ∧
        |v - data [0, 0]| ≤ 2 * eps * M) ∧
    (inLowerStrip ax px → inUpperStrip ay py →
      ∃ v, (∀ fill, interp2 eps false false fill ax ay data px py = some v) ∧
        |v - data [0, ay.size - 1]| ≤ 2 * eps * M) ∧
    (inUpperStrip ax px → inLowerStrip ay py →
      ∃ v, (∀ fill, interp2 eps false false fill ax ay data px py = some v) ∧
        |v - data [ax.size - 1, 0]| ≤ 2 * eps * M) ∧
    (inUpperStrip ax px → inUpperStrip ay py →
      ∃ v, (∀ fill, interp2 eps false false fill ax ay data px py = some v) ∧
        |v - data [ax.size - 1, ay.size - 1]| ≤ 2 * eps * M) := by
  have hM' : ∀ i j, 0 ≤ i → i < ax.size + 2 * shift false → 0 ≤ j →
      j < ay.size + 2 * shift false → |data [i, j]| ≤ M :=
    fun i j a b c d => hM i j a (by simpa [shift] using b) c (by simpa [shift] using d)
  have key : ∀ {v0 : K}, interp2 0 false false none ax ay data px py = some v0 →
      ∃ v, (∀ fill, interp2 eps false false fill ax ay data px py = some v) ∧
        |v - v0| ≤ 2 * eps * M :=
    fun h => real_eps_of_exact2 h0 h1 false false ax ay hx.1 hy.1 data hM' px py h
  have S := boundary_strip_nearest2 (K := K) (le_refl 0) none ax ay hx hy data px py
  refine ⟨fun a b => key ?_, fun a b => key ?_, fun a b => key ?_, fun a b => key ?_⟩
  · rw [S.1 a, (boundary_strip_nearest (le_refl 0) none ay hy (fun c => data (0 :: c)) py).1 b]
  · rw [S.1 a, (boundary_strip_nearest (le_refl 0) none ay hy (fun c => data (0 :: c)) py).2 b]
  · rw [S.2.1 a,
      (boundary_strip_nearest (le_refl 0) none ay hy (fun c => data ((ax.size - 1) :: c)) py).1 b]
  · rw [S.2.1 a,
      (boundary_strip_nearest (le_refl 0) none ay hy (fun c => data ((ax.size - 1) :: c)) py).2 b]

/-- **boundary strip, 2 axes, the code's clipping**: in a strip of the first axis the value is within
`2·eps·M` of what the exact 1-axis interpolant of the nearest row returns (and is rejected exactly when
that one is); likewise for the second axis -/
theorem boundary_strip_nearest2_eps {eps : K} (h0 : 0 ≤ eps) (h1 : eps ≤ 1/2) (ax ay : Axis K)
    (hx : ax.ok) (hy : ay.ok) (data : Idx → K) {M : K}
    (hM : ∀ i j, 0 ≤ i → i < ax.size → 0 ≤ j → j < ay.size → |data [i, j]| ≤ M) (px py : K)
    {v0 : K} :
    (inLowerStrip ax px → interp1 0 false false none ay (fun c => data (0 :: c)) py = some v0 →
      ∃ v, (∀ fill, interp2 eps false false fill ax ay data px py = some v) ∧
        |v - v0| ≤ 2 * eps * M) ∧
    (inUpperStrip ax px →
      interp1 0 false false none ay (fun c => data ((ax.size - 1) :: c)) py = some v0 →
      ∃ v, (∀ fill, interp2 eps false false fill ax ay data px py = some v) ∧
        |v - v0| ≤ 2 * eps * M) ∧
    (inLowerStrip ay py → interp1 0 false false none ax (fun c => data (c ++ [0])) px = some v0 →
      ∃ v, (∀ fill, interp2 eps false false fill ax ay data px py = some v) ∧
        |v - v0| ≤ 2 * eps * M) ∧
    (inUpperStrip ay py →
      interp1 0 false false none ax (fun c => data (c ++ [ay.size - 1])) px = some v0 →
      ∃ v, (∀ fill, interp2 eps false false fill ax ay data px py = some v) ∧
        |v - v0| ≤ 2 * eps * M) := by
  have hM' : ∀ i j, 0 ≤ i → i < ax.size + 2 * shift false → 0 ≤ j →
      j < ay.size + 2 * shift false → |data [i, j]| ≤ M :=
    fun i j a b c d => hM i j a (by simpa [shift] using b) c (by simpa [shift] using d)
  have key : interp2 0 false false none ax ay data px py = some v0 →
      ∃ v, (∀ fill, interp2 eps false false fill ax ay data px py = some v) ∧
        |v - v0| ≤ 2 * eps * M :=
    fun h => real_eps_of_exact2 h0 h1 false false ax ay hx.1 hy.1 data hM' px py h
  have S := boundary_strip_nearest2 (K := K) (le_refl 0) none ax ay hx hy data px py
  exact ⟨fun a b => key (by rw [S.1 a, b]), fun a b => key (by rw [S.2.1 a, b]),
    fun a b => key (by rw [S.2.2.1 a, b]), fun a b => key (by rw [S.2.2.2 a, b])⟩

end
end PdeVerif.Interp

namespace PdeVerif.Interp.Examples
open PdeVerif PdeVerif.Interp

/-- `UnitGrid([2, 2])` with the value 0 imposed on every face -/
def padU2 : PadAxis ℚ := ⟨⟨2, false, 0, 1⟩, Side.value 0, Side.value 0⟩
def ones : Idx → ℚ := fun _ => 1

/-- **the known finding "corner square" reproduced in the model**: `ScalarField(UnitGrid([2, 2]), 1.0)
.interpolate([0, 0.25], bc={"value": 0})` - a point ON the face `x = 0`, where the value 0 is imposed -
gives `-1/4` (the real code returns `-0.25` at `[1e-6, 0.25]`) -/
example : interp2 (0:ℚ) true false none padU2.ax padU2.ax (padFull [padU2, padU2] ones)
    padU2.ax.lo (padU2.ax.lo + 1/2 * (padU2.ax.dx / 2)) = some (-1/4) := by
  refine (bc_mode_corner_square_value_on_face (K := ℚ) (eps := 0) (le_refl 0) none padU2 padU2 rfl rfl
    (by norm_num [padU2]) (by norm_num [padU2]) (by norm_num [padU2]) (by norm_num [padU2]) ones 0
    rfl rfl (σ := 1/2) (by norm_num) (by norm_num)).trans (congrArg some ?_)
  norm_num [ones]

/-- the hypotheses of `bc_mode_corner_square_misses_imposed_value` are satisfiable: same grid, `σ = 1/2` -/
example : interp2 (0:ℚ) true false none padU2.ax padU2.ax (padFull [padU2, padU2] ones)
    padU2.ax.lo (padU2.ax.lo + 1/2 * (padU2.ax.dx / 2)) ≠ some 0 :=
  bc_mode_corner_square_misses_imposed_value (K := ℚ) (eps := 0) (le_refl 0) none padU2 padU2 rfl rfl
    (by norm_num [padU2]) (by norm_num [padU2]) (by norm_num [padU2]) (by norm_num [padU2]) ones 0
    rfl rfl (by norm_num [ones]) (by norm_num) (by norm_num)

/-- away from the corner the same field attains the imposed value on the face: between the centres of
the cells 0 and 1 of the second axis (`y = 1/2 + t`), on the face `x = 0` (`τ = 0`) -/
example : interp2 (0:ℚ) true false none padU2.ax padU2.ax (padFull [padU2, padU2] ones)
    (padU2.ax.lo + 0 * (padU2.ax.dx / 2)) (centre padU2.ax 0 + 1/4 * padU2.ax.dx) = some 0 := by
  refine (bc_mode_approaches_imposed_condition2 (K := ℚ) (eps := 0) (le_refl 0) none padU2 padU2 rfl
    (by norm_num [padU2]) (by norm_num [padU2]) (by norm_num [padU2]) ones 0 (le_refl 0)
    (by norm_num [padU2]) (τ := 0) (t := 1/4) (le_refl 0) (by norm_num) (by norm_num)
    (by norm_num)).1.trans (congrArg some ?_)
  norm_num [padU2, bcLine, lerp]

/-- `ax4` (4 cells of width 1/2) with the value 3 imposed below and the outward derivative 2 above, data
`i²`: on the upper face the interpolant is `9 + 2·(1/4)` (slope 2 from the last centre), on the lower
face it is the imposed 3 -/
def pad4 : PadAxis ℚ := ⟨ax4, Side.value 3, Side.derivative 2⟩

example : interp1 (0:ℚ) true false none pad4.ax (padFull [pad4] sq) (pad4.ax.lo + 0 * (pad4.ax.dx / 2))
      = some 3 ∧
    interp1 (0:ℚ) true false none pad4.ax (padFull [pad4] sq) (upperEnd pad4.ax - 0 * (pad4.ax.dx / 2))
      = some (19/2) := by
  obtain ⟨h1, h2⟩ := bc_mode_approaches_imposed_condition (K := ℚ) (eps := 0) (le_refl 0) none pad4 rfl
    (by norm_num [pad4, ax4]) (by norm_num [pad4, ax4]) sq (τ := 0) (le_refl 0) (by norm_num)
  refine ⟨h1.trans (congrArg some ?_), h2.trans (congrArg some ?_)⟩ <;>
    norm_num [pad4, ax4, bcLine, sq]

/-- interpolating `i²` on `ax4` to `ax4` itself with the code's `eps` returns the data -/
example : interpToGrid (1/10^15 : ℚ) false none [ax4] sq [ax4] = some [0, 1, 4, 9] := by
  refine (interpolate_to_grid_same_grid (K := ℚ) (by norm_num) false none ax4 (by norm_num [ax4])
    sq).trans (congrArg some ?_)
  decide +kernel

/-- a target grid reaching beyond `ax4` raises without a fill value and never raises with one -/
example : interpToGrid (1/10^15 : ℚ) false none [ax4] sq [⟨1, false, 2, 1⟩] = none :=
  (interpolate_to_grid_outside (K := ℚ) (1/10^15) false ax4 ⟨1, false, 2, 1⟩
    (by unfold Axis.ok ax4; norm_num) sq).1
    ⟨0, le_refl 0, by norm_num, rfl, Or.inr (by norm_num [upperEnd, centre, ax4])⟩

/-- ghost-mode compiled inserter on a fully periodic 2x2x2 grid with unit volumes: every point conserves -/
def per2 : Axis ℚ := ⟨2, true, 0, 1⟩
example (full : Idx → ℚ) (px py pz : ℚ) :
    ∃ full', insertComp3 (0:ℚ) true per2 per2 per2 (fun _ => 1) full px py pz 5 = some full' ∧
      integral [per2.size, per2.size, per2.size] (fun _ => 1) (validView full')
        = integral [per2.size, per2.size, per2.size] (fun _ => 1) (validView full) + 5 :=
  insert_conserves_compiled_ghost3_periodic (le_refl 0) per2 per2 per2 (by norm_num [per2])
    (by norm_num [per2]) (by norm_num [per2]) rfl rfl rfl _ full px py pz 5
    (fun _ _ _ _ _ _ _ _ _ => one_ne_zero)

/-- the affine field `1 + 2x` on `ax4` -/
def aff4 : Idx → ℚ := fun c => match c with | [i] => 1 + 2 * centre ax4 i | _ => 0

/-- interpolated to two cells of width 1/2 starting at 1/2 (new centres 3/4 and 5/4): `1 + 2x` exactly -/
example : interpToGrid (0:ℚ) false none [ax4] aff4 [⟨2, false, 1/2, 1/2⟩] = some [5/2, 7/2] := by
  refine (interpolate_to_grid_affine (K := ℚ) (le_refl 0) none ax4 ⟨2, false, 1/2, 1/2⟩
    (by norm_num [ax4]) (by norm_num [ax4]) aff4 1 2 (fun i _ _ => rfl) ?_).trans (congrArg some ?_)
  · intro i h0 h1
    simp only at h1
    have : i = 0 ∨ i = 1 := by omega
    rcases this with rfl | rfl <;> norm_num [centre, ax4]
  · decide +kernel

end PdeVerif.Interp.Examples
