import PdeVerif.Props.C19
/-
C19, theorem gaps closed after the second review (gap round):

* `operators_use_component_order_polar`, `operators_use_component_order_spherical`,
  `operators_use_component_order_spherical_tensor` - "the component order is the order of the differential
  operators" for polar and spherical grids, relative to C01's model of the operator kernels (`Model/Stencil.lean`):
  every kernel (divergence in both forms, gradient, vector gradient, tensor divergence, double divergence) reads /
  writes the components by the indices `get_axis_index` returns for the axis names; was proved for cylindrical
  grids only.  (Statements by the sub-round `gap-c16c19-c19-item1`.)
* `polar_conversion_commutes_with_vector_gradient_real` - converting a vector field to the Cartesian basis
  commutes with the gradient of a VECTOR field (polar grids, any differentiable radial profiles): the four
  partial derivatives `∂_j v_i` of the converted field are the entries of `Bᵀ T B` (`tensorToCartesian`), `T`
  the tensor the polar `vector_gradient` kernel computes in the continuum limit
  (`[[F', -G/r], [G', F/r]]`, index convention `T[a][b] = ∇_b v_a`).
-/
namespace PdeVerif.Coords
open PdeVerif PdeVerif.Grids

/-! ### the component order is the order of the differential operators: polar and spherical grids

The analogue of `operators_use_component_order_cyl` (Props/C19.lean) for the other two curvilinear grid classes,
relative to C01's model of the operator kernels (`Model/Stencil.lean`, tied to
`pde/backends/numba/operators/{polar_sym,spherical_sym}.py` by the check of C01): with `ir, iθ, iφ` the indices
`get_axis_index` returns for the NAMES `r, θ, φ`,
* the divergence differentiates component `ir` (adds `a_r / r` resp. `2 a_r / r`) and reads no other component
  (all branches: conservative or not, every finite-difference method),
* the gradient of a scalar stores `∂_r` as component `ir` and `0` as the other components,
* the vector gradient and the tensor divergence pair the curvature terms with the components named `r`, `θ`, `φ`
  as the continuum formulas do (`(∇v)_φφ = v_r / r`, `(∇·T)_r = ∂_r T_rr + (T_rr - T_φφ)/r`, ...).
On these two classes `axes ++ axes_symmetric = c.axes`, so this is also the order of `_vector_to_cartesian`
(`order_consistent`). -/

section
open PdeVerif.Stencil
variable {K : Type} [Field K]

/-- **C19** polar grids: the operators act on the components in the order `get_axis_index` reports -/
theorem operators_use_component_order_polar (n : ℕ) (r : Int → K) (dr : K) (a : Arr K) (m : Method) (i : Int) :
    ∃ ir iφ : ℕ, getAxisIndex .polar n .r = some ir ∧ getAxisIndex .polar n .φ = some iφ ∧
      polarDivergence r dr a i =
        (a [(ir : Int), i+1] - a [(ir : Int), i-1]) / (((2:Nat):K) * dr) + a [(ir : Int), i] / r i ∧
      (∀ b : Arr K, (∀ k, b [(ir : Int), k] = a [(ir : Int), k]) →
        polarDivergence r dr b i = polarDivergence r dr a i) ∧
      polarGradient m dr a ir i = d1 m dr a [i] 0 ∧
      polarGradient m dr a iφ i = ((0:Nat):K) ∧
      polarVectorGradient r dr a ir ir i = (a [(ir : Int), i+1] - a [(ir : Int), i-1]) / (((2:Nat):K) * dr) ∧
      polarVectorGradient r dr a ir iφ i = -(a [(iφ : Int), i]) / r i ∧
      polarVectorGradient r dr a iφ ir i = (a [(iφ : Int), i+1] - a [(iφ : Int), i-1]) / (((2:Nat):K) * dr) ∧
      polarVectorGradient r dr a iφ iφ i = a [(ir : Int), i] / r i ∧
      polarTensorDivergence r dr a ir i =
        (a [(ir : Int), (ir : Int), i+1] - a [(ir : Int), (ir : Int), i-1]) / (((2:Nat):K) * dr)
          + (a [(ir : Int), (ir : Int), i] - a [(iφ : Int), (iφ : Int), i]) / r i ∧
      polarTensorDivergence r dr a iφ i =
        (a [(iφ : Int), (ir : Int), i+1] - a [(iφ : Int), (ir : Int), i-1]) / (((2:Nat):K) * dr)
          + (a [(ir : Int), (iφ : Int), i] + a [(iφ : Int), (ir : Int), i]) / r i := by
  refine ⟨0, 1, rfl, rfl, rfl, ?_, rfl, rfl, rfl, rfl, rfl, rfl, rfl, rfl⟩
  intro b hb
  simp only [polarDivergence]
  have := hb (i+1); have := hb (i-1); have := hb i
  simp_all

/-- **C19** spherical grids: the same -/
theorem operators_use_component_order_spherical (n : ℕ) (r : Int → K) (dr : K) (a : Arr K) (m : Method)
    (cons : Bool) (i : Int) :
    ∃ ir iθ iφ : ℕ, getAxisIndex .spherical n .r = some ir ∧ getAxisIndex .spherical n .θ = some iθ ∧
      getAxisIndex .spherical n .φ = some iφ ∧
      sphDivergence false m r dr a i = d1 m dr a [(ir : Int), i] 1 + ((2:Nat):K) / r i * a [(ir : Int), i] ∧
      (∀ b : Arr K, (∀ k, b [(ir : Int), k] = a [(ir : Int), k]) →
        sphDivergence cons m r dr b i = sphDivergence cons m r dr a i) ∧
      sphGradient m dr a ir i = d1 m dr a [i] 0 ∧
      sphGradient m dr a iθ i = ((0:Nat):K) ∧
      sphGradient m dr a iφ i = ((0:Nat):K) ∧
      sphVectorGradient m r dr a ir ir i = d1 m dr a [(ir : Int), i] 1 ∧
      sphVectorGradient m r dr a iθ iθ i = a [(ir : Int), i] / r i ∧
      sphVectorGradient m r dr a iφ iφ i = a [(ir : Int), i] / r i ∧
      sphTensorDivergence false r dr a ir i =
        (a [(ir : Int), (ir : Int), i+1] - a [(ir : Int), (ir : Int), i-1]) / (((2:Nat):K) * dr)
          + ((2:Nat):K) * (a [(ir : Int), (ir : Int), i] - a [(iφ : Int), (iφ : Int), i]) / r i ∧
      sphTensorDivergence false r dr a iθ i =
        (a [(iθ : Int), (ir : Int), i+1] - a [(iθ : Int), (ir : Int), i-1]) / (((2:Nat):K) * dr)
          + ((2:Nat):K) * a [(iθ : Int), (ir : Int), i] / r i ∧
      sphTensorDivergence false r dr a iφ i =
        (a [(iφ : Int), (ir : Int), i+1] - a [(iφ : Int), (ir : Int), i-1]) / (((2:Nat):K) * dr)
          + (((2:Nat):K) * a [(iφ : Int), (ir : Int), i] + a [(ir : Int), (iφ : Int), i]) / r i := by
  refine ⟨0, 1, 2, rfl, rfl, rfl, rfl, ?_, rfl, rfl, rfl, rfl, rfl, rfl, rfl, rfl, rfl⟩
  intro b hb
  have h1 := hb (i+1); have h2 := hb (i-1); have h3 := hb i
  cases cons <;> cases m <;> simp_all [sphDivergence, d1, shift]

/-- **C19** spherical grids, the remaining tensor kernels (conservative tensor divergence, double divergence in
both forms): they read exactly the components named `(r, r)` and `(φ, φ)` - with `ir, iφ` the indices
`get_axis_index` returns for the names - and the conservative tensor divergence stores its result as component
`ir` (`0` as the components `iθ`, `iφ`) -/
theorem operators_use_component_order_spherical_tensor (n : ℕ) (r : Int → K) (dr : K) (a : Arr K) (cons : Bool)
    (i : Int) :
    ∃ ir iθ iφ : ℕ, getAxisIndex .spherical n .r = some ir ∧ getAxisIndex .spherical n .θ = some iθ ∧
      getAxisIndex .spherical n .φ = some iφ ∧
      (∀ b : Arr K, (∀ k, b [(ir : Int), (ir : Int), k] = a [(ir : Int), (ir : Int), k]) →
        (∀ k, b [(iφ : Int), (iφ : Int), k] = a [(iφ : Int), (iφ : Int), k]) →
        sphTensorDivergence true r dr b ir i = sphTensorDivergence true r dr a ir i ∧
        sphTensorDoubleDivergence cons r dr b i = sphTensorDoubleDivergence cons r dr a i) ∧
      sphTensorDivergence true r dr a iθ i = ((0:Nat):K) ∧
      sphTensorDivergence true r dr a iφ i = ((0:Nat):K) := by
  refine ⟨0, 1, 2, rfl, rfl, rfl, ?_, rfl, rfl⟩
  intro b hb hp
  have h1 := hb (i+1); have h2 := hb (i-1); have h3 := hb i
  have p1 := hp (i+1); have p2 := hp (i-1); have p3 := hp i
  constructor
  · simp_all [sphTensorDivergence]
  · cases cons <;> simp_all [sphTensorDoubleDivergence]

end

/-! ## conversion commutes with the gradient of a vector field (polar grids, `K = ℝ`) -/

section
open Real

/-- the tensor the polar `vector_gradient` kernel computes, in the continuum limit, for the field
`f_r = F(r)`, `f_φ = G(r)` (`polarVectorGradient` of `Model/Stencil.lean` with the central differences replaced
by the derivatives): `T[a][b] = ∇_b v_a` -/
noncomputable def polarVectorGradientCont (F G : ℝ → ℝ) (F' G' r : ℝ) : Mat ℝ :=
  [[F', -(G r) / r], [G', F r / r]]

/-- the tie of `polarVectorGradientCont` to the operator model of C01 (`Stencil.polarVectorGradient`, the model of
`polar_sym.py:vector_gradient` that C01's correspondence runs against the real kernel): on samples `a[0, i] = F(r_i)`,
`a[1, i] = G(r_i)` the two algebraic slots are literally the kernel's, and the two differentiated slots are the
kernel's central differences of the same component (whose limit `F'`, `G'` is C01's subject) -/
theorem polarVectorGradientCont_matches_kernel (F G : ℝ → ℝ) (F' G' : ℝ) (r : Int → ℝ) (dr : ℝ)
    (a : PdeVerif.Stencil.Arr ℝ) (i : Int) (ha0 : ∀ k, a [0, k] = F (r k)) (ha1 : ∀ k, a [1, k] = G (r k)) :
    PdeVerif.Stencil.polarVectorGradient r dr a 0 1 i
        = entryAt 0 1 (polarVectorGradientCont F G F' G' (r i)) ∧
    PdeVerif.Stencil.polarVectorGradient r dr a 1 1 i
        = entryAt 1 1 (polarVectorGradientCont F G F' G' (r i)) ∧
    PdeVerif.Stencil.polarVectorGradient r dr a 0 0 i = (F (r (i + 1)) - F (r (i - 1))) / (2 * dr) ∧
    PdeVerif.Stencil.polarVectorGradient r dr a 1 0 i = (G (r (i + 1)) - G (r (i - 1))) / (2 * dr) ∧
    entryAt 0 0 (polarVectorGradientCont F G F' G' (r i)) = F' ∧
    entryAt 1 0 (polarVectorGradientCont F G F' G' (r i)) = G' := by
  simp [PdeVerif.Stencil.polarVectorGradient, polarVectorGradientCont, entryAt, ha0, ha1]

/-- `F(r) · k/r` and `G(r) · t/r` along the SECOND variable are the lemmas `hasDerivAt_radial_cross/comp` of
`Props/C19.lean` with the roles of `x` and `y` exchanged; the vector gradient needs all four combinations. -/
theorem polar_conversion_commutes_with_vector_gradient_real (F G : ℝ → ℝ) (F' G' x y : ℝ)
    (h : 0 < x ^ 2 + y ^ 2) (hF : HasDerivAt F F' √(x ^ 2 + y ^ 2))
    (hG : HasDerivAt G G' √(x ^ 2 + y ^ 2)) :
    let TC := tensorToCartesian .polar 1
      ⟨0, 0, x / √(x ^ 2 + y ^ 2), y / √(x ^ 2 + y ^ 2)⟩
      (polarVectorGradientCont F G F' G' √(x ^ 2 + y ^ 2))
    HasDerivAt (fun t => compAt 0 (polarFieldCart F G t y)) (entryAt 0 0 TC) x ∧
    HasDerivAt (fun t => compAt 0 (polarFieldCart F G x t)) (entryAt 0 1 TC) y ∧
    HasDerivAt (fun t => compAt 1 (polarFieldCart F G t y)) (entryAt 1 0 TC) x ∧
    HasDerivAt (fun t => compAt 1 (polarFieldCart F G x t)) (entryAt 1 1 TC) y := by
  intro TC
  have h' : 0 < y ^ 2 + x ^ 2 := by rwa [add_comm]
  have e : y ^ 2 + x ^ 2 = x ^ 2 + y ^ 2 := add_comm _ _
  have hne : √(x ^ 2 + y ^ 2) ≠ 0 := (Real.sqrt_pos.mpr h).ne'
  have hsq : √(x ^ 2 + y ^ 2) ^ 2 = x ^ 2 + y ^ 2 := Real.sq_sqrt h.le
  have hF' : HasDerivAt F F' √(y ^ 2 + x ^ 2) := by rwa [e]
  have hG' : HasDerivAt G G' √(y ^ 2 + x ^ 2) := by rwa [e]
  -- the four partial derivatives
  have d00 := (hasDerivAt_radial_comp F F' x (y ^ 2) h hF).add
    (hasDerivAt_radial_cross G G' x (y ^ 2) y h hG).neg
  have d01 := (hasDerivAt_radial_cross F F' y (x ^ 2) x h' hF').add
    (hasDerivAt_radial_comp G G' y (x ^ 2) h' hG').neg
  have d10 := (hasDerivAt_radial_cross F F' x (y ^ 2) y h hF).add
    (hasDerivAt_radial_comp G G' x (y ^ 2) h hG)
  have d11 := (hasDerivAt_radial_comp F F' y (x ^ 2) h' hF').add
    (hasDerivAt_radial_cross G G' y (x ^ 2) x h' hG')
  have hTC : TC = tensorToCartesian .polar 1
      ⟨0, 0, x / √(x ^ 2 + y ^ 2), y / √(x ^ 2 + y ^ 2)⟩
      (polarVectorGradientCont F G F' G' √(x ^ 2 + y ^ 2)) := rfl
  refine ⟨?_, ?_, ?_, ?_⟩
  · refine (d00.congr_of_eventuallyEq (Filter.Eventually.of_forall fun t => ?_)).congr_deriv ?_
    · simp [compAt, polarFieldCart_eq]
    · rw [hTC]
      simp [entryAt, tensorToCartesian, polarVectorGradientCont, basis, polarBasis, matMul, transpose,
        consCols, vecMat, addV, smulV]
      field_simp
      ring
  · refine (d01.congr_of_eventuallyEq (Filter.Eventually.of_forall fun t => ?_)).congr_deriv ?_
    · simp [compAt, polarFieldCart_eq, add_comm (x ^ 2) (t ^ 2)]
    · rw [hTC, e]
      simp [entryAt, tensorToCartesian, polarVectorGradientCont, basis, polarBasis, matMul, transpose,
        consCols, vecMat, addV, smulV]
      field_simp
      ring
  · refine (d10.congr_of_eventuallyEq (Filter.Eventually.of_forall fun t => ?_)).congr_deriv ?_
    · simp [compAt, polarFieldCart_eq]
    · rw [hTC]
      simp [entryAt, tensorToCartesian, polarVectorGradientCont, basis, polarBasis, matMul, transpose,
        consCols, vecMat, addV, smulV]
      field_simp
      ring
  · refine (d11.congr_of_eventuallyEq (Filter.Eventually.of_forall fun t => ?_)).congr_deriv ?_
    · simp [compAt, polarFieldCart_eq, add_comm (x ^ 2) (t ^ 2)]
    · rw [hTC, e]
      simp [entryAt, tensorToCartesian, polarVectorGradientCont, basis, polarBasis, matMul, transpose,
        consCols, vecMat, addV, smulV]
      field_simp
      ring
/-- the hypotheses are satisfiable: the field `r e_r + r e_φ` (position field plus rigid rotation) at `(3, 4)` -/
example : (0:ℝ) < 3 ^ 2 + 4 ^ 2 ∧ HasDerivAt (fun r : ℝ => r) 1 √(3 ^ 2 + 4 ^ 2) :=
  ⟨by norm_num, hasDerivAt_id _⟩

/-- for that field the continuum tensor of the polar kernel is `[[1, -1], [1, 1]]` at every radius `r ≠ 0`
(gradient of `(x - y, x + y)`, a rotation-invariant tensor) -/
example (r : ℝ) (hr : r ≠ 0) :
    polarVectorGradientCont (fun r => r) (fun r => r) 1 1 r = [[1, -1], [1, 1]] := by
  simp [polarVectorGradientCont, hr]

end
end PdeVerif.Coords
