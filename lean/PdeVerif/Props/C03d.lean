import PdeVerif.Model.BC
import PdeVerif.Lemmas.Basic
import Mathlib.Tactic.Ring
import Mathlib.Tactic.FieldSimp
import Mathlib.Tactic.LinearCombination
/-
C03, user-controlled conditions (`{"type": "user"}`, data through `args`): the ghost value they write is the ghost value of
the ordinary condition with the same data, so every route through a user-controlled condition agrees with the routes of the
ordinary condition (whose agreement among themselves is C02/C03's subject), and it satisfies the ordinary condition's
defining equation at the wall.  `userGhost` is evaluated by the driver (`c03.userghost`) against the ghost cells the real
interpreted and compiled setters write.
-/
namespace PdeVerif.BC
section
variable {K : Type} [Field K]

theorem userGhost_value_eq_dirichlet (dx v cell : K) :
    userGhost .value dx v cell = ghost1 (vpDirichlet v) cell := by
  simp only [userGhost, ghost1, vpDirichlet]; push_cast; ring

theorem userGhost_derivative_eq_neumann (dx v cell : K) :
    userGhost .derivative dx v cell = ghost1 (vpNeumann dx v) cell := by
  simp only [userGhost, ghost1, vpNeumann]; push_cast; ring

theorem userGhost_virtualPoint (dx v cell : K) : userGhost .virtualPoint dx v cell = v := rfl

/-- the same targets of `ExpressionBC` -/
theorem userGhost_eq_expr (dx v cell : K) :
    userGhost .value dx v cell = exprValue v cell ∧ userGhost .derivative dx v cell = exprDerivative dx v cell :=
  ⟨rfl, rfl⟩

/-- defining equations at the wall: the mean of ghost and cell is the imposed value ... -/
theorem userGhost_value_holds [NeZero (2 : K)] (dx v cell : K) :
    (userGhost .value dx v cell + cell) / 2 = v := by
  simp only [userGhost]; push_cast
  have h2 : (2 : K) ≠ 0 := NeZero.ne 2
  field_simp; ring

/-- ... and the outward difference quotient is the imposed derivative -/
theorem userGhost_derivative_holds (dx v cell : K) (hdx : dx ≠ 0) :
    (userGhost .derivative dx v cell - cell) / dx = v := by
  simp only [userGhost]; field_simp; ring

/-- the seeded slip (`dx*v - cell` in the compiled evaluator) is a different function: it agrees only where the cell is 0 -/
theorem userGhost_derivative_sign_matters [NeZero (2 : K)] (dx v cell : K) :
    dx * v - cell = userGhost .derivative dx v cell ↔ cell = 0 := by
  simp only [userGhost]
  have h2 : (2 : K) ≠ 0 := NeZero.ne 2
  constructor
  · intro h
    have : (2 : K) * cell = 0 := by linear_combination -h
    rcases mul_eq_zero.mp this with h' | h'
    · exact absurd h' h2
    · exact h'
  · intro h; rw [h]; ring

example : userGhost (K := ℚ) .derivative (1/4) (3/4) 2 = 35/16 ∧ userGhost (K := ℚ) .value (1/4) (3/4) 2 = -1/2 := by
  constructor <;> norm_num [userGhost]

end
end PdeVerif.BC
