import PdeVerif.Model.SetterSeq
import PdeVerif.Props.C02
import Mathlib.Data.List.Forall2
/-
C03 - compiled ghost-cell setter = interpreted ghost-cell setter, as a theorem about two different model definitions:
`BC.compiledSetter` (sequential loops over face points reading the current array, upper-then-lower per axis, recursive
`chain`; `Model/SetterSeq.lean`) and `BC.setGhostAll` (one simultaneous assignment per face, plain loop over the faces;
`Model/BC.lean`).  Both are evaluated by the driver against the real code (`c03.seqghost` against the compiled setter of the
numba backend, `c02.ghost`/`c03.apply` against both).
-/
set_option linter.unusedSimpArgs false
set_option linter.unusedSectionVars false
set_option linter.unnecessarySeqFocus false

namespace PdeVerif.BC
open PdeVerif

section
variable {K : Type} [Field K] [CharZero K]

/-! ### `chain` is a left fold -/

theorem chain_some {σ : Type} (fs : List (σ → σ)) (g : σ → σ) (a : σ) :
    chain fs (some g) a = fs.foldl (fun acc f => f acc) (g a) := by
  induction fs generalizing g with
  | nil => rfl
  | cons f rest ih =>
    cases rest with
    | nil => rfl
    | cons f2 rest2 =>
      show chain (f2 :: rest2) (some (fun a => f (g a))) a = _
      rw [ih]
      rfl

/-- **the recursive `chain` of `make_ghost_cell_setter` runs the axis setters in order** -/
theorem chain_eq_foldl {σ : Type} (fs : List (σ → σ)) (a : σ) :
    chain fs none a = fs.foldl (fun acc f => f acc) a := by
  cases fs with
  | nil => rfl
  | cons f rest =>
    cases rest with
    | nil => rfl
    | cons f2 rest2 =>
      show chain (f2 :: rest2) (some f) a = _
      rw [chain_some]
      rfl

/-- the compiled setter of all axes is the left fold of the local loops over the faces in the interpreted order -/
theorem compiledSetter_eq_foldl (dim : Nat) (axes : List ((Face × K × Cond K) × (Face × K × Cond K))) (a : List Int → K) :
    compiledSetter dim axes a = (interpretedOrder axes).foldl (fun acc fc => compiledLocal dim fc acc) a := by
  unfold compiledSetter interpretedOrder
  rw [chain_eq_foldl]
  induction axes generalizing a with
  | nil => rfl
  | cons p rest ih =>
    simp only [List.map_cons, List.foldl_cons, List.flatMap_cons, List.foldl_append, List.foldl_nil]
    rw [ih]
    rfl

/-! ### one face: the sequential loop equals the simultaneous assignment -/

theorem foldl_updAt (l : List (List Int)) (g : List Int → K) (a : List Int → K) (idx : List Int) :
    (l.map (fun p => (p, g p))).foldl (fun acc w => updAt acc w.1 w.2) a idx = if idx ∈ l then g idx else a idx := by
  induction l generalizing a with
  | nil => simp
  | cons p rest ih =>
    simp only [List.map_cons, List.foldl_cons]
    rw [ih]
    by_cases h1 : idx ∈ rest
    · simp [h1]
    · by_cases h2 : idx = p
      · subst h2; simp [h1, updAt]
      · simp [h1, h2, updAt]

theorem setPoint_apply (f : Face) (dx : K) (c : Cond K) (a : List Int → K) (grp : List (List Int)) (idx : List Int) :
    setPoint f dx c a grp idx = if idx ∈ grp then ghostValue f dx c a idx else a idx := by
  unfold setPoint
  exact foldl_updAt grp _ a idx

/-- the value written at a face point depends only on entries whose own-axis coordinate is not the ghost coordinate of
this side (at least one cell along the axis) -/
theorem ghostValue_congr_offghost (f : Face) (dx : K) (c : Cond K) (a b : List Int → K) (idx : List Int) (hN : 1 ≤ f.N)
    (hab : ∀ cc : Int, cc ≠ ghostIdx f.N f.side → a (f.at idx cc) = b (f.at idx cc)) :
    ghostValue f dx c a idx = ghostValue f dx c b idx := by
  have hn : nearIdx f.N f.side ≠ ghostIdx f.N f.side := by cases f.side <;> simp [nearIdx, ghostIdx]
  have hn2 : near2Idx f.N f.side ≠ ghostIdx f.N f.side := by cases f.side <;> simp [near2Idx, ghostIdx] <;> omega
  have ho : oppIdx f.N f.side ≠ ghostIdx f.N f.side := by cases f.side <;> simp [oppIdx, ghostIdx] <;> omega
  cases c <;> simp only [ghostValue, hab _ hn, hab _ hn2, hab _ ho]

/-- an index with a non-ghost own-axis coordinate is not written by the face -/
theorem Face.not_writes_at_offghost (f : Face) (idx : List Int) (cc : Int) (hax : f.axis < f.shape.length)
    (hlen : idx.length = f.rank + f.shape.length) (hcc : cc ≠ ghostIdx f.N f.side) : f.writes (f.at idx cc) = false := by
  by_contra h
  have h' : f.writes (f.at idx cc) = true := by simpa using h
  have := (f.writes_ghost _ h').1
  rw [f.drop_at idx cc (by omega), getD_setAt_same _ _ _ (by simp; omega)] at this
  exact hcc this

/-- **the sequential loop over face points (each pass reading the array left by the previous passes) stores, at every
listed point, the value computed from the array before the loop** - for any order of the passes, any grouping, repeated
points allowed - and leaves every other entry alone -/
theorem setGhostLoop_apply (f : Face) (dx : K) (c : Cond K) (hf : f.WF) (pts : List (List (List Int)))
    (hw : ∀ g ∈ pts, ∀ p ∈ g, f.writes p = true) (a : List Int → K) (idx : List Int) :
    setGhostLoop f dx c pts a idx = if idx ∈ pts.flatten then ghostValue f dx c a idx else a idx := by
  unfold setGhostLoop
  induction pts generalizing a with
  | nil => simp
  | cons g rest ih =>
    simp only [List.foldl_cons, List.flatten_cons, List.mem_append]
    rw [ih (fun g' hg' => hw g' (List.mem_cons_of_mem _ hg'))]
    by_cases h1 : idx ∈ rest.flatten
    · simp only [h1, or_true, if_true]
      obtain ⟨g', hg', hp⟩ := List.mem_flatten.mp h1
      have hwi := hw g' (List.mem_cons_of_mem _ hg') idx hp
      have hlen := (f.writes_ghost idx hwi).2
      apply ghostValue_congr_offghost f dx c _ _ idx hf.2
      intro cc hcc
      rw [setPoint_apply]
      have hnw := f.not_writes_at_offghost idx cc hf.1 hlen hcc
      have : f.at idx cc ∉ g := by
        intro hin
        have := hw g List.mem_cons_self _ hin
        rw [hnw] at this
        exact Bool.false_ne_true this
      simp [this]
    · simp only [h1, or_false, if_false]
      exact setPoint_apply f dx c a g idx

/-! ### the loop visits exactly the entries `set_ghost_cells` writes -/

theorem mem_prodLists (ls : List (List Int)) (x : List Int) :
    x ∈ prodLists ls ↔ List.Forall₂ (fun a l => a ∈ l) x ls := by
  induction ls generalizing x with
  | nil => simp [prodLists]
  | cons l ls ih =>
    simp only [prodLists, List.mem_flatMap, List.mem_map, List.forall₂_cons_right_iff]
    constructor
    · rintro ⟨a, ha, t, ht, rfl⟩
      exact ⟨a, t, ha, (ih t).mp ht, rfl⟩
    · rintro ⟨a, t, ha, ht, rfl⟩
      exact ⟨a, ha, t, (ih t).mpr ht, rfl⟩

/-- membership in a product of `n` coordinate lists given by a function of the position -/
theorem mem_prodLists_range (n : Nat) (g : Nat → List Int) (x : List Int) :
    x ∈ prodLists ((List.range n).map g) ↔ x.length = n ∧ ∀ j, j < n → x.getD j 0 ∈ g j := by
  rw [mem_prodLists, List.forall₂_iff_get]
  simp only [List.length_map, List.length_range, List.get_eq_getElem, List.getElem_map, List.getElem_range]
  constructor
  · rintro ⟨hl, h⟩
    refine ⟨hl, fun j hj => ?_⟩
    have hx : j < x.length := by omega
    have := h j hx hj
    have e : x.getD j 0 = x[j] := by simp [List.getD_eq_getElem?_getD, List.getElem?_eq_getElem hx]
    rwa [e]
  · rintro ⟨hl, h⟩
    refine ⟨hl, fun j h1 h2 => ?_⟩
    have := h j h2
    have e : x.getD j 0 = x[j] := by simp [List.getD_eq_getElem?_getD, List.getElem?_eq_getElem h1]
    rwa [e] at this

theorem mem_prodLists_replicate (n : Nat) (r : List Int) (x : List Int) :
    x ∈ prodLists (List.replicate n r) ↔ x.length = n ∧ ∀ j, j < n → x.getD j 0 ∈ r := by
  have : List.replicate n r = (List.range n).map (fun _ => r) := by
    apply List.ext_getElem <;> simp
  rw [this, mem_prodLists_range]

/-- component indices in range (`dim` values per tensor index) -/
def InRange (rank dim : Nat) (idx : List Int) : Prop :=
  ∀ j, j < rank → 0 ≤ idx.getD j 0 ∧ idx.getD j 0 < (dim : Int)

theorem Face.writes_iff (f : Face) (idx : List Int) : f.writes idx = true ↔
    idx.length = f.rank + f.shape.length ∧ (idx.drop f.rank).getD f.axis 0 = ghostIdx f.N f.side ∧
    (∀ j, j < f.shape.length → j = f.axis ∨
      (1 ≤ (idx.drop f.rank).getD j 0 ∧ (idx.drop f.rank).getD j 0 ≤ (f.shape.getD j 0 : Int))) ∧
    (f.normal = true → 1 ≤ f.rank ∧ (idx.take f.rank).getD (f.rank - 1) 0 = (f.axis : Int)) := by
  unfold Face.writes
  cases hn : f.normal <;>
    simp only [Bool.and_eq_true, beq_iff_eq, List.all_eq_true, List.mem_range, Bool.or_eq_true, decide_eq_true_eq,
      Bool.not_false, Bool.not_true, Bool.true_or, Bool.false_or, and_true, ge_iff_le, Bool.false_eq_true, false_imp_iff,
      true_imp_iff, and_assoc, forall_const]

theorem mem_axisCoords (f : Face) (j : Nat) (v : Int) :
    v ∈ f.axisCoords j ↔ (j = f.axis ∧ v = ghostIdx f.N f.side) ∨ (j ≠ f.axis ∧ 1 ≤ v ∧ v ≤ (f.shape.getD j 0 : Int)) := by
  unfold Face.axisCoords
  by_cases h : j = f.axis
  · simp [h]
  · simp only [h, if_false, List.mem_map, List.mem_range, false_and, false_or, ne_eq, not_false_eq_true, true_and]
    constructor
    · rintro ⟨k, hk, rfl⟩
      omega
    · rintro ⟨h1, h2⟩
      exact ⟨(v - 1).toNat, by omega, by omega⟩

theorem mem_spatialPts (f : Face) (sp : List Int) :
    sp ∈ f.spatialPts ↔ sp.length = f.shape.length ∧ ∀ j, j < f.shape.length → sp.getD j 0 ∈ f.axisCoords j := by
  unfold Face.spatialPts
  exact mem_prodLists_range _ _ _

theorem mem_comps (f : Face) (dim : Nat) (hn : f.normal = true → 1 ≤ f.rank) (t : List Int) :
    t ∈ f.comps dim ↔ t.length = f.rank ∧ (∀ j, j < f.rank → (f.normal = true → j < f.rank - 1) →
        0 ≤ t.getD j 0 ∧ t.getD j 0 < (dim : Int))
      ∧ (f.normal = true → t.getD (f.rank - 1) 0 = (f.axis : Int)) := by
  have hr : ∀ v : Int, v ∈ (List.range dim).map (fun (k : Nat) => (k:Int)) ↔ 0 ≤ v ∧ v < (dim : Int) := by
    intro v
    simp only [List.mem_map, List.mem_range]
    constructor
    · rintro ⟨k, hk, rfl⟩; omega
    · rintro ⟨h1, h2⟩; exact ⟨v.toNat, by omega, by omega⟩
  unfold Face.comps
  cases hnorm : f.normal
  · simp only [Bool.false_eq_true, if_false, false_imp_iff, and_true, forall_const, mem_prodLists_replicate, hr]
  · have h1 := hn hnorm
    simp only [if_true, true_imp_iff, List.mem_map, mem_prodLists_replicate, hr]
    constructor
    · rintro ⟨t', ⟨hl, hc⟩, rfl⟩
      refine ⟨by simp [hl]; omega, ?_, ?_⟩
      · intro j _ hj
        have := hc j hj
        have e : (t' ++ [(f.axis : Int)]).getD j 0 = t'.getD j 0 := by
          simp [List.getD_eq_getElem?_getD, List.getElem?_append_left (by omega : j < t'.length)]
        rwa [e]
      · simp [List.getD_eq_getElem?_getD, List.getElem?_append_right (by omega : t'.length ≤ f.rank - 1), hl]
    · rintro ⟨hl, hc, hlast⟩
      refine ⟨t.take (f.rank - 1), ⟨by simp [hl], ?_⟩, ?_⟩
      · intro j hj
        have := hc j (by omega) hj
        have e : (t.take (f.rank - 1)).getD j 0 = t.getD j 0 := by
          simp [List.getD_eq_getElem?_getD, List.getElem?_take, hj]
        rwa [e]
      · have hne : t ≠ [] := by intro h; rw [h] at hl; simp at hl; omega
        have e1 : f.rank - 1 = t.length - 1 := by omega
        rw [e1, ← List.dropLast_eq_take]
        have hl2 : t.getLast hne = (f.axis : Int) := by
          rw [← hlast, List.getLast_eq_getElem, List.getD_eq_getElem?_getD, List.getElem?_eq_getElem (by omega)]
          simp [e1]
        rw [← hl2]
        exact List.dropLast_append_getLast hne

/-- **soundness of the loop bounds**: every entry the compiled loop addresses is an entry `set_ghost_cells` writes -/
theorem Face.points_sound (f : Face) (dim : Nat) (hf : f.WF) (hn : f.normal = true → 1 ≤ f.rank) :
    ∀ g ∈ f.points dim, ∀ p ∈ g, f.writes p = true := by
  intro g hg p hp
  unfold Face.points at hg
  obtain ⟨sp, hsp, rfl⟩ := List.mem_map.mp hg
  obtain ⟨t, ht, rfl⟩ := List.mem_map.mp hp
  obtain ⟨hl, hc⟩ := (mem_spatialPts f sp).mp hsp
  obtain ⟨htl, _, hlast⟩ := (mem_comps f dim hn t).mp ht
  rw [Face.writes_iff]
  have e1 : (t ++ sp).take f.rank = t := List.take_left' htl
  have e2 : (t ++ sp).drop f.rank = sp := List.drop_left' htl
  rw [e1, e2]
  refine ⟨by simp [htl, hl], ?_, ?_, ?_⟩
  · rcases (mem_axisCoords f _ _).mp (hc f.axis hf.1) with ⟨_, h⟩ | ⟨h, _⟩
    · exact h
    · exact absurd rfl h
  · intro j hj
    rcases (mem_axisCoords f _ _).mp (hc j hj) with ⟨h, _⟩ | ⟨_, h⟩
    · exact Or.inl h
    · exact Or.inr h
  · intro h
    exact ⟨hn h, hlast h⟩

/-- **completeness of the loop bounds**: every entry `set_ghost_cells` writes (with component indices `0..dim-1`) is
addressed by the compiled loop -/
theorem Face.points_complete (f : Face) (dim : Nat) (idx : List Int) (hw : f.writes idx = true)
    (hr : InRange f.rank dim idx) : idx ∈ (f.points dim).flatten := by
  obtain ⟨hlen, hgh, hoth, hnorm⟩ := (f.writes_iff idx).mp hw
  rw [List.mem_flatten]
  refine ⟨(f.comps dim).map (fun t => t ++ idx.drop f.rank), ?_, ?_⟩
  · unfold Face.points
    refine List.mem_map.mpr ⟨idx.drop f.rank, ?_, rfl⟩
    rw [mem_spatialPts]
    refine ⟨by simp [hlen], fun j hj => ?_⟩
    rw [mem_axisCoords]
    by_cases h : j = f.axis
    · left
      rw [h]
      exact ⟨rfl, hgh⟩
    · right
      rcases hoth j hj with h' | h'
      · exact absurd h' h
      · exact ⟨h, h'⟩
  · refine List.mem_map.mpr ⟨idx.take f.rank, ?_, List.take_append_drop _ _⟩
    rw [mem_comps f dim (fun h => (hnorm h).1)]
    refine ⟨by simp [hlen], ?_, fun h => (hnorm h).2⟩
    intro j hj _
    have e : (idx.take f.rank).getD j 0 = idx.getD j 0 := by
      simp [List.getD_eq_getElem?_getD, List.getElem?_take, hj]
    rw [e]
    exact hr j hj

theorem InRange_at (f : Face) (dim : Nat) (idx : List Int) (cc : Int) (hlen : f.rank ≤ idx.length)
    (hr : InRange f.rank dim idx) : InRange f.rank dim (f.at idx cc) := by
  intro j hj
  have e : (f.at idx cc).getD j 0 = idx.getD j 0 := by
    have h1 : (f.at idx cc).getD j 0 = ((f.at idx cc).take f.rank).getD j 0 := by
      simp [List.getD_eq_getElem?_getD, List.getElem?_take, hj]
    have h2 : idx.getD j 0 = (idx.take f.rank).getD j 0 := by
      simp [List.getD_eq_getElem?_getD, List.getElem?_take, hj]
    rw [h1, h2, f.take_at idx cc hlen]
  rw [e]
  exact hr j hj

/-- **one face: the compiled loop equals the interpreted assignment** (`_make_local_ghost_cell_setter` vs
`BCBase.set_ghost_cells`) on every entry with component indices in range, for arrays that agree there -/
theorem compiledLocal_eq_setGhost (dim : Nat) (fc : Face × K × Cond K) (hf : fc.1.WF)
    (hn : fc.1.normal = true → 1 ≤ fc.1.rank) (a b : List Int → K)
    (hab : ∀ idx, InRange fc.1.rank dim idx → a idx = b idx) (idx : List Int) (hr : InRange fc.1.rank dim idx) :
    compiledLocal dim fc a idx = setGhost fc.1 fc.2.1 fc.2.2 b idx := by
  unfold compiledLocal setGhost
  rw [setGhostLoop_apply _ _ _ hf _ (fc.1.points_sound dim hf hn)]
  by_cases hw : fc.1.writes idx = true
  · rw [if_pos (fc.1.points_complete dim idx hw hr), if_pos hw]
    have hlen := (fc.1.writes_ghost idx hw).2
    apply ghostValue_congr_offghost _ _ _ _ _ _ hf.2
    intro cc _
    exact hab _ (InRange_at fc.1 dim idx cc (by omega) hr)
  · have hnot : idx ∉ (fc.1.points dim).flatten := by
      intro hin
      obtain ⟨g, hg, hp⟩ := List.mem_flatten.mp hin
      exact hw (fc.1.points_sound dim hf hn g hg idx hp)
    rw [if_neg hnot, if_neg hw]
    exact hab idx hr

/-- **compiled ghost-cell setter = interpreted ghost-cell setter**: `make_ghost_cell_setter(bcs)` of the numba backend
(sequential loops over face points on the live array, upper-then-lower per axis, recursive `chain`) and
`BoundariesList.set_ghost_cells` (one simultaneous assignment per face) give the same padded array - for any number of axes
and cells, any tensor rank, any conditions (`normal` ones included), any data, on every entry whose component indices
lie in `0..dim-1` (all entries of the real array) -/
theorem compiled_setter_eq_interpreted (dim rank : Nat) (axes : List ((Face × K × Cond K) × (Face × K × Cond K)))
    (hwf : ∀ fc ∈ interpretedOrder axes, fc.1.WF ∧ fc.1.rank = rank ∧ (fc.1.normal = true → 1 ≤ fc.1.rank))
    (a : List Int → K) (idx : List Int) (hr : InRange rank dim idx) :
    compiledSetter dim axes a idx = setGhostAll (interpretedOrder axes) a idx := by
  rw [compiledSetter_eq_foldl]
  unfold setGhostAll
  suffices h : ∀ (L : List (Face × K × Cond K)) (a b : List Int → K),
      (∀ fc ∈ L, fc.1.WF ∧ fc.1.rank = rank ∧ (fc.1.normal = true → 1 ≤ fc.1.rank)) →
      (∀ idx, InRange rank dim idx → a idx = b idx) →
      ∀ idx, InRange rank dim idx → L.foldl (fun acc fc => compiledLocal dim fc acc) a idx
        = L.foldl (fun acc fc => setGhost fc.1 fc.2.1 fc.2.2 acc) b idx from
    h _ a a hwf (fun _ _ => rfl) idx hr
  intro L
  induction L with
  | nil => intro a b _ hab idx hr; exact hab idx hr
  | cons fc rest ih =>
    intro a b hL hab idx hr
    simp only [List.foldl_cons]
    obtain ⟨h1, h2, h3⟩ := hL fc List.mem_cons_self
    apply ih _ _ (fun gc hg => hL gc (List.mem_cons_of_mem _ hg)) _ idx hr
    intro i hi
    exact compiledLocal_eq_setGhost dim fc h1 h3 a b (by rw [h2]; exact hab) i (by rw [h2]; exact hi)

/-- scalar fields: the two setters are the same function -/
theorem compiled_setter_eq_interpreted_scalar (dim : Nat) (axes : List ((Face × K × Cond K) × (Face × K × Cond K)))
    (hwf : ∀ fc ∈ interpretedOrder axes, fc.1.WF ∧ fc.1.rank = 0 ∧ fc.1.normal = false) (a : List Int → K) :
    compiledSetter dim axes a = setGhostAll (interpretedOrder axes) a := by
  funext idx
  apply compiled_setter_eq_interpreted dim 0 axes _ a idx (fun j hj => absurd hj (Nat.not_lt_zero j))
  intro fc hfc
  obtain ⟨h1, h2, h3⟩ := hwf fc hfc
  exact ⟨h1, h2, fun h => by rw [h3] at h; exact absurd h Bool.false_ne_true⟩

/-! ### concrete instances -/

def exAxes : List ((Face × Rat × Cond Rat) × (Face × Rat × Cond Rat)) :=
  [(({ shape := [2, 3], rank := 1, axis := 0, side := .lower, normal := false }, 1, .curvature (fun _ => 2)),
    ({ shape := [2, 3], rank := 1, axis := 0, side := .upper, normal := false }, 1, .neumann (fun vi => (vi.getD 1 0 : Rat)))),
   (({ shape := [2, 3], rank := 1, axis := 1, side := .lower, normal := true }, 1/2, .dirichlet (fun _ => 5)),
    ({ shape := [2, 3], rank := 1, axis := 1, side := .upper, normal := false }, 1/2, .periodic true))]

example : ∀ fc ∈ interpretedOrder exAxes, fc.1.WF ∧ fc.1.rank = 1 ∧ (fc.1.normal = true → 1 ≤ fc.1.rank) := by
  simp [interpretedOrder, exAxes, Face.WF, Face.N]
/-- a vector field on 2 x 3 cells; lower y face is a `normal` condition (only component 1 is written there) -/
example : compiledSetter 2 exAxes (fun i => (i.getD 0 0 : Rat) * 100 + i.getD 1 0 * 10 + i.getD 2 0) [1, 2, 0]
    = 2 * 5 - 121 := by decide +kernel
example : compiledSetter 2 exAxes (fun i => (i.getD 0 0 : Rat) * 100 + i.getD 1 0 * 10 + i.getD 2 0) [0, 2, 0]
    = 20 := by decide +kernel
example : (({ shape := [2, 3], rank := 1, axis := 0, side := .lower, normal := false } : Face).points 2).flatten = [[0, 0, 1], [1, 0, 1], [0, 0, 2], [1, 0, 2], [0, 0, 3], [1, 0, 3]] := by
  decide +kernel

/-! ### the store-log form evaluated by the driver is the same setter -/

theorem readLog_cons (w : List Int × K) (log : List (List Int × K)) (a : List Int → K) (idx : List Int) :
    readLog (w :: log) a idx = if w.1 = idx then w.2 else readLog log a idx := by
  unfold readLog
  by_cases h : w.1 = idx <;> simp [List.find?_cons, h]

theorem readLog_map_reverse (l : List (List Int)) (g : List Int → K) (log : List (List Int × K)) (a : List Int → K)
    (idx : List Int) :
    readLog ((l.map (fun p => (p, g p))).reverse ++ log) a idx = if idx ∈ l then g idx else readLog log a idx := by
  induction l generalizing log with
  | nil => simp
  | cons p rest ih =>
    simp only [List.map_cons, List.reverse_cons, List.append_assoc, List.singleton_append]
    rw [ih, readLog_cons]
    by_cases h1 : idx ∈ rest
    · simp [h1]
    · by_cases h2 : p = idx
      · subst h2; simp
      · have h3 : ¬ idx = p := fun h => h2 h.symm
        simp [h1, h2, h3]

theorem readLog_setPointLog (f : Face) (dx : K) (c : Cond K) (a : List Int → K) (log : List (List Int × K))
    (grp : List (List Int)) :
    readLog (setPointLog f dx c a log grp) a = setPoint f dx c (readLog log a) grp := by
  funext idx
  rw [setPoint_apply]
  unfold setPointLog
  exact readLog_map_reverse grp _ log a idx

theorem readLog_loop (f : Face) (dx : K) (c : Cond K) (a : List Int → K) (pts : List (List (List Int)))
    (log : List (List Int × K)) :
    readLog (pts.foldl (fun lg g => setPointLog f dx c a lg g) log) a = setGhostLoop f dx c pts (readLog log a) := by
  unfold setGhostLoop
  induction pts generalizing log with
  | nil => rfl
  | cons g rest ih =>
    simp only [List.foldl_cons]
    rw [ih, readLog_setPointLog]

theorem readLog_localLog (dim : Nat) (a : List Int → K) (fc : Face × K × Cond K) (log : List (List Int × K)) :
    readLog (localLog dim a fc log) a = compiledLocal dim fc (readLog log a) :=
  readLog_loop _ _ _ a _ log

theorem readLog_axisLog (dim : Nat) (a : List Int → K) (lo hi : Face × K × Cond K) (log : List (List Int × K)) :
    readLog (axisLog dim a lo hi log) a = compiledAxis dim lo hi (readLog log a) := by
  unfold axisLog compiledAxis
  rw [readLog_localLog, readLog_localLog]

/-- **the definition the driver evaluates (`c03.seqghost`) is the compiled setter of the theorems**: reading the initial
array through the log of all stores gives `compiledSetter` -/
theorem readLog_compiledSetterLog (dim : Nat) (axes : List ((Face × K × Cond K) × (Face × K × Cond K)))
    (a : List Int → K) : readLog (compiledSetterLog dim axes a) a = compiledSetter dim axes a := by
  unfold compiledSetterLog compiledSetter
  rw [chain_eq_foldl]
  funext idx
  rw [chain_eq_foldl]
  suffices h : ∀ (log : List (List Int × K)),
      readLog ((axes.map (fun p => axisLog dim a p.1 p.2)).foldl (fun acc f => f acc) log) a
        = (axes.map (fun p => compiledAxis dim p.1 p.2)).foldl (fun acc f => f acc) (readLog log a) by
    rw [h []]
    rfl
  induction axes with
  | nil => intro log; rfl
  | cons p rest ih =>
    intro log
    simp only [List.map_cons, List.foldl_cons]
    rw [ih, readLog_axisLog]

/-- hence: what the driver evaluates equals the interpreted setter -/
theorem compiledSetterLog_eq_interpreted (dim rank : Nat) (axes : List ((Face × K × Cond K) × (Face × K × Cond K)))
    (hwf : ∀ fc ∈ interpretedOrder axes, fc.1.WF ∧ fc.1.rank = rank ∧ (fc.1.normal = true → 1 ≤ fc.1.rank))
    (a : List Int → K) (idx : List Int) (hr : InRange rank dim idx) :
    readLog (compiledSetterLog dim axes a) a idx = setGhostAll (interpretedOrder axes) a idx := by
  rw [readLog_compiledSetterLog]
  exact compiled_setter_eq_interpreted dim rank axes hwf a idx hr

example : readLog (compiledSetterLog 2 exAxes (fun i => (i.getD 0 0 : Rat) * 100 + i.getD 1 0 * 10 + i.getD 2 0))
    (fun i => (i.getD 0 0 : Rat) * 100 + i.getD 1 0 * 10 + i.getD 2 0) [1, 2, 0] = -111 := by decide +kernel

end
end PdeVerif.BC
