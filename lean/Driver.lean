import PdeVerif.Drv.All
/-
Line protocol: every input line is a JSON object {"f": "<handler>", "a": {...}}; one JSON
answer per line: {"ok": <answer>} or {"err": "<message>"}.
-/
open Lean PdeVerif

def answer (line : String) : String :=
  match Json.parse line with
  | .error e => (Json.mkObj [("err", Json.str s!"parse: {e}")]).compress
  | .ok j =>
    match j.getObjVal? "f", j.getObjVal? "a" with
    | .ok (.str f), .ok a =>
      match PdeVerif.Drv.allHandlers.lookup f with
      | none => (Json.mkObj [("err", Json.str s!"unknown handler {f}")]).compress
      | some h =>
        match h a with
        | .ok r => (Json.mkObj [("ok", r)]).compress
        | .error e => (Json.mkObj [("err", Json.str e)]).compress
    | _, _ => (Json.mkObj [("err", Json.str "bad request")]).compress

partial def loop (hin : IO.FS.Stream) (hout : IO.FS.Stream) : IO Unit := do
  let line ← hin.getLine
  if line.isEmpty then return ()
  let l := line.trimAscii.toString
  if l.isEmpty then loop hin hout else
  hout.putStrLn (answer l)
  loop hin hout

def main : IO Unit := do
  let hin ← IO.getStdin
  let hout ← IO.getStdout
  loop hin hout
  hout.flush
